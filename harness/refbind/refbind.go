// Package refbind is an independent reference for the google.api.http request binding:
// HTTP body -> field named by `body`, then path-template variables, then query
// parameters (JSON or proto field names, dotted paths, repeated values, scalar well-known
// types). It imports nothing from vanguard.
package refbind

import (
	"encoding/json"
	"encoding/base64"
	"errors"
	"fmt"
	"google.golang.org/protobuf/reflect/protoregistry"
	"math"
	"net/url"
	"strconv"
	"strings"

	"google.golang.org/protobuf/encoding/protojson"
	"google.golang.org/protobuf/proto"
	"google.golang.org/protobuf/reflect/protoreflect"

	"connectrpc.com/vanguard/verifharness/refroute"
)

// ErrInvalid marks parameters that do not fit their field's type.
var ErrInvalid = errors.New("invalid argument")

// Rule is a binding in reference form.
type Rule struct {
	Template *refroute.Template
	Body     string // "", "*", or a field name
}

func resolve(md protoreflect.MessageDescriptor, path string) ([]protoreflect.FieldDescriptor, error) {
	var out []protoreflect.FieldDescriptor
	parts := strings.Split(path, ".")
	for i, p := range parts {
		if p == "" {
			return nil, fmt.Errorf("empty path element in %q", path)
		}
		fd := md.Fields().ByJSONName(p)
		if fd == nil {
			fd = md.Fields().ByName(protoreflect.Name(p))
		}
		if fd == nil {
			return nil, fmt.Errorf("unknown field %q in %q", p, path)
		}
		out = append(out, fd)
		if i < len(parts)-1 {
			if fd.Message() == nil || fd.IsList() || fd.IsMap() {
				return nil, fmt.Errorf("%q is not a message field", p)
			}
			md = fd.Message()
		}
	}
	return out, nil
}

func parseScalar(fd protoreflect.FieldDescriptor, s string) (protoreflect.Value, error) {
	bad := func() (protoreflect.Value, error) {
		return protoreflect.Value{}, fmt.Errorf("%w: %q is not a valid %s", ErrInvalid, s, fd.Kind())
	}
	switch fd.Kind() {
	case protoreflect.BoolKind:
		switch s {
		case "true":
			return protoreflect.ValueOfBool(true), nil
		case "false":
			return protoreflect.ValueOfBool(false), nil
		}
		return bad()
	case protoreflect.Int32Kind, protoreflect.Sint32Kind, protoreflect.Sfixed32Kind:
		n, err := strconv.ParseInt(s, 10, 32)
		if err != nil {
			return bad()
		}
		return protoreflect.ValueOfInt32(int32(n)), nil
	case protoreflect.Int64Kind, protoreflect.Sint64Kind, protoreflect.Sfixed64Kind:
		n, err := strconv.ParseInt(s, 10, 64)
		if err != nil {
			return bad()
		}
		return protoreflect.ValueOfInt64(n), nil
	case protoreflect.Uint32Kind, protoreflect.Fixed32Kind:
		n, err := strconv.ParseUint(s, 10, 32)
		if err != nil {
			return bad()
		}
		return protoreflect.ValueOfUint32(uint32(n)), nil
	case protoreflect.Uint64Kind, protoreflect.Fixed64Kind:
		n, err := strconv.ParseUint(s, 10, 64)
		if err != nil {
			return bad()
		}
		return protoreflect.ValueOfUint64(n), nil
	case protoreflect.FloatKind, protoreflect.DoubleKind:
		bits := 64
		if fd.Kind() == protoreflect.FloatKind {
			bits = 32
		}
		var f float64
		switch s {
		case "NaN":
			f = math.NaN()
		case "Infinity":
			f = math.Inf(1)
		case "-Infinity":
			f = math.Inf(-1)
		default:
			v, err := strconv.ParseFloat(s, bits)
			if err != nil || strings.ContainsAny(s, "xXpP_") || strings.HasPrefix(strings.ToLower(strings.TrimLeft(s, "+-")), "inf") || strings.EqualFold(s, "nan") {
				return bad()
			}
			f = v
		}
		if bits == 32 {
			return protoreflect.ValueOfFloat32(float32(f)), nil
		}
		return protoreflect.ValueOfFloat64(f), nil
	case protoreflect.StringKind:
		return protoreflect.ValueOfString(s), nil
	case protoreflect.BytesKind:
		t := strings.TrimRight(s, "=")
		if b, err := base64.RawStdEncoding.DecodeString(t); err == nil {
			return protoreflect.ValueOfBytes(b), nil
		}
		if b, err := base64.RawURLEncoding.DecodeString(t); err == nil {
			return protoreflect.ValueOfBytes(b), nil
		}
		return bad()
	case protoreflect.EnumKind:
		if ev := fd.Enum().Values().ByName(protoreflect.Name(s)); ev != nil {
			return protoreflect.ValueOfEnum(ev.Number()), nil
		}
		if n, err := strconv.ParseInt(s, 10, 32); err == nil {
			return protoreflect.ValueOfEnum(protoreflect.EnumNumber(n)), nil
		}
		return bad()
	}
	return protoreflect.Value{}, fmt.Errorf("%w: field %s cannot be a parameter", ErrInvalid, fd.FullName())
}

func setParam(msg protoreflect.Message, fds []protoreflect.FieldDescriptor, val string) error {
	for _, fd := range fds[:len(fds)-1] {
		msg = msg.Mutable(fd).Message()
	}
	fd := fds[len(fds)-1]
	if fd.IsMap() {
		return fmt.Errorf("%w: map field %s cannot be a parameter", ErrInvalid, fd.FullName())
	}
	var v protoreflect.Value
	if fd.Message() != nil {
		// scalar well-known types: their JSON form is a scalar
		m := msg.NewField(fd)
		if fd.IsList() {
			m = msg.NewField(fd).List().NewElement()
		}
		inner := m.Message().Interface()
		if err := protojson.Unmarshal([]byte(val), inner); err != nil {
			quoted, _ := json.Marshal(val) // (a JSON string; strconv.Quote writes Go escapes that JSON does not have)
			if err2 := protojson.Unmarshal(quoted, inner); err2 != nil {
				return fmt.Errorf("%w: %q is not a valid %s", ErrInvalid, val, fd.Message().FullName())
			}
		}
		v = m
	} else {
		var err error
		if v, err = parseScalar(fd, val); err != nil {
			return err
		}
	}
	if fd.IsList() {
		msg.Mutable(fd).List().Append(v)
	} else {
		msg.Set(fd, v)
	}
	return nil
}

// Bind computes the request message a REST request denotes under the rule.
func Bind(r *Rule, desc protoreflect.MessageDescriptor, newMsg func(protoreflect.MessageDescriptor) proto.Message, rawPath, rawQuery string, contentType string, body []byte) (proto.Message, error) {
	msg := newMsg(desc)
	mr := msg.ProtoReflect()
	switch {
	case r.Body == "*":
		if len(body) > 0 {
			if err := (protojson.UnmarshalOptions{DiscardUnknown: true, Resolver: Resolver}).Unmarshal(body, msg); err != nil {
				return nil, fmt.Errorf("%w: body: %v", ErrInvalid, err)
			}
		}
	case r.Body != "":
		fds, err := resolve(desc, r.Body)
		if err != nil {
			return nil, err
		}
		fd := fds[0]
		switch {
		case fd.Message() != nil && !fd.IsList() && !fd.IsMap() && fd.Message().FullName() == "google.api.HttpBody":
			hb := mr.Mutable(fd).Message()
			hb.Set(hb.Descriptor().Fields().ByName("content_type"), protoreflect.ValueOfString(contentType))
			hb.Set(hb.Descriptor().Fields().ByName("data"), protoreflect.ValueOfBytes(append([]byte(nil), body...)))
		case fd.Message() != nil && !fd.IsList() && !fd.IsMap():
			if len(body) > 0 {
				if err := (protojson.UnmarshalOptions{DiscardUnknown: true, Resolver: Resolver}).Unmarshal(body, mr.Mutable(fd).Message().Interface()); err != nil {
					return nil, fmt.Errorf("%w: body: %v", ErrInvalid, err)
				}
			}
		default:
			if len(body) > 0 {
				wrapped := append(append([]byte(`{"`+fd.JSONName()+`":`), body...), '}')
				if err := (protojson.UnmarshalOptions{DiscardUnknown: true, Resolver: Resolver}).Unmarshal(wrapped, msg); err != nil {
					return nil, fmt.Errorf("%w: body: %v", ErrInvalid, err)
				}
			}
		}
	}
	caps, ok, _ := r.Template.Match(rawPath)
	if !ok {
		return nil, fmt.Errorf("path %q does not match %q", rawPath, r.Template.Raw)
	}
	for _, v := range r.Template.Vars {
		fds, err := resolve(desc, v.Path)
		if err != nil {
			return nil, err
		}
		if err := setParam(mr, fds, caps[v.Path]); err != nil {
			return nil, err
		}
	}
	// query parameters, in the order in which they stand in the query (pairs with bad
	// escapes are dropped)
	for _, pair := range strings.Split(rawQuery, "&") {
		if pair == "" {
			continue // (a raw ';' is data: RFC 3986 allows it in a query)
		}
		k, v, _ := strings.Cut(pair, "=")
		ku, e1 := url.QueryUnescape(k)
		vu, e2 := url.QueryUnescape(v)
		if e1 != nil || e2 != nil {
			continue
		}
		fds, err := resolve(desc, ku)
		if err != nil {
			return nil, fmt.Errorf("%w: %v", ErrInvalid, err)
		}
		if err := setParam(mr, fds, vu); err != nil {
			return nil, err
		}
	}
	return msg, nil
}

// Resolver resolves messages inside google.protobuf.Any in JSON bodies (the caller may
// widen it to dynamically known types).
var Resolver interface {
	protoregistry.MessageTypeResolver
	protoregistry.ExtensionTypeResolver
} = protoregistry.GlobalTypes
