// Package reftimeout is an independent reference for the three timeout header grammars
// (Grpc-Timeout, Connect-Timeout-Ms, X-Server-Timeout) with exact integer-nanosecond
// semantics. It imports nothing from vanguard.
package reftimeout

import (
	"math/big"
	"regexp"
	"strings"
)

// Validity of a header value under its grammar.
type Validity int

const (
	Valid     Validity = iota // syntactically valid per the published grammar
	Malformed                 // clearly outside the grammar: must be rejected
	Unjudged                  // the grammar is silent or sources disagree: either behaviour accepted
)

var (
	reGrpc    = regexp.MustCompile(`^[0-9]{1,8}[HMSmun]$`)
	reConnect = regexp.MustCompile(`^[0-9]{1,10}$`)
	reDigits  = regexp.MustCompile(`^[0-9]+$`)
	reDecimal = regexp.MustCompile(`^[0-9]+(\.[0-9]+)?$`)
	reDecLoose = regexp.MustCompile(`^[+]?([0-9]+\.?[0-9]*|\.[0-9]+)([eE][+-]?[0-9]+)?$`)
)

var grpcUnits = map[byte]int64{'H': 3600e9, 'M': 60e9, 'S': 1e9, 'm': 1e6, 'u': 1e3, 'n': 1}

// Timeout is a parsed value.
type Timeout struct {
	NS   *big.Int // nanoseconds (decimal seconds: rounded to the nearest ns)
	Unit *big.Int // the rounding unit of this particular encoding, in ns
	// Exact is the exact value in ns when it is not an integer (decimal seconds with
	// sub-nanosecond digits); nil means NS is exact.
	Exact *big.Rat
}

// Rat returns the exact value in nanoseconds.
func (t Timeout) Rat() *big.Rat {
	if t.Exact != nil {
		return t.Exact
	}
	return new(big.Rat).SetInt(t.NS)
}

// ParseGRPC parses a Grpc-Timeout value.
func ParseGRPC(s string) (Timeout, Validity) {
	if !reGrpc.MatchString(s) {
		return Timeout{}, Malformed
	}
	n, _ := new(big.Int).SetString(s[:len(s)-1], 10)
	u := big.NewInt(grpcUnits[s[len(s)-1]])
	return Timeout{NS: n.Mul(n, u), Unit: u}, Valid
}

// ParseConnect parses a Connect-Timeout-Ms value.
func ParseConnect(s string) (Timeout, Validity) {
	switch {
	case reConnect.MatchString(s):
		n, _ := new(big.Int).SetString(s, 10)
		return Timeout{NS: n.Mul(n, big.NewInt(1e6)), Unit: big.NewInt(1e6)}, Valid
	case reDigits.MatchString(s):
		// more than 10 digits: beyond what the protocol document allows; implementations
		// differ on whether that is an error or simply "very long"
		n, _ := new(big.Int).SetString(s, 10)
		return Timeout{NS: n.Mul(n, big.NewInt(1e6)), Unit: big.NewInt(1e6)}, Unjudged
	}
	return Timeout{}, Malformed
}

// ParseREST parses an X-Server-Timeout value (decimal seconds).
func ParseREST(s string) (Timeout, Validity) {
	v := Valid
	switch {
	case reDecimal.MatchString(s):
	case reDecLoose.MatchString(s):
		v = Unjudged // exponent / sign / bare-dot forms: the header has no formal grammar
	default:
		return Timeout{}, Malformed
	}
	r, ok := new(big.Rat).SetString(strings.TrimPrefix(s, "+"))
	if !ok {
		return Timeout{}, Malformed
	}
	r.Mul(r, big.NewRat(1e9, 1))
	exact := new(big.Rat).Set(r)
	// round to the nearest nanosecond
	num, den := new(big.Int).Set(r.Num()), r.Denom()
	num.Mul(num, big.NewInt(2)).Add(num, den)
	ns := num.Div(num, new(big.Int).Mul(den, big.NewInt(2)))
	return Timeout{NS: ns, Unit: big.NewInt(1), Exact: exact}, v
}
