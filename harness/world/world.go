package world

import (
	"bytes"
	"context"
	"errors"
	"io"
	"net/http"
	"sort"
	"strings"
	"sync"

	"connectrpc.com/connect"
	"connectrpc.com/vanguard"
	"google.golang.org/protobuf/proto"
	"google.golang.org/protobuf/reflect/protoreflect"

	"connectrpc.com/vanguard/verifharness/drive"
	"connectrpc.com/vanguard/verifharness/wire"
)

// ---------------------------------------------------------------------------------
// Extra codec and compression registered with every Transcoder

// AltCodec is a third codec that is not a StableCodec: proto with a one-byte prefix.
type AltCodec struct{ Res vanguard.TypeResolver }

func (AltCodec) Name() string { return "alt" }
func (AltCodec) MarshalAppend(base []byte, msg proto.Message) ([]byte, error) {
	base = append(base, wire.AltPrefix)
	return proto.MarshalOptions{}.MarshalAppend(base, msg)
}
func (a AltCodec) Unmarshal(data []byte, msg proto.Message) error {
	if len(data) < 1 || data[0] != wire.AltPrefix {
		return errors.New("alt: missing prefix")
	}
	return proto.UnmarshalOptions{Resolver: a.Res}.Unmarshal(data[1:], msg)
}

type revCompressor struct {
	w   io.Writer
	buf bytes.Buffer
}

func (r *revCompressor) Write(p []byte) (int, error) { return r.buf.Write(p) }
func (r *revCompressor) Close() error {
	_, err := r.w.Write(wire.RevCompress(r.buf.Bytes()))
	r.buf.Reset()
	return err
}
func (r *revCompressor) Reset(w io.Writer) { r.w = w; r.buf.Reset() }

type revDecompressor struct {
	out *bytes.Reader
	err error
}

func (r *revDecompressor) Read(p []byte) (int, error) {
	if r.err != nil {
		return 0, r.err
	}
	if r.out == nil {
		return 0, io.EOF
	}
	return r.out.Read(p)
}
func (r *revDecompressor) Close() error { return nil }
func (r *revDecompressor) Reset(src io.Reader) error {
	r.out, r.err = nil, nil
	raw, err := io.ReadAll(src)
	if err != nil {
		return err
	}
	dec, err := wire.RevDecompress(raw)
	if err != nil {
		r.err = err
		return nil // surface on Read like gzip does for body errors
	}
	r.out = bytes.NewReader(dec)
	return nil
}

// crcCompressor / crcDecompressor: see wire.CRCCompress. The decompressor reports a bad
// checksum only from Close.
type crcCompressor struct {
	w   io.Writer
	buf bytes.Buffer
}

func (r *crcCompressor) Write(p []byte) (int, error) { return r.buf.Write(p) }
func (r *crcCompressor) Close() error {
	_, err := r.w.Write(wire.CRCCompress(r.buf.Bytes()))
	r.buf.Reset()
	return err
}
func (r *crcCompressor) Reset(w io.Writer) { r.w = w; r.buf.Reset() }

type crcDecompressor struct {
	out      *bytes.Reader
	err      error
	closeErr error
}

func (r *crcDecompressor) Read(p []byte) (int, error) {
	if r.err != nil {
		return 0, r.err
	}
	if r.out == nil {
		return 0, io.EOF
	}
	return r.out.Read(p)
}
func (r *crcDecompressor) Close() error { return r.closeErr }
func (r *crcDecompressor) Reset(src io.Reader) error {
	r.out, r.err, r.closeErr = nil, nil, nil
	raw, err := io.ReadAll(src)
	if err != nil {
		return err
	}
	if len(raw) < 6 || raw[0] != 'C' || raw[1] != 'K' {
		r.err = errors.New("crc: bad magic")
		return nil
	}
	body := raw[2 : len(raw)-4]
	if _, err := wire.CRCDecompress(raw); err != nil {
		r.closeErr = err // the data is handed out; the verdict comes with Close
	}
	r.out = bytes.NewReader(body)
	return nil
}

// ---------------------------------------------------------------------------------
// Configuration

// Config is one service configuration of the transcoder under test.
type Config struct {
	Service     protoreflect.ServiceDescriptor // default: StdService()
	Protocols   []vanguard.Protocol            // target protocols (default: Connect, gRPC, gRPC-Web)
	Codecs      []string                       // target codecs in preference order (nil: default)
	Compression []string                       // target compressions (nil: default gzip)
	NoCompress  bool                           // WithNoTargetCompression
	MaxMsg      uint32
	MaxGetURL   uint32
	Unknown     http.Handler
	Rules       []Rule // extra transcoder-level rules (selector = method full name in RuleSel)
	RuleSel     []string
	ExtraOpts   []vanguard.ServiceOption
	TOpts       []vanguard.TranscoderOption
	// Decoy registers a second, unrelated service AFTER the one under test, with options that
	// are the opposite of a restrictive configuration (every protocol, every codec, every
	// compression). Options of one service must not leak into another.
	Decoy bool
	// MoreServices registers further services (same handler) next to the one under test.
	MoreServices func(handler http.Handler) []*vanguard.Service
}

// FormToProtocol maps a server-side wire form to the vanguard protocol constant.
func FormToProtocol(f wire.Form) vanguard.Protocol {
	switch f.Family() {
	case "connect":
		return vanguard.ProtocolConnect
	case "grpc":
		return vanguard.ProtocolGRPC
	case "grpc-web":
		return vanguard.ProtocolGRPCWeb
	}
	return vanguard.ProtocolREST
}

// ExtraOptions registers the harness's extra codec ("alt") and compression ("rev").
func ExtraOptions() []vanguard.TranscoderOption {
	return []vanguard.TranscoderOption{
		vanguard.WithCodec(func(res vanguard.TypeResolver) vanguard.Codec { return AltCodec{Res: res} }),
		vanguard.WithCompression("crc",
			func() connect.Compressor { return &crcCompressor{} },
			func() connect.Decompressor { return &crcDecompressor{} }),
		vanguard.WithCompression("rev",
			func() connect.Compressor { return &revCompressor{} },
			func() connect.Decompressor { return &revDecompressor{} }),
	}
}

// Build constructs the real Transcoder.
func Build(cfg Config, handler http.Handler) (*vanguard.Transcoder, error) {
	svc := cfg.Service
	if svc == nil {
		svc = StdService()
	}
	var so []vanguard.ServiceOption
	if cfg.Protocols != nil {
		so = append(so, vanguard.WithTargetProtocols(cfg.Protocols...))
	}
	if cfg.Codecs != nil {
		so = append(so, vanguard.WithTargetCodecs(cfg.Codecs...))
	}
	if cfg.NoCompress {
		so = append(so, vanguard.WithNoTargetCompression())
	} else if cfg.Compression != nil {
		so = append(so, vanguard.WithTargetCompression(cfg.Compression...))
	}
	if cfg.MaxMsg != 0 {
		so = append(so, vanguard.WithMaxMessageBufferBytes(cfg.MaxMsg))
	}
	if cfg.MaxGetURL != 0 {
		so = append(so, vanguard.WithMaxGetURLBytes(cfg.MaxGetURL))
	}
	so = append(so, cfg.ExtraOpts...)
	to := ExtraOptions()
	if cfg.Unknown != nil {
		to = append(to, vanguard.WithUnknownHandler(cfg.Unknown))
	}
	to = append(to, cfg.TOpts...)
	var services []*vanguard.Service
	if cfg.Decoy {
		// ... and one BEFORE it, with the narrowest options: what an earlier service was given
		// must not accumulate into a later one that leaves the option unset
		services = append(services, vanguard.NewServiceWithSchema(decoy0Service(), handler,
			vanguard.WithTargetProtocols(vanguard.ProtocolGRPC), vanguard.WithTargetCodecs("proto"), vanguard.WithNoTargetCompression()))
	}
	services = append(services, vanguard.NewServiceWithSchema(svc, handler, so...))
	if cfg.Decoy {
		services = append(services, vanguard.NewServiceWithSchema(decoyService(), handler,
			vanguard.WithTargetProtocols(vanguard.ProtocolConnect, vanguard.ProtocolGRPC, vanguard.ProtocolGRPCWeb),
			vanguard.WithTargetCodecs("json", "proto", "alt"), vanguard.WithTargetCompression("gzip", "rev"), vanguard.WithMaxMessageBufferBytes(1<<30), vanguard.WithMaxGetURLBytes(1<<20)))
	}
	if cfg.MoreServices != nil {
		services = append(services, cfg.MoreServices(handler)...)
	}
	return vanguard.NewTranscoder(services, to...)
}

// ---------------------------------------------------------------------------------
// Reference backend

// Reply is what the backend answers and how it writes it.
type Reply struct {
	Out *wire.ServerOut
	// Cuts segment the body into Write calls (ascending offsets). FlushEach flushes
	// after every Write.
	Cuts      []int
	FlushEach bool
	// DeclaredTrailers announces HTTP trailers with a Trailer header instead of
	// http.TrailerPrefix keys.
	DeclaredTrailers bool
	// ContentLength: -1 none; >=0 literal declaration.
	ContentLength int64
	HasCL         bool
	// ReturnAfter >= 0: return from the handler after writing this many body bytes.
	ReturnAfter int
	Panic       any
	EmptyWrites bool // interleave zero-length writes
	// LowerCaseTrailerDecl announces declared trailers in lower case (values are still set
	// under the canonical key, which is where net/http looks them up).
	LowerCaseTrailerDecl bool
	// TrailerDeclList announces all declared trailers in ONE Trailer header value, as a
	// comma + space separated list ("A, B, C"), the way most servers and proxies do.
	TrailerDeclList bool
	// ExtraHTTPTrailer: additional real HTTP trailers (set with http.TrailerPrefix after the
	// body), as a middleware in front of the backend (Server-Timing, tracing) would add them -
	// also for protocols that carry their own trailers elsewhere.
	ExtraHTTPTrailer http.Header
	// FlushAfterHeader calls Flush right after WriteHeader, before any body byte (what a
	// streaming-minded handler or a reverse proxy with FlushInterval does).
	FlushAfterHeader bool
	// LowerCasePrefixTrailers writes the http.TrailerPrefix keys with the trailer's name in lower case
	// ("Trailer:grpc-status"): a map key with a colon is not canonicalised by Header.Set, and net/http
	// sends such a trailer like any other (HTTP/2 canonicalises the name, HTTP/1 field names are case-insensitive).
	LowerCasePrefixTrailers bool
	// EarlyTrailerKeys: these http.TrailerPrefix keys are set before WriteHeader, the others after the body.
	EarlyTrailerKeys []string
	// PrefixTrailersEarly sets the http.TrailerPrefix keys before WriteHeader instead of after the body.
	PrefixTrailersEarly bool
	// Informational != 0: the handler first calls WriteHeader with this 1xx status.
	Informational int
}

// Backend is a scripted http.Handler that records what it saw.
type Backend struct {
	Calls     int
	Seen      *drive.Seen
	Parsed    *wire.BackendReq
	ReadSizes []int
	SkipRead  bool
	// Respond decides the reply after the request has been read.
	Respond func(b *Backend, r *http.Request) *Reply
	// Raw, if set, replaces everything after the capture.
	Raw        func(b *Backend, w http.ResponseWriter, r *http.Request)
	WriteErrs  []string
	CtxAtEntry context.Context
	Direct     bool // handed the server's own ResponseWriter (pass-through)
}

func (b *Backend) ServeHTTP(w http.ResponseWriter, r *http.Request) {
	b.Calls++
	seen := drive.Capture(r)
	if b.Calls == 1 {
		b.Seen = seen
		b.CtxAtEntry = r.Context()
		_, b.Direct = w.(*drive.Recorder)
	}
	if b.Raw != nil {
		b.Raw(b, w, r)
		return
	}
	if !b.SkipRead {
		seen.ReadBody(r.Body, b.ReadSizes)
	}
	b.Parsed = wire.ParseBackendRequest(seen.Method, r.URL, seen.Header, seen.ContentLength, seen.Body)
	if b.Respond == nil {
		return
	}
	rep := b.Respond(b, r)
	if rep == nil {
		return
	}
	WriteReply(w, rep, &b.WriteErrs)
}

// WriteReply writes a scripted reply to w.
func WriteReply(w http.ResponseWriter, rep *Reply, errs *[]string) {
	if rep.Panic != nil && rep.ReturnAfter < 0 {
		panic(rep.Panic)
	}
	out := rep.Out
	h := w.Header()
	if rep.Informational != 0 {
		// an informational response first (103 Early Hints; what httputil.ReverseProxy does
		// with a remote backend's 1xx): not the response
		if rep.Informational == 103 {
			h.Set("Link", "</style.css>; rel=preload; as=style")
		}
		w.WriteHeader(rep.Informational)
		h.Del("Link")
	}
	for k, v := range out.Header {
		h[k] = append([]string(nil), v...)
	}
	if rep.HasCL {
		h.Set("Content-Length", itoa(rep.ContentLength))
	}
	if rep.DeclaredTrailers && len(out.Trailer) > 0 {
		var names []string
		for k := range out.Trailer {
			if rep.LowerCaseTrailerDecl {
				k = strings.ToLower(k)
			}
			names = append(names, k)
		}
		sort.Strings(names)
		if rep.TrailerDeclList {
			h.Add("Trailer", strings.Join(names, ", "))
		} else {
			for _, k := range names {
				h.Add("Trailer", k)
			}
		}
	}
	earlyKey := func(k string) bool {
		for _, e := range rep.EarlyTrailerKeys {
			if strings.EqualFold(e, k) {
				return true
			}
		}
		return false
	}
	if !rep.DeclaredTrailers && !rep.PrefixTrailersEarly {
		// (a middleware stamps its trailer before calling the handler that adds the others at the end)
		for k, v := range out.Trailer {
			if earlyKey(k) {
				h[http.TrailerPrefix+k] = append([]string(nil), v...)
			}
		}
	}
	if rep.PrefixTrailersEarly && !rep.DeclaredTrailers {
		// (net/http: keys with TrailerPrefix may be set before or after WriteHeader)
		for k, v := range out.Trailer {
			h[http.TrailerPrefix+k] = append([]string(nil), v...)
		}
	}
	w.WriteHeader(out.Status)
	if rep.FlushAfterHeader {
		if fl, ok := w.(http.Flusher); ok {
			fl.Flush()
		}
	}
	body := out.Body
	limit := len(body)
	early := false
	if rep.ReturnAfter >= 0 && rep.ReturnAfter < limit {
		limit = rep.ReturnAfter
		early = true
	} else if rep.ReturnAfter >= 0 && rep.ReturnAfter == limit && rep.Panic != nil {
		early = true
	}
	off := 0
	fl, _ := w.(http.Flusher)
	write := func(p []byte) {
		if rep.EmptyWrites {
			if _, err := w.Write(nil); err != nil && errs != nil {
				*errs = append(*errs, err.Error())
			}
		}
		if _, err := w.Write(p); err != nil && errs != nil {
			*errs = append(*errs, err.Error())
		}
		if rep.FlushEach && fl != nil {
			fl.Flush()
		}
	}
	for _, c := range rep.Cuts {
		if c <= off || c >= limit {
			continue
		}
		write(body[off:c])
		off = c
	}
	if off < limit {
		write(body[off:limit])
	}
	if early {
		if rep.Panic != nil {
			panic(rep.Panic)
		}
		return
	}
	for k, v := range rep.ExtraHTTPTrailer {
		h[http.TrailerPrefix+k] = append([]string(nil), v...)
	}
	for k, v := range out.Trailer {
		if rep.DeclaredTrailers {
			h[k] = append([]string(nil), v...)
		} else if !rep.PrefixTrailersEarly && !earlyKey(k) {
			if rep.LowerCasePrefixTrailers {
				k = strings.ToLower(k)
			}
			h[http.TrailerPrefix+k] = append([]string(nil), v...)
		}
	}
}

func itoa(n int64) string {
	var b [24]byte
	i := len(b)
	neg := n < 0
	if neg {
		n = -n
	}
	for {
		i--
		b[i] = byte('0' + n%10)
		n /= 10
		if n == 0 {
			break
		}
	}
	if neg {
		i--
		b[i] = '-'
	}
	return string(b[i:])
}

// ServerFormFor returns the form in which a reference server answers a request.
func ServerFormFor(f wire.Form) wire.Form {
	if f == wire.ConnectGet {
		return wire.ConnectUnary
	}
	return f
}

// EchoReply answers in the protocol of the request with the given messages.
func EchoReply(req *wire.BackendReq, msgs [][]byte, respCompression string, end *wire.End) *Reply {
	sr := &wire.ServerResp{Form: ServerFormFor(req.Form), Codec: req.Codec, Compression: respCompression, Msgs: msgs, End: end}
	if end != nil && len(msgs) == 0 && (sr.Form == wire.GRPC || sr.Form == wire.GRPCWeb) {
		sr.TrailersOnly = true
	}
	return &Reply{Out: sr.Encode(), ContentLength: -1, ReturnAfter: -1}
}

// PickAccepted returns the first compression of want that the request advertises.
func PickAccepted(req *wire.BackendReq, want string) string {
	for _, a := range req.Accept {
		if a == want {
			return want
		}
	}
	return ""
}

// ---------------------------------------------------------------------------------
// One exchange

// Exchange is the result of pushing one request through the transcoder.
type Exchange struct {
	Rec   *drive.Recorder
	Body  *drive.Body
	Panic *drive.PanicInfo
	Req   *http.Request
}

// Do builds the request and calls ServeHTTP on h with a strict recorder.
func Do(h http.Handler, spec *drive.ReqSpec) (*Exchange, error) {
	ctx := context.Background()
	if spec.Ctx != nil {
		ctx = spec.Ctx
	}
	req, err := spec.Build(ctx)
	if err != nil {
		return nil, err
	}
	rec := drive.NewRecorder()
	ex := &Exchange{Rec: rec, Body: spec.Body, Req: req}
	ex.Panic = drive.Serve(h, rec, rec, req, spec.Body)
	return ex, nil
}

// SpecFromClient encodes a wire.ClientReq into a request spec.
func SpecFromClient(c *wire.ClientReq) *drive.ReqSpec {
	method, target, h, body := c.Encode()
	spec := &drive.ReqSpec{Method: method, Target: target, Header: h, ContentLength: -1, ProtoMajor: 1}
	if c.Form.Enveloped() {
		spec.ProtoMajor = 2
	}
	if method == http.MethodGet {
		spec.NoBody = true
	} else {
		spec.Body = drive.NewBody(body)
	}
	return spec
}

// IsVanguardPanic reports whether a panic's stack originates in vanguard code
// (rather than in the scripted backend or the strict recorder's own checks).
func IsVanguardPanic(p *drive.PanicInfo) bool {
	if p == nil {
		return false
	}
	// first non-runtime frame after the panic call
	lines := strings.Split(p.Stack, "\n")
	for i, l := range lines {
		if strings.HasPrefix(l, "panic(") {
			for j := i + 2; j < len(lines); j += 2 {
				fn := lines[j]
				if strings.HasPrefix(fn, "runtime.") || strings.HasPrefix(fn, "panic(") {
					continue
				}
				return strings.HasPrefix(fn, "connectrpc.com/vanguard.") || strings.HasPrefix(fn, "connectrpc.com/vanguard/vanguardgrpc.") ||
					!strings.Contains(fn, "verifharness")
			}
		}
	}
	return true
}

// SeenHeader returns the headers of the first request the backend saw.
func (b *Backend) SeenHeader() http.Header {
	if b.Seen == nil {
		return nil
	}
	return b.Seen.Header
}

var (
	decoyOnce sync.Once
	decoySvc  protoreflect.ServiceDescriptor
)

var (
	decoy0Once sync.Once
	decoy0Svc  protoreflect.ServiceDescriptor
)

func decoy0Service() protoreflect.ServiceDescriptor {
	decoy0Once.Do(func() {
		var err error
		decoy0Svc, err = BuildService("verif/decoy0/svc.proto", "verif.decoy0", "Decoy0", []MethodSpec{{Name: "Noop"}})
		if err != nil {
			panic(err)
		}
	})
	return decoy0Svc
}

func decoyService() protoreflect.ServiceDescriptor {
	decoyOnce.Do(func() {
		var err error
		decoySvc, err = BuildService("verif/decoy/svc.proto", "verif.decoy", "Decoy", []MethodSpec{{Name: "Noop"}})
		if err != nil {
			panic(err)
		}
	})
	return decoySvc
}
