// Package world builds the closed world for one execution: schemas, a real
// vanguard.Transcoder with a chosen configuration, the harness's extra codec and
// compression, and reference-server backends.
package world

import (
	"connectrpc.com/vanguard/verifharness/wire"
	"fmt"
	"google.golang.org/protobuf/types/dynamicpb"
	"sync"

	"google.golang.org/genproto/googleapis/api/annotations"
	_ "google.golang.org/genproto/googleapis/api/httpbody"
	"google.golang.org/protobuf/proto"
	"google.golang.org/protobuf/reflect/protodesc"
	"google.golang.org/protobuf/reflect/protoreflect"
	"google.golang.org/protobuf/reflect/protoregistry"
	"google.golang.org/protobuf/types/descriptorpb"
	_ "google.golang.org/protobuf/types/known/anypb"
	_ "google.golang.org/protobuf/types/known/structpb"

	_ "connectrpc.com/vanguard/internal/gen/vanguard/test/v1"
)

// Rule is a google.api.http rule in compact form.
type Rule struct {
	Method   string // GET, POST, PUT, PATCH, DELETE or a custom kind
	Path     string
	Body     string
	RespBody string
	Extra    []Rule
}

func (r Rule) toProto() *annotations.HttpRule {
	hr := &annotations.HttpRule{Body: r.Body, ResponseBody: r.RespBody}
	switch r.Method {
	case "GET":
		hr.Pattern = &annotations.HttpRule_Get{Get: r.Path}
	case "POST":
		hr.Pattern = &annotations.HttpRule_Post{Post: r.Path}
	case "PUT":
		hr.Pattern = &annotations.HttpRule_Put{Put: r.Path}
	case "PATCH":
		hr.Pattern = &annotations.HttpRule_Patch{Patch: r.Path}
	case "DELETE":
		hr.Pattern = &annotations.HttpRule_Delete{Delete: r.Path}
	default:
		hr.Pattern = &annotations.HttpRule_Custom{Custom: &annotations.CustomHttpPattern{Kind: r.Method, Path: r.Path}}
	}
	for _, e := range r.Extra {
		hr.AdditionalBindings = append(hr.AdditionalBindings, e.toProto())
	}
	return hr
}

// ToProto converts to the annotation message (with selector).
func (r Rule) ToProto(selector string) *annotations.HttpRule {
	hr := r.toProto()
	hr.Selector = selector
	return hr
}

// MethodSpec describes one method of a dynamically built service.
type MethodSpec struct {
	Name         string
	In, Out      string // full message names ("" = verif.v1.Msg)
	ClientStream bool
	ServerStream bool
	Idempotency  descriptorpb.MethodOptions_IdempotencyLevel
	Rule         *Rule
}

const MsgName = "verif.v1.Msg"

func msgFile() *descriptorpb.FileDescriptorProto {
	str := func(s string) *string { return &s }
	i32 := func(i int32) *int32 { return &i }
	lbl := func(rep bool) *descriptorpb.FieldDescriptorProto_Label {
		l := descriptorpb.FieldDescriptorProto_LABEL_OPTIONAL
		if rep {
			l = descriptorpb.FieldDescriptorProto_LABEL_REPEATED
		}
		return &l
	}
	typ := func(t descriptorpb.FieldDescriptorProto_Type) *descriptorpb.FieldDescriptorProto_Type { return &t }
	f := func(name string, num int32, t descriptorpb.FieldDescriptorProto_Type, typeName string, rep bool) *descriptorpb.FieldDescriptorProto {
		fd := &descriptorpb.FieldDescriptorProto{Name: str(name), Number: i32(num), Type: typ(t), Label: lbl(rep), JsonName: str(jsonName(name))}
		if typeName != "" {
			fd.TypeName = str(typeName)
		}
		return fd
	}
	const (
		S = descriptorpb.FieldDescriptorProto_TYPE_STRING
		M = descriptorpb.FieldDescriptorProto_TYPE_MESSAGE
	)
	return &descriptorpb.FileDescriptorProto{
		Name:    str("verif/v1/msg.proto"),
		Package: str("verif.v1"),
		Syntax:  str("proto3"),
		Dependency: []string{
			"vanguard/test/v1/test.proto", "google/api/httpbody.proto", "google/protobuf/any.proto",
			"google/protobuf/struct.proto",
		},
		MessageType: []*descriptorpb.DescriptorProto{{
			Name: str("Msg"),
			Field: []*descriptorpb.FieldDescriptorProto{
				f("name", 1, S, "", false),
				f("num", 2, descriptorpb.FieldDescriptorProto_TYPE_INT32, "", false),
				f("all", 3, M, ".vanguard.test.v1.AllTypes", false),
				f("pv", 4, M, ".vanguard.test.v1.ParameterValues", false),
				f("tags", 5, S, "", true),
				f("child", 6, M, ".verif.v1.Msg", false),
				f("raw", 7, descriptorpb.FieldDescriptorProto_TYPE_BYTES, "", false),
				f("body", 8, M, ".google.api.HttpBody", false),
				f("extra_text", 9, S, "", false),
				f("seq", 10, descriptorpb.FieldDescriptorProto_TYPE_INT64, "", false),
				f("nums", 11, descriptorpb.FieldDescriptorProto_TYPE_INT32, "", true),
				f("st", 13, M, ".google.protobuf.Struct", false),
				f("kids", 14, M, ".verif.v1.Msg", true),
				f("any_value", 15, M, ".google.protobuf.Any", false),
				f("labels", 16, M, ".verif.v1.Msg.LabelsEntry", true),  // map<string, string>
				f("kid_map", 17, M, ".verif.v1.Msg.KidMapEntry", true), // map<string, Msg>
			},
			NestedType: []*descriptorpb.DescriptorProto{
				{Name: str("LabelsEntry"), Field: []*descriptorpb.FieldDescriptorProto{f("key", 1, S, "", false), f("value", 2, S, "", false)}, Options: &descriptorpb.MessageOptions{MapEntry: proto.Bool(true)}},
				{Name: str("KidMapEntry"), Field: []*descriptorpb.FieldDescriptorProto{f("key", 1, S, "", false), f("value", 2, M, ".verif.v1.Msg", false)}, Options: &descriptorpb.MessageOptions{MapEntry: proto.Bool(true)}},
			},
		}},
	}
}

func jsonName(s string) string {
	out := make([]byte, 0, len(s))
	up := false
	for i := 0; i < len(s); i++ {
		c := s[i]
		if c == '_' {
			up = true
			continue
		}
		if up && c >= 'a' && c <= 'z' {
			c -= 'a' - 'A'
		}
		up = false
		out = append(out, c)
	}
	return string(out)
}

var (
	msgOnce sync.Once
	msgFD   protoreflect.FileDescriptor
	files   *protoregistry.Files
)

// MsgFile returns the (shared, immutable) file that defines verif.v1.Msg.
func MsgFile() protoreflect.FileDescriptor {
	msgOnce.Do(func() {
		fd, err := protodesc.NewFile(msgFile(), protoregistry.GlobalFiles)
		if err != nil {
			panic(fmt.Sprintf("world: building msg.proto: %v", err))
		}
		msgFD = fd
		// the harness's own codecs must be able to look into an Any that carries verif.v1.Msg
		var fs protoregistry.Files
		if err := fs.RegisterFile(fd); err != nil {
			panic(fmt.Sprintf("world: registering msg.proto: %v", err))
		}
		wire.ExtraTypes = dynamicpb.NewTypes(&fs)
	})
	return msgFD
}

// MsgDesc returns the descriptor of verif.v1.Msg.
func MsgDesc() protoreflect.MessageDescriptor { return MsgFile().Messages().ByName("Msg") }

type filesResolver struct{ extra []protoreflect.FileDescriptor }

func (r filesResolver) FindFileByPath(p string) (protoreflect.FileDescriptor, error) {
	for _, f := range r.extra {
		if f.Path() == p {
			return f, nil
		}
	}
	return protoregistry.GlobalFiles.FindFileByPath(p)
}

func (r filesResolver) FindDescriptorByName(n protoreflect.FullName) (protoreflect.Descriptor, error) {
	for _, f := range r.extra {
		if d := findIn(f, n); d != nil {
			return d, nil
		}
	}
	return protoregistry.GlobalFiles.FindDescriptorByName(n)
}

func findIn(f protoreflect.FileDescriptor, n protoreflect.FullName) protoreflect.Descriptor {
	if m := f.Messages().ByName(n.Name()); m != nil && m.FullName() == n {
		return m
	}
	if s := f.Services().ByName(n.Name()); s != nil && s.FullName() == n {
		return s
	}
	return nil
}

// BuildService builds a service descriptor `pkg.Name` (file name unique per call site)
// whose methods use verif.v1.Msg unless stated otherwise.
func BuildService(fileName, pkg, name string, methods []MethodSpec) (protoreflect.ServiceDescriptor, error) {
	str := func(s string) *string { return &s }
	b := func(v bool) *bool { return &v }
	svc := &descriptorpb.ServiceDescriptorProto{Name: str(name)}
	for _, m := range methods {
		in, out := m.In, m.Out
		if in == "" {
			in = MsgName
		}
		if out == "" {
			out = MsgName
		}
		md := &descriptorpb.MethodDescriptorProto{
			Name: str(m.Name), InputType: str("." + in), OutputType: str("." + out),
			ClientStreaming: b(m.ClientStream), ServerStreaming: b(m.ServerStream),
		}
		opts := &descriptorpb.MethodOptions{}
		has := false
		if m.Idempotency != descriptorpb.MethodOptions_IDEMPOTENCY_UNKNOWN {
			lvl := m.Idempotency
			opts.IdempotencyLevel = &lvl
			has = true
		}
		if m.Rule != nil {
			proto.SetExtension(opts, annotations.E_Http, m.Rule.toProto())
			has = true
		}
		if has {
			md.Options = opts
		}
		svc.Method = append(svc.Method, md)
	}
	fdp := &descriptorpb.FileDescriptorProto{
		Name: str(fileName), Package: str(pkg), Syntax: str("proto3"),
		Dependency: []string{"verif/v1/msg.proto", "google/api/annotations.proto", "google/api/httpbody.proto",
			"google/protobuf/empty.proto", "vanguard/test/v1/test.proto"},
		Service: []*descriptorpb.ServiceDescriptorProto{svc},
	}
	fd, err := protodesc.NewFile(fdp, filesResolver{extra: []protoreflect.FileDescriptor{MsgFile()}})
	if err != nil {
		return nil, err
	}
	return fd.Services().Get(0), nil
}

// BuildDeepService builds a service verif.deep.DeepSvc (method Unary over verif.v1.Msg) whose file
// imports verif/deep/mid.proto, which in turn imports (plainly, not publicly) verif/deep/leaf.proto
// with the message verif.deep.Leaf: a type the service's file cannot name, but that belongs to its
// schema (import closure) and can travel inside a google.protobuf.Any. It also returns a resolver
// over all the files.
func BuildDeepService() (protoreflect.ServiceDescriptor, *dynamicpb.Types, error) {
	str := func(s string) *string { return &s }
	lbl := descriptorpb.FieldDescriptorProto_LABEL_OPTIONAL
	tStr, tMsg := descriptorpb.FieldDescriptorProto_TYPE_STRING, descriptorpb.FieldDescriptorProto_TYPE_MESSAGE
	one := int32(1)
	leafP := &descriptorpb.FileDescriptorProto{Name: str("verif/deep/leaf.proto"), Package: str("verif.deep"), Syntax: str("proto3"),
		MessageType: []*descriptorpb.DescriptorProto{{Name: str("Leaf"), Field: []*descriptorpb.FieldDescriptorProto{{Name: str("name"), Number: &one, Label: &lbl, Type: &tStr, JsonName: str("name")}}}}}
	leaf, err := protodesc.NewFile(leafP, filesResolver{})
	if err != nil {
		return nil, nil, err
	}
	midP := &descriptorpb.FileDescriptorProto{Name: str("verif/deep/mid.proto"), Package: str("verif.deep"), Syntax: str("proto3"), Dependency: []string{"verif/deep/leaf.proto"},
		MessageType: []*descriptorpb.DescriptorProto{{Name: str("Mid"), Field: []*descriptorpb.FieldDescriptorProto{{Name: str("leaf"), Number: &one, Label: &lbl, Type: &tMsg, TypeName: str(".verif.deep.Leaf"), JsonName: str("leaf")}}}}}
	mid, err := protodesc.NewFile(midP, filesResolver{extra: []protoreflect.FileDescriptor{leaf}})
	if err != nil {
		return nil, nil, err
	}
	svcP := &descriptorpb.FileDescriptorProto{Name: str("verif/deep/svc.proto"), Package: str("verif.deep"), Syntax: str("proto3"),
		Dependency: []string{"verif/v1/msg.proto", "verif/deep/mid.proto"},
		Service: []*descriptorpb.ServiceDescriptorProto{{Name: str("DeepSvc"), Method: []*descriptorpb.MethodDescriptorProto{{Name: str("Unary"), InputType: str("." + MsgName), OutputType: str("." + MsgName)}}}}}
	svc, err := protodesc.NewFile(svcP, filesResolver{extra: []protoreflect.FileDescriptor{MsgFile(), mid, leaf}})
	if err != nil {
		return nil, nil, err
	}
	var files protoregistry.Files
	var add func(f protoreflect.FileDescriptor)
	add = func(f protoreflect.FileDescriptor) {
		if _, err := files.FindFileByPath(f.Path()); err == nil {
			return
		}
		_ = files.RegisterFile(f)
		for i := 0; i < f.Imports().Len(); i++ {
			add(f.Imports().Get(i).FileDescriptor)
		}
	}
	add(svc)
	return svc.Services().Get(0), dynamicpb.NewTypes(&files), nil
}

// Standard service used by most checks.
const (
	SvcPkg  = "verif.v1"
	SvcName = "Svc"
	SvcPath = "/verif.v1.Svc/"
)

// StdMethods is the method table of verif.v1.Svc.
func StdMethods() []MethodSpec {
	return []MethodSpec{
		{Name: "Unary", Rule: &Rule{Method: "POST", Path: "/v1/unary", Body: "*"}},
		{Name: "Pure", Idempotency: descriptorpb.MethodOptions_NO_SIDE_EFFECTS, Rule: &Rule{Method: "GET", Path: "/v1/pure/{name}"}},
		{Name: "Idem", Idempotency: descriptorpb.MethodOptions_IDEMPOTENT, Rule: &Rule{Method: "PUT", Path: "/v1/idem/{name}", Body: "child"}},
		{Name: "Multi", Rule: &Rule{Method: "GET", Path: "/v1/multi/{name=**}", Extra: []Rule{{Method: "GET", Path: "/v1/m2/{name=a/*}/x/{extra_text}"}}}},
		{Name: "Nested", Rule: &Rule{Method: "POST", Path: "/v1/nested/{child.name}:act", Body: "tags", RespBody: "child"}},
		{Name: "Scalar", Rule: &Rule{Method: "PATCH", Path: "/v1/scalar/{child.child.name=x/*}", Body: "num", RespBody: "tags"}},
		{Name: "Blob", Rule: &Rule{Method: "POST", Path: "/v1/blob/{name}", Body: "body", RespBody: "body", Extra: []Rule{{Method: "GET", Path: "/v1/blobmeta/{name}"}}}}, // (two bindings whose response_body differ)
		{Name: "RawIO", In: "google.api.HttpBody", Out: "google.api.HttpBody", Rule: &Rule{Method: "POST", Path: "/v1/raw", Body: "*"}},
		{Name: "NoRule"},
		{Name: "CStream", ClientStream: true},
		{Name: "SStream", ServerStream: true},
		{Name: "Bidi", ClientStream: true, ServerStream: true},
		{Name: "Upload", ClientStream: true, Rule: &Rule{Method: "POST", Path: "/v1/up/{name}", Body: "body"}},
		{Name: "Download", ServerStream: true, Rule: &Rule{Method: "GET", Path: "/v1/down/{name}", RespBody: "body"}},
		{Name: "Labels", Rule: &Rule{Method: "PUT", Path: "/v1/labels/{name}", Body: "labels", RespBody: "labels"}},
		{Name: "KidMap", Rule: &Rule{Method: "PUT", Path: "/v1/kidmap/{name}", Body: "kid_map"}},
		{Name: "Kids", Rule: &Rule{Method: "PUT", Path: "/v1/kids/{name}", Body: "kids", RespBody: "kids"}},
	}
}

var (
	stdOnce sync.Once
	stdSvc  protoreflect.ServiceDescriptor
)

// StdService returns the shared descriptor of verif.v1.Svc.
func StdService() protoreflect.ServiceDescriptor {
	stdOnce.Do(func() {
		s, err := BuildService("verif/v1/svc.proto", SvcPkg, SvcName, StdMethods())
		if err != nil {
			panic(fmt.Sprintf("world: building svc.proto: %v", err))
		}
		stdSvc = s
	})
	return stdSvc
}
