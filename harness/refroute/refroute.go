// Package refroute is an independent reference for google.api.http path templates: a
// parser for the template grammar of http.proto and a matcher that works on the raw
// (still percent-encoded) request path. It imports nothing from vanguard.
package refroute

import (
	"fmt"
	"strings"
)

type segKind int

const (
	lit segKind = iota
	star
	dstar
)

type seg struct {
	kind segKind
	lit  string
}

// Var is one variable of a template: field path and the segment range it spans.
type Var struct {
	Path       string
	Start, End int // End == -1: open ended (contains **)
}

// Template is a parsed path template.
type Template struct {
	Raw  string
	segs []seg
	Verb string
	Vars []Var
}

// AllLiteral reports whether the template has no wildcard (and no variable).
func (t *Template) AllLiteral() bool {
	for _, s := range t.segs {
		if s.kind != lit {
			return false
		}
	}
	return true
}

// Canon is a canonical rendering (two templates are "the same" iff Canon is equal).
func (t *Template) Canon() string {
	var sb strings.Builder
	for _, s := range t.segs {
		sb.WriteByte('/')
		switch s.kind {
		case lit:
			sb.WriteString(s.lit)
		case star:
			sb.WriteByte('*')
		case dstar:
			sb.WriteString("**")
		}
	}
	if t.Verb != "" {
		sb.WriteString(":" + t.Verb)
	}
	return sb.String()
}

// Parse parses a template such as /v1/{name=shelves/*}/books:search.
func Parse(s string) (*Template, error) {
	t := &Template{Raw: s}
	if !strings.HasPrefix(s, "/") {
		return nil, fmt.Errorf("template must start with '/'")
	}
	rest := s[1:]
	// verb: a ':' outside braces in the last segment
	depth := 0
	verbAt := -1
	for i := 0; i < len(rest); i++ {
		switch rest[i] {
		case '{':
			depth++
		case '}':
			depth--
		case '/':
			if depth == 0 {
				verbAt = -1
			}
		case ':':
			if depth == 0 {
				verbAt = i
			}
		}
	}
	if verbAt >= 0 {
		t.Verb = rest[verbAt+1:]
		rest = rest[:verbAt]
		if t.Verb == "" {
			return nil, fmt.Errorf("empty verb")
		}
	}
	seen := map[string]bool{}
	var parseSegs func(str string, inVar bool) error
	parseSegs = func(str string, inVar bool) error {
		// split on '/' outside braces
		var parts []string
		d, last := 0, 0
		for i := 0; i < len(str); i++ {
			switch str[i] {
			case '{':
				d++
			case '}':
				d--
			case '/':
				if d == 0 {
					parts = append(parts, str[last:i])
					last = i + 1
				}
			}
		}
		parts = append(parts, str[last:])
		for _, p := range parts {
			if len(t.segs) > 0 && t.segs[len(t.segs)-1].kind == dstar {
				return fmt.Errorf("'**' must be the last segment")
			}
			switch {
			case p == "*":
				t.segs = append(t.segs, seg{kind: star})
			case p == "**":
				t.segs = append(t.segs, seg{kind: dstar})
			case strings.HasPrefix(p, "{"):
				if inVar || !strings.HasSuffix(p, "}") {
					return fmt.Errorf("bad variable %q", p)
				}
				body := p[1 : len(p)-1]
				name, sub, has := strings.Cut(body, "=")
				if name == "" || seen[name] {
					return fmt.Errorf("bad or duplicate variable %q", name)
				}
				seen[name] = true
				v := Var{Path: name, Start: len(t.segs)}
				if !has {
					t.segs = append(t.segs, seg{kind: star})
				} else if err := parseSegs(sub, true); err != nil {
					return err
				}
				v.End = len(t.segs)
				if t.segs[len(t.segs)-1].kind == dstar {
					v.End = -1
				}
				t.Vars = append(t.Vars, v)
			case p == "":
				return fmt.Errorf("empty segment")
			default:
				if strings.ContainsAny(p, "{}*") {
					return fmt.Errorf("bad literal %q", p)
				}
				t.segs = append(t.segs, seg{kind: lit, lit: p})
			}
		}
		return nil
	}
	if err := parseSegs(rest, false); err != nil {
		return nil, err
	}
	return t, nil
}

func unhex(c byte) (byte, bool) {
	switch {
	case '0' <= c && c <= '9':
		return c - '0', true
	case 'a' <= c && c <= 'f':
		return c - 'a' + 10, true
	case 'A' <= c && c <= 'F':
		return c - 'A' + 10, true
	}
	return 0, false
}

// decode percent-decodes once; keepSlash leaves %2F / %2f untouched.
func decode(s string, keepSlash bool) (string, bool) {
	var out []byte
	for i := 0; i < len(s); i++ {
		if s[i] != '%' {
			out = append(out, s[i])
			continue
		}
		if i+2 >= len(s) {
			return "", false
		}
		h, ok1 := unhex(s[i+1])
		l, ok2 := unhex(s[i+2])
		if !ok1 || !ok2 {
			return "", false
		}
		b := h<<4 | l
		if b == '/' && keepSlash {
			out = append(out, '%', '2', 'F')
		} else {
			out = append(out, b)
		}
		i += 2
	}
	return string(out), true
}

// Match matches a raw request path. ambiguous is set when the match depends on a point
// the grammar leaves open (an empty segment matched by a wildcard).
func (t *Template) Match(rawPath string) (caps map[string]string, ok bool, ambiguous bool) {
	caps, ok, ambiguous, _ = t.Match2(rawPath)
	return
}

// Match2 is Match, additionally reporting whether a "**" matched zero segments.
func (t *Template) Match2(rawPath string) (caps map[string]string, ok bool, ambiguous bool, zeroDstar bool) {
	if !strings.HasPrefix(rawPath, "/") {
		return nil, false, false, false
	}
	parts := strings.Split(rawPath[1:], "/")
	verb := ""
	last := parts[len(parts)-1]
	if i := strings.IndexByte(last, ':'); i >= 0 {
		parts[len(parts)-1], verb = last[:i], last[i+1:]
	}
	if verb != t.Verb {
		return nil, false, false, false
	}
	n := len(t.segs)
	open := n > 0 && t.segs[n-1].kind == dstar
	if open {
		if len(parts) < n-1 {
			return nil, false, false, false
		}
		zeroDstar = len(parts) == n-1
	} else if len(parts) != n {
		return nil, false, false, false
	}
	for i, s := range t.segs {
		switch s.kind {
		case lit:
			if i >= len(parts) || parts[i] != s.lit {
				return nil, false, false, false
			}
		case star:
			if parts[i] == "" {
				ambiguous = true
			}
		case dstar:
			for _, p := range parts[i:] {
				if p == "" {
					ambiguous = true
				}
			}
		}
	}
	caps = map[string]string{}
	for _, v := range t.Vars {
		end := v.End
		if end == -1 {
			end = len(parts)
		}
		var segs []string
		if v.Start < len(parts) {
			segs = parts[v.Start:min(end, len(parts))]
		}
		multi := v.End == -1 || v.End-v.Start > 1
		var vals []string
		for _, sgm := range segs {
			d, ok := decode(sgm, multi)
			if !ok {
				return nil, false, false, false // a bad escape cannot be captured
			}
			vals = append(vals, d)
		}
		caps[v.Path] = strings.Join(vals, "/")
	}
	return caps, true, ambiguous, zeroDstar
}
