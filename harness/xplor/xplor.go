// Package xplor is a deviation-bounded exhaustive explorer for sequential scenarios.
//
// A scenario is a function that calls Ctx.Choose / Ctx.Free wherever the environment
// or the input has freedom. The explorer runs it with a forced prefix of choices and
// alternative 0 (the default) afterwards, records every choice point reached, and
// recurses on every alternative at every point after the prefix whose cumulative cost
// (1 per non-default Choose, 0 per Free) stays within the deviation bound. Within the
// bound the enumeration is complete. Work is spread over worker goroutines; every
// execution is independent (scenarios must not share mutable state).
package xplor

import (
	"fmt"
	"os"
	"runtime/debug"
	"sort"
	"strings"
	"sync"
	"sync/atomic"
	"time"
)

type point struct {
	label  string
	n      int
	chosen int
	cost   int
}

// Violation is one failed oracle clause of one execution.
type Violation struct {
	Clause  string            `json:"clause"`
	Detail  string            `json:"detail"`
	Attrs   map[string]string `json:"attrs"`
	Choices []int             `json:"choices"`
	Labels  []string          `json:"labels"`
}

// Ctx is handed to the scenario for one execution.
type Ctx struct {
	prefix   []int
	points   []point
	diverged string

	Attrs      map[string]string
	violations []Violation
	nontrivial []string // keys of non-trivial cases hit by this execution
	outcome    string
	skip       bool
	notes      map[string]int
	Replay     bool // true when re-executing a recorded scenario
	extraEvals int
}

// AddEvaluations accounts for n further evaluations performed inside this one execution
// (scenarios that loop over a finite input set internally).
func (c *Ctx) AddEvaluations(n int) { c.extraEvals += n }

func (c *Ctx) choose(label string, n, cost int) int {
	if n <= 1 {
		return 0
	}
	i := len(c.points)
	ch := 0
	if i < len(c.prefix) {
		ch = c.prefix[i]
		if ch < 0 || ch >= n {
			c.diverged = fmt.Sprintf("choice %d at point %d (%s) out of range %d", ch, i, label, n)
			ch = 0
		}
	}
	c.points = append(c.points, point{label, n, ch, cost})
	return ch
}

// Choose is a choice whose non-default alternatives cost one deviation each.
func (c *Ctx) Choose(label string, n int) int { return c.choose(label, n, 1) }

// Free is a choice that is fully crossed (cost 0).
func (c *Ctx) Free(label string, n int) int { return c.choose(label, n, 0) }

// Attr records a descriptive attribute of the scenario (used in replays/findings).
func (c *Ctx) Attr(k, v string) {
	if c.Attrs == nil {
		c.Attrs = map[string]string{}
	}
	c.Attrs[k] = v
}

// Fail records a violation of an oracle clause.
func (c *Ctx) Fail(clause, format string, args ...any) {
	c.violations = append(c.violations, Violation{Clause: clause, Detail: fmt.Sprintf(format, args...)})
}

// Failed reports whether this execution has recorded a violation.
func (c *Ctx) Failed() bool { return len(c.violations) > 0 }

// Nontrivial marks the execution as covering the given distinct non-trivial case.
func (c *Ctx) Nontrivial(key string) { c.nontrivial = append(c.nontrivial, key) }

// Outcome records the outcome class of the execution (for distinct-outcome counts).
func (c *Ctx) Outcome(o string) { c.outcome = o }

// Skip marks the execution as an invalid combination (pruned by construction).
func (c *Ctx) Skip() { c.skip = true }

// Note increments a named counter (coverage statistics / vacuity guards).
func (c *Ctx) Note(k string) {
	if c.notes == nil {
		c.notes = map[string]int{}
	}
	c.notes[k]++
}

func (c *Ctx) choices() []int {
	out := make([]int, len(c.points))
	for i, p := range c.points {
		out[i] = p.chosen
	}
	return out
}

// ChoiceLabels returns "label=chosen" for every choice point reached so far.
func (c *Ctx) ChoiceLabels() []string {
	out := make([]string, len(c.points))
	for i, p := range c.points {
		out[i] = fmt.Sprintf("%s=%d", p.label, p.chosen)
	}
	return out
}

func (c *Ctx) labels() []string {
	out := make([]string, len(c.points))
	for i, p := range c.points {
		out[i] = fmt.Sprintf("%s=%d/%d", p.label, p.chosen, p.n)
	}
	return out
}

// Result aggregates an exploration.
type Result struct {
	Executions  int64
	Skipped     int64
	Bound       int
	Exhaustive  bool
	Violations  []Violation
	NViolations int64
	Nontrivial  map[uint64]struct{} // FNV-64 hashes of the keys of distinct non-trivial cases
	Outcomes    map[string]int64
	Notes       map[string]int64
	Samples     []map[string]any
	Panics      int64
	Wall        time.Duration
	perKey      map[string]int
}

func sortedClassAttrs(m map[string]string) []string {
	var out []string
	for k, v := range m {
		if !strings.HasPrefix(k, "~") {
			out = append(out, k+":"+v)
		}
	}
	sort.Strings(out)
	return out
}

// Explorer configures an exploration.
type Explorer struct {
	Bound    int
	Workers  int
	Scenario func(*Ctx)
	// Deadline ends the exploration early (Exhaustive=false); zero = none.
	Deadline time.Time
	// MaxViolations stops collecting details after this many (default 200).
	MaxViolations int
	MaxSamples    int
}

type task struct{ prefix []int }

// Watchdog bounds one execution; an execution that exceeds it is reported under the
// clause "hang" (and its goroutine abandoned). Generous: executions take microseconds.
// HangGrace is the second stage of the watchdog (see RunOne).
var HangGrace = 12 * time.Minute

var Watchdog = 240 * time.Second // generous: a loaded machine must not turn a slow execution into a "hang"; real hangs never end

// RunOne executes the scenario once with the given full choice vector.
func RunOne(scn func(*Ctx), choices []int, replay bool) *Ctx {
	c := &Ctx{prefix: choices, Replay: replay}
	done := make(chan struct{})
	go func() {
		defer close(done)
		defer func() {
			if p := recover(); p != nil {
				c.Fail("harness.panic", "panic in scenario: %v\n%s", p, debug.Stack())
			}
		}()
		scn(c)
	}()
	select {
	case <-done:
	case <-time.After(Watchdog):
		// A machine loaded by other work can make one heavy execution (C10's 100 MB messages) take
		// minutes; a real hang never ends. So the first expiry is only a notice: the verdict "hang"
		// needs the execution to stay unfinished for HangGrace more, during which this worker is idle.
		fmt.Fprintf(os.Stderr, "xplor: execution slow (> %s), waiting %s more before calling it a hang: choices %v\n", Watchdog, HangGrace, choices)
		select {
		case <-done:
			goto finished
		case <-time.After(HangGrace):
		}
		// do not touch c any more (the abandoned goroutine still owns it)
		h := &Ctx{prefix: choices, Attrs: map[string]string{"hang": "true"}}
		h.points = nil
		h.Fail("hang", "execution did not finish within %s (choices %v)", Watchdog+HangGrace, choices)
		h.violations[0].Choices = choices
		h.violations[0].Attrs = h.Attrs
		fmt.Fprintf(os.Stderr, "xplor: execution exceeded the %s watchdog: choices %v\n", Watchdog, choices)
		return h
	}
finished:
	for i := range c.violations {
		c.violations[i].Attrs = c.Attrs
		c.violations[i].Choices = c.choices()
		c.violations[i].Labels = c.labels()
	}
	return c
}

// Violations returns the violations recorded by this execution.
func (c *Ctx) Violations() []Violation { return c.violations }

// Explore runs the bounded exhaustive enumeration.
func (e *Explorer) Explore() *Result {
	start := time.Now()
	if e.Workers <= 0 {
		e.Workers = 8
	}
	if e.MaxViolations == 0 {
		e.MaxViolations = 200
	}
	if e.MaxSamples == 0 {
		e.MaxSamples = 6
	}
	res := &Result{Bound: e.Bound, Exhaustive: true, Nontrivial: map[uint64]struct{}{}, Outcomes: map[string]int64{}, Notes: map[string]int64{}}
	var mu sync.Mutex
	var shared []task
	var inflight int64
	cond := sync.NewCond(&mu)
	shared = append(shared, task{nil})
	inflight = 1
	var stopped atomic.Bool

	var runTask func(t task, local *Result)
	runTask = func(t task, local *Result) {
		if stopped.Load() {
			return
		}
		if !e.Deadline.IsZero() && time.Now().After(e.Deadline) {
			stopped.Store(true)
			return
		}
		c := RunOne(e.Scenario, t.prefix, false)
		if c.diverged != "" {
			c.Fail("harness.diverged", "%s", c.diverged)
		}
		if c.skip && len(c.violations) == 0 {
			local.Skipped++
		} else {
			local.Executions += int64(1 + c.extraEvals)
			for _, k := range c.nontrivial {
				local.Nontrivial[HashKey(k)] = struct{}{}
			}
			if c.outcome != "" {
				local.Outcomes[c.outcome]++
			}
			for k, v := range c.notes {
				local.Notes[k] += int64(v)
			}
			if len(local.Samples) < e.MaxSamples && len(c.nontrivial) > 0 && local.Executions%97 == 1 {
				local.Samples = append(local.Samples, map[string]any{"attrs": c.Attrs, "choices": c.choices(), "outcome": c.outcome})
			}
			for _, v := range c.violations {
				local.NViolations++
				// retain up to MaxViolations per distinct (clause, class attributes) per worker
				k := v.Clause
				for _, a := range sortedClassAttrs(v.Attrs) {
					k += "|" + a
				}
				if local.perKey == nil {
					local.perKey = map[string]int{}
				}
				if local.perKey[k] < 3 || (len(local.Violations) < e.MaxViolations && local.perKey[k] < 20) {
					local.Violations = append(local.Violations, v)
				}
				local.perKey[k]++
			}
		}
		// children
		cost := 0
		for i := 0; i < len(t.prefix) && i < len(c.points); i++ {
			if c.points[i].chosen != 0 {
				cost += c.points[i].cost
			}
		}
		var children []task
		for i := len(t.prefix); i < len(c.points); i++ {
			p := c.points[i]
			if cost+p.cost <= e.Bound {
				for alt := 1; alt < p.n; alt++ {
					np := make([]int, i+1)
					for j := 0; j < i; j++ {
						np[j] = c.points[j].chosen
					}
					np[i] = alt
					children = append(children, task{np})
				}
			}
			// points after i keep default (0) so cost unchanged
		}
		if len(children) == 0 {
			return
		}
		mu.Lock()
		share := len(shared) < 4*e.Workers
		if share {
			shared = append(shared, children...)
			inflight += int64(len(children))
			cond.Broadcast()
		}
		mu.Unlock()
		if !share {
			for _, ch := range children {
				runTask(ch, local)
			}
		}
	}

	var wg sync.WaitGroup
	locals := make([]*Result, e.Workers)
	for w := 0; w < e.Workers; w++ {
		local := &Result{Nontrivial: map[uint64]struct{}{}, Outcomes: map[string]int64{}, Notes: map[string]int64{}}
		locals[w] = local
		wg.Add(1)
		go func() {
			defer wg.Done()
			for {
				mu.Lock()
				for len(shared) == 0 && inflight > 0 {
					cond.Wait()
				}
				if len(shared) == 0 && inflight == 0 {
					mu.Unlock()
					cond.Broadcast()
					return
				}
				t := shared[len(shared)-1]
				shared = shared[:len(shared)-1]
				mu.Unlock()
				runTask(t, local)
				mu.Lock()
				inflight--
				if inflight == 0 {
					cond.Broadcast()
				}
				mu.Unlock()
			}
		}()
	}
	wg.Wait()
	for _, l := range locals {
		res.Executions += l.Executions
		res.Skipped += l.Skipped
		res.NViolations += l.NViolations
		res.Violations = append(res.Violations, l.Violations...)
		for k := range l.Nontrivial {
			res.Nontrivial[k] = struct{}{}
		}
		for k, v := range l.Outcomes {
			res.Outcomes[k] += v
		}
		for k, v := range l.Notes {
			res.Notes[k] += v
		}
		res.Samples = append(res.Samples, l.Samples...)
	}
	if stopped.Load() {
		res.Exhaustive = false
	}
	// deterministic order, simplest (fewest non-default choices, shortest) first
	sort.SliceStable(res.Violations, func(i, j int) bool {
		a, b := res.Violations[i], res.Violations[j]
		if da, db := deviations(a.Choices), deviations(b.Choices); da != db {
			return da < db
		}
		if len(a.Choices) != len(b.Choices) {
			return len(a.Choices) < len(b.Choices)
		}
		return strings.Join(a.Labels, ",") < strings.Join(b.Labels, ",")
	})
	if len(res.Samples) > e.MaxSamples {
		res.Samples = res.Samples[:e.MaxSamples]
	}
	res.Wall = time.Since(start)
	return res
}

func deviations(ch []int) int {
	n := 0
	for _, c := range ch {
		if c != 0 {
			n++
		}
	}
	return n
}

// HashKey is the 64-bit FNV-1a hash under which a non-trivial case key is counted (keeping
// tens of millions of key strings would dominate the memory of a thorough run).
func HashKey(k string) uint64 {
	h := uint64(14695981039346656037)
	for i := 0; i < len(k); i++ {
		h ^= uint64(k[i])
		h *= 1099511628211
	}
	return h
}
