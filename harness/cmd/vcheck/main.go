// vcheck runs the bounded-exhaustive check of one property against the Transcoder built
// from /repo's working tree (with the verifsync overlay).
package main

import (
	"flag"
	"fmt"
	"os"
	"runtime"
	"runtime/debug"
	"runtime/pprof"
	"strconv"
	"time"

	"connectrpc.com/vanguard/verifharness/props"
)

func main() {
	replay := flag.String("replay", "", "re-execute one recorded scenario")
	only := flag.String("only", "", "run only the named scenario")
	verbose := flag.Bool("v", false, "verbose")
	list := flag.Bool("list", false, "list checks")
	budget := flag.Duration("budget", 0, "internal time cap (run ends with exhaustive:false)")
	cpuprof := flag.String("cpuprofile", "", "write cpu profile")
	shard := flag.String("shard", "", "worker mode: i/n")
	partial := flag.String("partial", "", "worker mode: write the partial report to this file")
	racePass := flag.Int("race-pass", 0, "free-running pass of C14's harness bodies for the race detector (binary built with -race): iterations per combination")
	sweep := flag.String("c12-sweep", "", "function-level sweep of C12 (binary built with -tags verifsweep): full | smoke | values:<file>")
	flag.Parse()
	debug.SetGCPercent(400)
	if *sweep != "" {
		os.Exit(props.C12SweepMain([]string{*sweep}))
	}
	if *cpuprof != "" {
		f, _ := os.Create(*cpuprof)
		_ = pprof.StartCPUProfile(f)
		defer pprof.StopCPUProfile()
	}
	if v := os.Getenv("VERIF_DIR"); v != "" {
		props.VerifDir = v
	}
	if *racePass > 0 {
		runs, problems := props.RacePass(*racePass)
		fmt.Printf("race-pass: runs=%d problems=%d\n", runs, len(problems))
		for _, p := range problems {
			fmt.Println("race-pass problem:", p)
		}
		if len(problems) > 0 {
			os.Exit(3)
		}
		return // the race detector itself exits 66 if it reported a race
	}
	if *list {
		for _, id := range props.IDs() {
			fmt.Println(id)
		}
		return
	}
	if *replay != "" {
		os.Exit(props.Replay(*replay))
	}
	args := flag.Args()
	if len(args) < 1 {
		fmt.Fprintln(os.Stderr, "usage: vcheck <ID> [quick|thorough]")
		os.Exit(2)
	}
	tier := "quick"
	if len(args) > 1 {
		tier = args[1]
	}
	if t := os.Getenv("VERIF_TIER"); t == "quick" || t == "thorough" {
		tier = t
	}
	c := props.Get(args[0])
	if c == nil {
		fmt.Fprintln(os.Stderr, "unknown check", args[0])
		os.Exit(2)
	}
	seed, _ := strconv.ParseInt(os.Getenv("VERIF_SEED"), 10, 64)
	workers := runtime.NumCPU()
	if j, err := strconv.Atoi(os.Getenv("VERIF_JOBS")); err == nil && j > 0 {
		workers = j
	}
	rc := &props.RunCtx{Tier: tier, Seed: seed, Workers: workers, Only: *only, Verbose: *verbose, Shard: -1, Partial: *partial}
	if *shard != "" {
		if _, err := fmt.Sscanf(*shard, "%d/%d", &rc.Shard, &rc.NShards); err != nil {
			fmt.Fprintln(os.Stderr, "bad -shard")
			os.Exit(2)
		}
	}
	if *budget > 0 {
		rc.Deadline = time.Now().Add(*budget)
	}
	code := props.RunCheck(c, rc)
	pprof.StopCPUProfile()
	os.Exit(code)
}
