// Package drive is the closed world around the real vanguard.Transcoder: a scripted
// client body, a strict model of net/http's ResponseWriter, and helpers for scripted
// backends. Nothing in here imports vanguard.
package drive

import (
	"bytes"
	"context"
	"errors"
	"fmt"
	"io"
	"net/http"
	"net/textproto"
	"net/url"
	"sort"
	"strconv"
	"strings"
)

// Hooks lets a controlled scheduler see environment calls (nil when free-running).
type Hooks interface {
	Point(kind string, obj any)
	Block(kind string, obj any, ready func() bool)
}

// ---------------------------------------------------------------------------------
// Request body

// Body is the client's request body. Read results are fully scripted.
type Body struct {
	Data []byte
	// Cuts are ascending offsets at which Read results end (segment boundaries). A
	// Read never returns bytes across a cut. Empty = everything in one Read.
	Cuts []int
	// EOFWithData: the final segment is returned together with io.EOF.
	EOFWithData bool
	// FailAt >= 0: after FailAt bytes have been delivered, Read returns FailErr.
	FailAt  int
	FailErr error

	off       int
	Closed    int
	Reads     int
	PostReads int // Read/Close calls after the owner marked the body finished
	Finished  bool
	H         Hooks
	// Pipe mode (scheduler harnesses): Data grows while Open; Read blocks when empty.
	Pipe   bool
	Open   bool
	Wanted bool
	// Hist is a rolling hash of every Read result (state keys of the scheduler search).
	Hist uint64
	// OnEOF runs once, just before the first Read that reports io.EOF returns (net/http fills
	// Request.Trailer at that moment).
	OnEOF   func()
	eofSeen bool
}

func (b *Body) eof() {
	if !b.eofSeen {
		b.eofSeen = true
		if b.OnEOF != nil {
			b.OnEOF()
		}
	}
}

func mix(h uint64, vals ...int) uint64 {
	for _, v := range vals {
		h = (h ^ uint64(v+1)) * 1099511628211
	}
	return h
}

func NewBody(data []byte) *Body { return &Body{Data: data, FailAt: -1} }

func (b *Body) Read(p []byte) (int, error) {
	if b.Finished {
		b.PostReads++
		return 0, errors.New("http: invalid Read on closed Body")
	}
	b.Reads++
	if b.H != nil {
		b.H.Point("body.read", b)
	}
	if b.Closed > 0 {
		return 0, errors.New("http: invalid Read on closed Body")
	}
	if len(p) == 0 && !b.Pipe {
		return 0, nil
	}
	// (In stream mode the body behaves like an HTTP/2 request body: net/http's pipe makes
	// EVERY Read wait until data or the end has arrived - also a Read into an empty buffer.)
	if b.Pipe {
		for b.off >= len(b.Data) && b.Open {
			if b.H == nil {
				panic("drive: pipe body needs a scheduler")
			}
			b.Wanted = true
			b.H.Block("body.wait", b, func() bool { return b.off < len(b.Data) || !b.Open || b.Closed > 0 })
			if b.Closed > 0 {
				return 0, errors.New("http: invalid Read on closed Body")
			}
		}
	}
	limit := len(b.Data)
	if b.FailAt >= 0 && b.FailAt < limit {
		limit = b.FailAt
	}
	if len(p) == 0 && b.off < limit {
		return 0, nil
	}
	if b.off >= limit {
		b.Hist = mix(b.Hist, 2, len(p))
		if b.FailAt >= 0 && b.off >= b.FailAt {
			return 0, b.FailErr
		}
		b.eof()
		return 0, io.EOF
	}
	end := limit
	for _, c := range b.Cuts {
		if c > b.off && c < end {
			end = c
			break
		}
	}
	n := copy(p, b.Data[b.off:end])
	b.off += n
	b.Hist = mix(b.Hist, 1, n, len(p))
	if b.off >= limit && !b.Pipe {
		if b.FailAt >= 0 && limit == b.FailAt {
			if b.EOFWithData {
				return n, b.FailErr
			}
			return n, nil
		}
		if b.EOFWithData {
			b.eof()
			return n, io.EOF
		}
	}
	return n, nil
}

func (b *Body) Close() error {
	if b.Finished {
		b.PostReads++
		return nil
	}
	if b.H != nil {
		b.H.Point("body.close", b)
	}
	b.Closed++
	return nil
}

// Offset is the number of bytes handed out so far.
func (b *Body) Offset() int { return b.off }

// ---------------------------------------------------------------------------------
// Response recorder (strict net/http ResponseWriter model)

// Recorder models net/http's server-side ResponseWriter semantics literally.
type Recorder struct {
	hdr http.Header

	WroteHeader   bool
	Status        int
	Snapshot      http.Header // headers as of the effective WriteHeader
	Informational []int
	Superfluous   int // WriteHeader calls after the head was written
	BodyBytes     bytes.Buffer
	Flushes       []int // body offsets at which Flush was called
	DeclaredCL    int64 // -1 if none
	BadCL         string
	ExcessWrite   bool // handler wrote more than the declared Content-Length
	BodyNotAllow  int  // writes (with data) on a status that forbids a body
	PanicStatus   any
	Finished      bool
	PostCalls     int // calls made after ServeHTTP returned
	Writes        int
	Trailers      http.Header // computed by Finish
	H             Hooks
	NoFlusher     bool
	visible       int
	VisibleHead   bool
	Hist          uint64 // rolling hash of every call (state keys of the scheduler search)
}

func NewRecorder() *Recorder { return &Recorder{hdr: http.Header{}, DeclaredCL: -1} }

func (r *Recorder) Header() http.Header { return r.hdr }

func bodyAllowed(status int) bool {
	switch {
	case status >= 100 && status <= 199:
		return false
	case status == 204, status == 304:
		return false
	}
	return true
}

func (r *Recorder) WriteHeader(code int) {
	if r.Finished {
		r.PostCalls++
		return
	}
	if r.H != nil {
		r.H.Point("rw.writeheader", r)
	}
	r.Hist = mix(r.Hist, 3, code)
	if r.WroteHeader {
		r.Superfluous++
		return
	}
	if code < 100 || code > 999 {
		// net/http: checkWriteHeaderCode panics
		r.PanicStatus = code
		panic(fmt.Sprintf("invalid WriteHeader code %v", code))
	}
	if code >= 100 && code <= 199 && code != 101 {
		r.Informational = append(r.Informational, code)
		return
	}
	r.WroteHeader = true
	r.Status = code
	r.Snapshot = r.hdr.Clone()
	if cl := r.Snapshot.Get("Content-Length"); cl != "" {
		n, err := strconv.ParseInt(cl, 10, 64)
		if err != nil || n < 0 {
			r.BadCL = cl
			// net/http drops an unparsable Content-Length
			r.Snapshot.Del("Content-Length")
		} else {
			r.DeclaredCL = n
		}
	}
}

func (r *Recorder) Write(p []byte) (int, error) {
	if r.Finished {
		r.PostCalls++
		return 0, http.ErrHandlerTimeout
	}
	if r.H != nil {
		r.H.Point("rw.write", r)
	}
	if !r.WroteHeader {
		r.WriteHeader(http.StatusOK)
	}
	r.Writes++
	r.Hist = mix(r.Hist, 4, len(p))
	for _, c := range p {
		r.Hist = mix(r.Hist, int(c))
	}
	if len(p) == 0 {
		return 0, nil
	}
	if !bodyAllowed(r.Status) {
		r.BodyNotAllow++
		return 0, http.ErrBodyNotAllowed
	}
	if r.DeclaredCL >= 0 && int64(r.BodyBytes.Len()+len(p)) > r.DeclaredCL {
		r.ExcessWrite = true
		return 0, http.ErrContentLength
	}
	return r.BodyBytes.Write(p)
}

func (r *Recorder) Flush() {
	if r.Finished {
		r.PostCalls++
		return
	}
	if r.H != nil {
		r.H.Point("rw.flush", r)
	}
	if !r.WroteHeader {
		r.WriteHeader(http.StatusOK)
	}
	r.Hist = mix(r.Hist, 5)
	r.Flushes = append(r.Flushes, r.BodyBytes.Len())
	r.visible = r.BodyBytes.Len()
	r.VisibleHead = true
}

// Visible is the number of body bytes the client can see (stream mode: flushed only).
func (r *Recorder) Visible() int {
	if r.Finished {
		return r.BodyBytes.Len()
	}
	return r.visible
}

// Finish marks ServeHTTP as returned and computes the trailers the client would see.
func (r *Recorder) Finish() {
	if r.Finished {
		return
	}
	if !r.WroteHeader && r.PanicStatus == nil {
		// net/http writes an implicit 200 when the handler returns without writing
		r.WriteHeader(http.StatusOK)
	}
	r.Finished = true
	r.VisibleHead = true
	r.Trailers = http.Header{}
	if r.Snapshot != nil {
		for _, v := range r.Snapshot.Values("Trailer") {
			for _, k := range strings.Split(v, ",") {
				k = textproto.CanonicalMIMEHeaderKey(strings.TrimSpace(k))
				if k == "" {
					continue
				}
				switch k {
				case "Transfer-Encoding", "Content-Length", "Trailer":
					continue
				}
				if vals, ok := r.hdr[k]; ok {
					r.Trailers[k] = append([]string(nil), vals...)
				}
			}
		}
	}
	for k, vals := range r.hdr {
		if strings.HasPrefix(k, http.TrailerPrefix) {
			kk := strings.TrimPrefix(k, http.TrailerPrefix)
			r.Trailers[kk] = append(r.Trailers[kk], vals...)
		}
	}
}

// HeadHeaders returns the response headers the client sees (snapshot minus the
// TrailerPrefix pseudo keys, which net/http never sends as headers).
func (r *Recorder) HeadHeaders() http.Header {
	out := http.Header{}
	for k, v := range r.Snapshot {
		if strings.HasPrefix(k, http.TrailerPrefix) {
			continue
		}
		out[k] = append([]string(nil), v...)
	}
	return out
}

// FlushOnly wraps a Recorder hiding http.Flusher behind FlushError/Unwrap.
type FlushErrorOnly struct{ R *Recorder }

func (f FlushErrorOnly) Header() http.Header         { return f.R.Header() }
func (f FlushErrorOnly) WriteHeader(c int)           { f.R.WriteHeader(c) }
func (f FlushErrorOnly) Write(p []byte) (int, error) { return f.R.Write(p) }
func (f FlushErrorOnly) FlushError() error           { f.R.Flush(); return nil }

// NoFlush offers neither Flush, FlushError nor Unwrap (what http.TimeoutHandler hands its
// inner handler).
type NoFlush struct{ R *Recorder }

func (f NoFlush) Header() http.Header         { return f.R.Header() }
func (f NoFlush) WriteHeader(c int)           { f.R.WriteHeader(c) }
func (f NoFlush) Write(p []byte) (int, error) { return f.R.Write(p) }

type UnwrapOnly struct{ R http.ResponseWriter }

func (u UnwrapOnly) Header() http.Header         { return u.R.Header() }
func (u UnwrapOnly) WriteHeader(c int)           { u.R.WriteHeader(c) }
func (u UnwrapOnly) Write(p []byte) (int, error) { return u.R.Write(p) }
func (u UnwrapOnly) Unwrap() http.ResponseWriter { return u.R }

// ---------------------------------------------------------------------------------
// Requests

// ReqSpec describes a client request.
type ReqSpec struct {
	Method     string
	Target     string // raw request-target (path?query), as on the request line
	ProtoMajor int    // 1 or 2
	Header     http.Header
	// ContentLength: -2 = len(body) (what net/http reports for a declared length),
	// -1 = unknown (chunked / HTTP/2 without content-length), >=0 literal.
	ContentLength int64
	Body          *Body
	NoBody        bool // use http.NoBody (GET without body)
	Host          string
	// Trailer: request trailers. As net/http's servers do, the announced keys are present in
	// Request.Trailer (with nil values) from the start, the "Trailer" header itself is not in
	// Request.Header, and the values appear in that same map once the body has been read to EOF.
	Trailer http.Header
	// Ctx, if set, is the context the server gives the request (world.Do uses it instead of
	// context.Background()): a middleware in front of the transcoder may have put a deadline on it.
	Ctx context.Context
}

// Build turns the spec into an *http.Request the way net/http's server would.
func (s *ReqSpec) Build(ctx context.Context) (*http.Request, error) {
	u, err := url.ParseRequestURI(s.Target)
	if err != nil {
		return nil, err
	}
	major := s.ProtoMajor
	if major == 0 {
		major = 1
	}
	req := &http.Request{
		Method:     s.Method,
		URL:        u,
		Header:     s.Header.Clone(),
		Host:       s.Host,
		RequestURI: s.Target,
		RemoteAddr: "192.0.2.1:1234",
	}
	if req.Header == nil {
		req.Header = http.Header{}
	}
	if req.Host == "" {
		req.Host = "example.test"
	}
	if major == 3 {
		// what an HTTP/3 front end (quic-go, Caddy) hands to a handler
		req.Proto, req.ProtoMajor, req.ProtoMinor = "HTTP/3.0", 3, 0
	} else if major == 2 {
		req.Proto, req.ProtoMajor, req.ProtoMinor = "HTTP/2.0", 2, 0
	} else {
		req.Proto, req.ProtoMajor, req.ProtoMinor = "HTTP/1.1", 1, 1
	}
	switch {
	case s.NoBody || s.Body == nil:
		req.Body = http.NoBody
		req.ContentLength = 0
	default:
		req.Body = s.Body
		switch {
		case s.ContentLength == -2:
			req.ContentLength = int64(len(s.Body.Data))
			req.Header.Set("Content-Length", strconv.Itoa(len(s.Body.Data)))
		case s.ContentLength >= 0:
			req.ContentLength = s.ContentLength
			req.Header.Set("Content-Length", strconv.FormatInt(s.ContentLength, 10))
		default:
			req.ContentLength = -1
			if major == 1 {
				req.TransferEncoding = []string{"chunked"}
			}
		}
	}
	if len(s.Trailer) > 0 && s.Body != nil && !s.NoBody {
		req.Trailer = http.Header{}
		for k := range s.Trailer {
			req.Trailer[k] = nil
		}
		tr, sent := req.Trailer, s.Trailer
		s.Body.OnEOF = func() {
			for k, v := range sent {
				tr[k] = append([]string(nil), v...)
			}
		}
	}
	return req.WithContext(ctx), nil
}

// ---------------------------------------------------------------------------------
// What a backend saw

// Seen is a record of one handler invocation.
type Seen struct {
	Method        string
	URL           string // full URL string (path + ?query)
	Path          string
	RawPath       string
	RawQuery      string
	ForceQuery    bool
	Proto         string
	ProtoMajor    int
	ProtoMinor    int
	Header        http.Header
	Host          string
	ContentLength int64
	TransferEnc   []string
	Body          []byte
	ReadErr       string
	ReadSizes     []int
	Ctx           context.Context
	req           *http.Request
}

// Capture snapshots the request line and headers handed to a handler.
func Capture(r *http.Request) *Seen {
	return &Seen{
		Method: r.Method, URL: r.URL.String(), Path: r.URL.Path, RawPath: r.URL.RawPath,
		RawQuery: r.URL.RawQuery, ForceQuery: r.URL.ForceQuery,
		Proto: r.Proto, ProtoMajor: r.ProtoMajor, ProtoMinor: r.ProtoMinor,
		Header: r.Header.Clone(), Host: r.Host, ContentLength: r.ContentLength,
		TransferEnc: append([]string(nil), r.TransferEncoding...), Ctx: r.Context(),
		req: r,
	}
}

// TrailerAfterBody is Request.Trailer as the handler sees it now (call after ReadBody).
func (s *Seen) TrailerAfterBody() http.Header {
	if s.req == nil || s.req.Trailer == nil {
		return nil
	}
	return s.req.Trailer.Clone()
}

// ReadBody reads r.Body to the end with the given buffer sizes (cycled; a single
// size means constant). It records every byte and the terminal error.
func (s *Seen) ReadBody(body io.Reader, sizes []int) {
	if len(sizes) == 0 {
		sizes = []int{4096}
	}
	for i := 0; ; i++ {
		sz := sizes[len(sizes)-1]
		if i < len(sizes) {
			sz = sizes[i]
		}
		buf := make([]byte, sz)
		n, err := body.Read(buf)
		s.ReadSizes = append(s.ReadSizes, n)
		s.Body = append(s.Body, buf[:n]...)
		if err != nil {
			if err != io.EOF {
				s.ReadErr = err.Error()
			}
			return
		}
		if i > 100000 {
			s.ReadErr = "drive: read loop did not terminate (100000 reads without EOF or error)"
			return
		}
	}
}

// CanonHeader renders headers deterministically (sorted keys) for comparison.
func CanonHeader(h http.Header, drop ...string) string {
	dropSet := map[string]bool{}
	for _, d := range drop {
		dropSet[textproto.CanonicalMIMEHeaderKey(d)] = true
	}
	keys := make([]string, 0, len(h))
	for k := range h {
		if dropSet[textproto.CanonicalMIMEHeaderKey(k)] {
			continue
		}
		keys = append(keys, k)
	}
	sort.Strings(keys)
	var sb strings.Builder
	for _, k := range keys {
		fmt.Fprintf(&sb, "%s=%q;", k, h[k])
	}
	return sb.String()
}

// PanicInfo describes a panic that escaped ServeHTTP.
type PanicInfo struct {
	Value string
	Stack string
}

// Serve runs handler.ServeHTTP with panic capture, then finishes the recorder/body.
func Serve(h http.Handler, w http.ResponseWriter, rec *Recorder, req *http.Request, body *Body) (pi *PanicInfo) {
	defer func() {
		if p := recover(); p != nil {
			pi = &PanicInfo{Value: fmt.Sprint(p), Stack: stack()}
		}
		rec.Finish()
		if body != nil {
			body.Finished = true
		}
	}()
	h.ServeHTTP(w, req)
	return nil
}
