package drive

import "runtime/debug"

func stack() string { return string(debug.Stack()) }
