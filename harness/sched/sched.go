// Package sched is a cooperative, deterministic scheduler for real goroutines plus a
// stateless DFS over its schedules with iterative preemption bounding (CHESS style).
//
// Exactly one harness thread runs at any time. A thread runs until its next scheduling
// point (Point/Block), where control returns to the scheduler loop, which picks the
// next thread according to a choice vector. Blocking is modelled: a blocked thread is
// disabled until its readiness predicate holds. "No enabled thread while some thread is
// unfinished" is a deadlock; a step horizon catches livelock.
package sched

import (
	"fmt"
	"runtime/debug"
	"strings"
)

type abortSentinel struct{}

// Thread is one controlled goroutine.
type Thread struct {
	ID    int
	Name  string
	wake  chan bool // true = run, false = abort (unwind)
	ready func() bool
	kind  string
	done  bool
	Panic any
	Stack string
	steps int
}

// ChoicePoint records one decision of an execution.
type ChoicePoint struct {
	Kind     string // "sched" or a data-choice label
	N        int    // number of alternatives
	Chosen   int
	Preempt  []bool // for "sched": whether alternative i is a preemption
	Enabled  []int  // for "sched": thread ids in canonical order
	Running  int    // thread that was running before this point (-1 none)
	StateKey string
}

// Run is one execution under a fixed choice prefix.
type Run struct {
	prefix  []int
	Points  []ChoicePoint
	threads []*Thread
	cur     *Thread
	back    chan struct{}
	horizon int
	steps   int

	Deadlock   bool
	Livelock   bool
	Blocked    []string // names+kinds of threads blocked at deadlock
	Diverged   string   // non-empty: replay prefix did not fit (hard error)
	Trace      []string // thread names in execution order (per step)
	aborting   bool
	TraceKinds []string
	// StateKeyFn, if set, is evaluated at every scheduling decision for pruning.
	StateKeyFn func() string
}

// NewRun prepares an execution that follows prefix and then takes alternative 0.
func NewRun(prefix []int, horizon int) *Run {
	if horizon <= 0 {
		horizon = 100000
	}
	return &Run{prefix: prefix, back: make(chan struct{}), horizon: horizon}
}

// Go registers a thread. Must be called before Start or from a running thread.
func (r *Run) Go(name string, f func()) *Thread {
	t := &Thread{ID: len(r.threads), Name: name, wake: make(chan bool)}
	r.threads = append(r.threads, t)
	go func() {
		if ok := <-t.wake; !ok {
			t.done = true
			r.back <- struct{}{}
			return
		}
		defer func() {
			if p := recover(); p != nil {
				if _, isAbort := p.(abortSentinel); !isAbort {
					t.Panic = p
					t.Stack = string(debug.Stack())
				}
			}
			t.done = true
			r.back <- struct{}{}
		}()
		f()
	}()
	return t
}

func (r *Run) yield(t *Thread) {
	r.back <- struct{}{}
	if ok := <-t.wake; !ok {
		panic(abortSentinel{})
	}
}

// Point is a scheduling point of the current thread.
func (r *Run) Point(kind string, _ any) {
	t := r.cur
	if t == nil || r.aborting {
		return
	}
	t.kind = kind
	r.yield(t)
}

// Block parks the current thread until ready() holds.
func (r *Run) Block(kind string, _ any, ready func() bool) {
	t := r.cur
	if t == nil {
		panic("sched: Block outside a scheduled thread")
	}
	if r.aborting {
		panic(abortSentinel{})
	}
	t.kind = kind
	t.ready = ready
	r.yield(t)
	t.ready = nil
}

// Choose is a data choice point (resolved by the same choice vector).
func (r *Run) Choose(kind string, n int) int {
	if n <= 1 {
		return 0
	}
	c := r.take(ChoicePoint{Kind: kind, N: n, Running: -1})
	return c
}

func (r *Run) take(cp ChoicePoint) int {
	i := len(r.Points)
	c := 0
	if i < len(r.prefix) {
		c = r.prefix[i]
		if c < 0 || c >= cp.N {
			r.Diverged = fmt.Sprintf("choice %d at point %d (%s) out of range %d", c, i, cp.Kind, cp.N)
			c = 0
		}
	}
	cp.Chosen = c
	r.Points = append(r.Points, cp)
	return c
}

// Current returns the running thread (nil in the scheduler loop).
func (r *Run) Current() *Thread { return r.cur }

// Start runs the execution to completion (all threads done, deadlock, or horizon).
func (r *Run) Start() {
	last := -1
	for {
		var enabled []*Thread
		unfinished := 0
		for _, t := range r.threads {
			if t.done {
				continue
			}
			unfinished++
			if t.ready == nil || t.ready() {
				enabled = append(enabled, t)
			}
		}
		if unfinished == 0 {
			return
		}
		if len(enabled) == 0 {
			r.Deadlock = true
			for _, t := range r.threads {
				if !t.done {
					r.Blocked = append(r.Blocked, t.Name+":"+t.kind)
				}
			}
			r.abort()
			return
		}
		if r.steps >= r.horizon {
			r.Livelock = true
			r.abort()
			return
		}
		// canonical order: the running thread first if still enabled, then ascending ids
		order := make([]*Thread, 0, len(enabled))
		runningEnabled := false
		for _, t := range enabled {
			if t.ID == last {
				order = append(order, t)
				runningEnabled = true
			}
		}
		for _, t := range enabled {
			if t.ID != last {
				order = append(order, t)
			}
		}
		next := order[0]
		if len(order) > 1 {
			cp := ChoicePoint{Kind: "sched", N: len(order), Running: last}
			for i, t := range order {
				cp.Enabled = append(cp.Enabled, t.ID)
				cp.Preempt = append(cp.Preempt, runningEnabled && i > 0)
			}
			if r.StateKeyFn != nil {
				cp.StateKey = r.StateKeyFn()
			}
			next = order[r.take(cp)]
		}
		r.steps++
		next.steps++
		r.Trace = append(r.Trace, next.Name)
		r.TraceKinds = append(r.TraceKinds, next.Name+":"+next.kind)
		r.cur = next
		last = next.ID
		next.wake <- true
		<-r.back
		r.cur = nil
	}
}

func (r *Run) abort() {
	r.aborting = true
	for _, t := range r.threads {
		if !t.done {
			r.cur = t
			t.wake <- false
			<-r.back
			r.cur = nil
		}
	}
}

// Threads returns the threads of the run.
func (r *Run) Threads() []*Thread { return r.threads }

// PCs is a compact per-thread progress vector for state keys.
func (r *Run) PCs() string {
	var sb strings.Builder
	for _, t := range r.threads {
		fmt.Fprintf(&sb, "%d:%d:%v;", t.ID, t.steps, t.done)
	}
	return sb.String()
}

// Choices returns the choice vector of this execution.
func (r *Run) Choices() []int {
	out := make([]int, len(r.Points))
	for i, p := range r.Points {
		out[i] = p.Chosen
	}
	return out
}

// ---------------------------------------------------------------------------------

// Explorer enumerates all executions within a preemption bound.
type Explorer struct {
	// Bound is the maximal number of preemptions (negative: unbounded).
	Bound int
	// DataCost is the cost of a non-default data choice (0 = free, fully crossed).
	DataCost int
	// MaxRuns caps the number of executions (0 = none). Hitting it clears Exhaustive.
	MaxRuns int
	// Prune enables state-key pruning (requires Run.StateKeyFn to be set by Exec).
	Prune bool
	// Exec performs one execution for the given prefix and returns the finished run.
	Exec func(prefix []int) *Run
	// Check is called for every finished run; return false to stop exploring.
	Check func(r *Run) bool

	Runs        int
	Transitions int
	Exhaustive  bool
	seen        map[string]int // state key -> min preemptions used when first expanded
	Stop        func() bool
}

// Explore runs the DFS.
func (e *Explorer) Explore() {
	e.Exhaustive = true
	if e.Prune {
		e.seen = map[string]int{}
	}
	e.explore(nil)
}

func (e *Explorer) explore(prefix []int) bool {
	if e.MaxRuns > 0 && e.Runs >= e.MaxRuns || (e.Stop != nil && e.Stop()) {
		e.Exhaustive = false
		return false
	}
	x := e.Exec(prefix)
	e.Runs++
	e.Transitions += len(x.Trace)
	if x.Diverged != "" {
		panic("sched: replay diverged: " + x.Diverged)
	}
	if e.Check != nil && !e.Check(x) {
		return false
	}
	// cost of the prefix part
	costBefore := make([]int, len(x.Points)+1)
	for i, p := range x.Points {
		c := 0
		if p.Chosen != 0 {
			if p.Kind == "sched" {
				if p.Preempt[p.Chosen] {
					c = 1
				}
			} else {
				c = e.DataCost
			}
		}
		costBefore[i+1] = costBefore[i] + c
	}
	for i := len(prefix); i < len(x.Points); i++ {
		p := x.Points[i]
		if e.Prune && p.Kind == "sched" && p.StateKey != "" {
			key := p.StateKey
			if best, ok := e.seen[key]; ok && best <= costBefore[i] {
				// an equal state was already expanded with no more preemptions used:
				// all its alternatives (and its default continuation) are covered.
				break
			}
			e.seen[key] = costBefore[i]
		}
		for alt := 1; alt < p.N; alt++ {
			c := costBefore[i]
			if p.Kind == "sched" {
				if p.Preempt[alt] {
					c++
				}
			} else {
				c += e.DataCost
			}
			if e.Bound >= 0 && c > e.Bound {
				continue
			}
			np := make([]int, i+1)
			copy(np, x.Choices()[:i])
			np[i] = alt
			if !e.explore(np) {
				return false
			}
		}
	}
	return true
}
