package props

import (
	"context"
	"fmt"
	"math/big"
	"net/http"
	"strconv"
	"strings"
	"time"

	"connectrpc.com/vanguard/verifharness/drive"
	"connectrpc.com/vanguard/verifharness/reftimeout"
	"connectrpc.com/vanguard/verifharness/wire"
	"connectrpc.com/vanguard/verifharness/world"
	"connectrpc.com/vanguard/verifharness/xplor"
)

// C12 — deadlines are propagated to the backend and never extended.

type c12Client struct {
	name   string
	form   wire.Form
	header string
	parse  func(string) (reftimeout.Timeout, reftimeout.Validity)
}

var c12Clients = []c12Client{
	{"grpc", wire.GRPC, "Grpc-Timeout", reftimeout.ParseGRPC},
	{"grpc-web", wire.GRPCWeb, "Grpc-Timeout", reftimeout.ParseGRPC},
	{"connect-unary", wire.ConnectUnary, "Connect-Timeout-Ms", reftimeout.ParseConnect},
	{"connect-get", wire.ConnectGet, "Connect-Timeout-Ms", reftimeout.ParseConnect},
	{"connect-stream", wire.ConnectStream, "Connect-Timeout-Ms", reftimeout.ParseConnect},
	{"rest", wire.REST, "X-Server-Timeout", reftimeout.ParseREST},
}

func grpcValues() []string {
	var out []string
	units := "HMSmun"
	nums := []string{}
	for i := 0; i <= 999; i++ {
		nums = append(nums, strconv.Itoa(i))
	}
	p := 1000
	for k := 3; k <= 8; k++ {
		nums = append(nums, strconv.Itoa(p-1), strconv.Itoa(p), strconv.Itoa(p+1))
		p *= 10
	}
	nums = append(nums, "99999999", "007", "00000000", "00000001", "01000", "3599", "3600", "3601", "86399999", "59999", "60000", "60001",
		// values whose decimal-seconds form is not exactly representable in binary floating point
		"99070805", "4350000", "1150", "1001", "2003", "33330", "1255", "8700001", "70000001", "29000003")
	for _, n := range nums {
		if len(n) > 8 {
			continue
		}
		for i := 0; i < len(units); i++ {
			out = append(out, n+string(units[i]))
		}
	}
	return out
}

func connectValues() []string {
	var out []string
	for i := 0; i <= 1000; i++ {
		out = append(out, strconv.Itoa(i))
	}
	p := int64(1000)
	for k := 3; k <= 9; k++ {
		out = append(out, strconv.FormatInt(p-1, 10), strconv.FormatInt(p, 10), strconv.FormatInt(p+1, 10))
		p *= 10
	}
	out = append(out, "9999999999", "0000000001", "007", "28800000", "28800001", "359999999", "360000000", "5999999", "6000000", "99999999", "100000000", "99999999999", "1234567890123456789", "9223372036854775807", "9223372036854", "9223372036855", "99999999999999999999")
	return out
}

func restValues() []string {
	out := []string{"0", "1", "2", "10", "59", "60", "61", "3599", "3600", "3601", "28800", "28801", "86400", "99999999", "100000000", "9999999999", "10000000000",
		"0.5", "0.001", "0.0015", "0.000001", "0.000000001", "0.0000000015", "0.0000000004", "1.5", "1.999999999", "2.000000001", "0.1", "0.2", "0.3", "0.7", "1.1", "123.456", "99999.999999999",
		"1e3", "1E-3", ".5", "5.", "+5", "1e400", "000.5", "0.0", "00"}
	for i := 1; i <= 40; i++ {
		out = append(out, fmt.Sprintf("0.%03d", i*7), fmt.Sprintf("%d.%d", i, i))
	}
	// decimal fractions that binary floating point cannot represent: multiplying and truncating
	// must not lose a whole unit of the target encoding
	out = append(out, "1.001", "2.003", "1.0009", "99.070805", "4.35", "1.15", "8.7", "0.29", "1.005", "33.33", "0.57", "1.255", "1.000001", "0.000007", "16.001", "1.009", "64.000001", "0.017", "1.017")
	for i := 1; i <= 60; i++ {
		out = append(out, fmt.Sprintf("%d.%03d", i, (i*37)%1000), fmt.Sprintf("%d.%06d", i%7, (i*100003)%1000000))
	}
	// plain decimals beyond what a float64 (or a Duration) can hold: valid, practically unbounded
	out = append(out, "1"+strings.Repeat("0", 320), "9"+strings.Repeat("9", 400)+".5", "18446744073709551616", "9223372036.854775808")
	return out
}

var c12Malformed = map[string][]string{
	"Grpc-Timeout":       {"5", "5x", "S", "123456789S", "000000001S", "000000000n", "0000000001H", "+1S", "-1S", " 1S", "1 S", "1S ", "1.5S", "0x1S", "1s", "1h", "١S", "1SS", "1e2S"},
	"Connect-Timeout-Ms": {"-5", "x", "1.5", "+5", " 5", "5 ", "0x10", "1e3", "5ms", "١", "00000000001", "12345678901"},
	"X-Server-Timeout": {"abc", "-5", "-0.5", "NaN", "Inf", "+Inf", "-Inf", "0x10", "1s", " 1", "1 ", "1,5", "1_000", "0x1p-2", "--1", "١",
		// negative or hexadecimal AND beyond float64: the range error must not pre-empt the sign / syntax check
		"-1e400", "-1E+999", "-9e99999", "-1e309", "0x1p99999", "-0x1p99999", "-Infinity", "-inf", "nan", "infinity", "-1e300", "-1.5e2"},
}

type c12Target struct {
	name   string
	form   wire.Form
	header string
	parse  func(string) (reftimeout.Timeout, reftimeout.Validity)
}

var c12Targets = []c12Target{
	{"connect", wire.ConnectUnary, "Connect-Timeout-Ms", reftimeout.ParseConnect},
	{"grpc", wire.GRPC, "Grpc-Timeout", reftimeout.ParseGRPC},
	{"grpc-web", wire.GRPCWeb, "Grpc-Timeout", reftimeout.ParseGRPC},
	{"rest", wire.REST, "X-Server-Timeout", reftimeout.ParseREST},
}

var eightHours = big.NewInt(8 * 3600e9)

// c12Verdict is the judgement of one dispatched request with a valid client timeout.
type c12Verdict struct {
	clause, class, detail, outcome string
	nontrivial                     bool
}

// c12Judge compares the client's timeout T with the header the backend was handed (exact
// rational arithmetic). It is shared by the end-to-end enumeration and by the function-level
// sweep of the thorough tier.
func c12Judge(T reftimeout.Timeout, tg c12Target, got string, gotPresent bool) (v c12Verdict) {
	if !gotPresent || got == "" {
		// absent: acceptable only beyond the practical range (the 8 h the code names) or
		// beyond what the target can express
		if T.NS.Cmp(eightHours) > 0 {
			v.outcome = "dropped-unbounded"
			return v
		}
		v.class, v.clause = "dropped", "C12.deadline-extended"
		v.detail = fmt.Sprintf("client timeout %s ns was dropped (backend has no deadline)", T.NS)
		return v
	}
	B, bv := tg.parse(got)
	if bv == reftimeout.Malformed {
		v.class, v.clause = "malformed-output", "C12.backend-timeout-malformed"
		v.detail = fmt.Sprintf("backend header %s=%q is not valid in the target's grammar", tg.header, got)
		return v
	}
	if T.Unit.Cmp(B.Unit) != 0 || T.NS.Cmp(B.NS) != 0 {
		v.nontrivial = true
	}
	// B <= T (REST: decimal seconds come from a float64; allow its representation error)
	slack := big.NewInt(0)
	if tg.form == wire.REST {
		slack = new(big.Int).Rsh(T.NS, 52)
		slack.Add(slack, big.NewInt(1))
	}
	if B.Rat().Cmp(new(big.Rat).Add(T.Rat(), new(big.Rat).SetInt(slack))) > 0 {
		v.class, v.clause = "extended", "C12.deadline-extended"
		v.detail = fmt.Sprintf("backend deadline %s ns exceeds the client's %s ns", B.NS, T.NS)
		return v
	}
	// T - B < unit of B's encoding, unless T is beyond what the target can express (clamped)
	diff := new(big.Rat).Sub(T.Rat(), B.Rat())
	unit := B.Unit
	if tg.form == wire.REST {
		unit = new(big.Int).Add(big.NewInt(1), slack)
	}
	if diff.Cmp(new(big.Rat).SetInt(unit)) >= 0 {
		clampOK := false
		switch tg.form {
		case wire.ConnectUnary:
			clampOK = got == "9999999999"
		case wire.GRPC, wire.GRPCWeb:
			clampOK = strings.HasPrefix(got, "99999999")
		}
		if !clampOK && T.NS.Cmp(eightHours) <= 0 || !clampOK && B.NS.Cmp(eightHours) < 0 {
			v.class, v.clause = "shortened", "C12.deadline-shortened-beyond-rounding"
			v.detail = fmt.Sprintf("backend deadline %s ns falls short of the client's %s ns by %s ns (>= rounding unit %s ns)", B.NS, T.NS, diff.FloatString(3), unit)
			return v
		}
	}
	v.outcome = "propagated:" + tg.name
	return v
}

func c12Run(c *xplor.Ctx, cl c12Client, tg c12Target, value string, present bool) (be *world.Backend, ex *world.Exchange, ok bool) {
	method := "Unary"
	if cl.form == wire.ConnectStream {
		method = "SStream"
		if tg.form == wire.REST {
			return nil, nil, false // no streaming method of the schema has a plain-JSON REST binding
		}
	}
	if cl.form == wire.ConnectGet || cl.form == wire.REST {
		method = "Pure"
	}
	// force a real conversion: the target accepts only a codec the client does not use
	clientCodec, tgtCodec := "json", "proto"
	if tg.form == wire.REST || cl.form == wire.REST {
		clientCodec, tgtCodec = "proto", "json"
	}
	if cl.form == wire.REST {
		clientCodec = "json"
		tgtCodec = "proto"
		if tg.form == wire.REST {
			return nil, nil, false // REST -> REST is a pass-through
		}
	}
	p := Pairing{Name: cl.name + ">" + tg.name, Client: cl.form, ClientCodec: clientCodec, Method: method, Target: tg.form, TgtCodecs: []string{tgtCodec}}
	if cl.form == wire.REST {
		p.RESTMethod, p.RESTTarget = "GET", "/v1/pure/x?num=1"
	}
	// the server's own request context may carry a deadline (http.TimeoutHandler, a
	// context.WithTimeout middleware): that is not the client's timeout
	var cancel context.CancelFunc
	sctx := context.Background()
	if d := c.Free("server-context-deadline", 3); d > 0 {
		sctx, cancel = context.WithTimeout(sctx, []time.Duration{time.Hour, 10 * time.Second}[d-1])
		defer cancel()
		c.Attr("~server-context-deadline", []string{"1h", "10s"}[d-1])
	}
	r := p.run(runOpts{Spec: func(s *drive.ReqSpec) {
		if present {
			s.Header[cl.header] = []string{value}
		}
		s.Ctx = sctx
	}})
	if r.Err != nil {
		c.Fail("harness.setup", "%v", r.Err)
		return nil, nil, false
	}
	return r.Backend, r.Ex, true
}

// c12CheckOne runs one request end to end and judges what the backend was handed.
func c12CheckOne(c *xplor.Ctx, cl c12Client, tg c12Target, value string, present bool) (got string, gotPresent, dispatched bool) {
	c.Attr("~value", value)
	be, ex, ok := c12Run(c, cl, tg, value, present)
	if !ok {
		c.Skip()
		return got, gotPresent, be != nil && be.Calls == 1
	}
	if be.Seen != nil {
		vs := be.Seen.Header.Values(tg.header)
		gotPresent = len(vs) > 0
		if gotPresent {
			got = vs[0]
		}
	}
	desc := fmt.Sprintf("%s: %q -> %s target; backend calls=%d, backend %s=%q (present=%v), client status %d", cl.header, value, tg.name, be.Calls, tg.header, got, gotPresent, ex.Rec.Status)
	if !present {
		c.Outcome("absent")
		if be.Calls != 1 {
			c.Fail("harness.base-not-ok", "request without timeout not dispatched: %s", desc)
			return got, gotPresent, be != nil && be.Calls == 1
		}
		for _, h := range []string{"Grpc-Timeout", "Connect-Timeout-Ms", "X-Server-Timeout"} {
			if len(be.Seen.Header.Values(h)) > 0 {
				c.Fail("C12.timeout-invented", "request without a timeout reached the backend with %s=%q", h, be.Seen.Header.Get(h))
			}
		}
		return got, gotPresent, be != nil && be.Calls == 1
	}
	T, validity := cl.parse(value)
	if validity == reftimeout.Malformed {
		c.Fail("harness.alphabet", "value %q for %s is not valid under the reference grammar", value, cl.header)
		return got, gotPresent, be != nil && be.Calls == 1
	}
	rejected := be.Calls == 0 && ex.Rec.Status >= 400 && ex.Rec.Status < 500
	if rejected {
		if validity == reftimeout.Valid {
			c.Attr("class", "valid-rejected")
			c.Fail("C12.valid-timeout-rejected", "syntactically valid timeout rejected: %s", desc)
		}
		c.Outcome("rejected")
		return got, gotPresent, be != nil && be.Calls == 1
	}
	if be.Calls != 1 {
		c.Fail("C12.valid-timeout-rejected", "request with timeout not dispatched and not cleanly rejected: %s", desc)
		return got, gotPresent, be != nil && be.Calls == 1
	}
	v := c12Judge(T, tg, got, gotPresent)
	if v.nontrivial {
		c.Nontrivial(fmt.Sprintf("%s|%s|%s", cl.name, tg.name, value))
	}
	if v.clause != "" {
		c.Attr("class", v.class)
		c.Fail(v.clause, "%s: %s", v.detail, desc)
		return got, gotPresent, be != nil && be.Calls == 1
	}
	c.Outcome(v.outcome)
	return got, gotPresent, true
}

func init() {
	gv, cv, rv := grpcValues(), connectValues(), restValues()
	valuesFor := func(h string) []string {
		switch h {
		case "Grpc-Timeout":
			return gv
		case "Connect-Timeout-Ms":
			return cv
		}
		return rv
	}
	valid := func(c *xplor.Ctx) {
		cl := c12Clients[c.Free("client", len(c12Clients))]
		tg := c12Targets[c.Free("target", len(c12Targets))]
		vals := valuesFor(cl.header)
		vi := c.Free("value", len(vals)+1)
		c.Attr("client", cl.name)
		c.Attr("target", tg.name)
		present := vi > 0
		value := ""
		if present {
			value = vals[vi-1]
		}
		c12CheckOne(c, cl, tg, value, present)
	}
	malformed := func(c *xplor.Ctx) {
		cl := c12Clients[c.Free("client", len(c12Clients))]
		tg := c12Targets[c.Free("target", len(c12Targets))]
		vals := c12Malformed[cl.header]
		value := vals[c.Free("value", len(vals))]
		c.Attr("client", cl.name)
		c.Attr("target", tg.name)
		c.Attr("~value", value)
		if _, v := cl.parse(value); v != reftimeout.Malformed {
			c.Skip()
			return
		}
		be, ex, ok := c12Run(c, cl, tg, value, true)
		if !ok {
			c.Skip()
			return
		}
		c.Nontrivial(cl.name + "|" + tg.name + "|malformed|" + value)
		if be.Calls != 0 || ex.Rec.Status < 400 || ex.Rec.Status > 499 {
			c.Attr("class", "malformed-accepted")
			c.Fail("C12.malformed-timeout-accepted", "%s: %q is malformed but: backend calls=%d, client status=%d, backend saw %s", cl.header, value, be.Calls, ex.Rec.Status, func() string {
				if be.Seen == nil {
					return "-"
				}
				return drive.CanonHeader(http.Header{"Grpc-Timeout": be.Seen.Header.Values("Grpc-Timeout"), "Connect-Timeout-Ms": be.Seen.Header.Values("Connect-Timeout-Ms"), "X-Server-Timeout": be.Seen.Header.Values("X-Server-Timeout")})
			}())
			return
		}
		c.Outcome("malformed-rejected")
	}
	Register(&Check{
		ID:    "C12",
		Level: "exploration",
		Rule: "Every client form that carries a timeout (gRPC, gRPC-Web, Connect unary POST/GET, Connect streaming, REST) x every target protocol (with a forced codec conversion so the request is really transcoded) x " +
			"every value of the bounded domain: Grpc-Timeout 0..999 and 10^k-1/10^k/10^k+1 (k<=8), leading zeros, unit-switch boundaries, in all six units; Connect-Timeout-Ms 0..1000, digit-count boundaries to 10 digits and beyond; " +
			"X-Server-Timeout integers, fractions to 1 ns, exponent forms; the absent header; and a malformed alphabet per header. Oracle: exact big-integer nanosecond comparison against an independent grammar. " +
			"Non-trivial = distinct (client, target, value) where the unit changes or rounding occurs.",
		Assume: []string{"values with more than 10 Connect digits and exponent/sign forms of X-Server-Timeout are not judged (grammar silent)", "a dropped timeout is accepted only above 8 h (the practical range the code names)",
			"decimal-seconds output is compared modulo float64 representation error (2^-52 relative + 1 ns)"},
		Scenarios: []Scenario{
			{Name: "valid-values", Fn: valid, QuickBound: 0, ThoroughBound: 0},
			{Name: "malformed-values", Fn: malformed, QuickBound: 0, ThoroughBound: 0},
			// run by c12Custom (after the function-level answers for the samples are known)
			{Name: "sweep-samples-end-to-end", Fn: c12SampleScenario, QuickBound: -1, ThoroughBound: -1},
		},
		Custom:      c12Custom,
		MinOutcomes: 5,
	})
}
