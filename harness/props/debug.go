package props

// DebugPanic makes scenario helpers print the stack of a ServeHTTP panic.
var DebugPanic bool
