package props

import (
	"fmt"
	"net/http"
	"os"
	"strings"

	"connectrpc.com/vanguard"
	"google.golang.org/protobuf/proto"
	"google.golang.org/protobuf/types/known/durationpb"
	"google.golang.org/protobuf/types/known/wrapperspb"

	"connectrpc.com/vanguard/verifharness/wire"
	"connectrpc.com/vanguard/verifharness/world"
	"connectrpc.com/vanguard/verifharness/xplor"
)

// C04 — RPC errors keep their code, message and details across protocols.

type c04Code struct {
	code int
	str  string // literal for codes that are not plain in-range numbers
}

var c04Codes = func() []c04Code {
	out := []c04Code{{5, ""}}
	for i := 1; i <= 16; i++ {
		if i != 5 {
			out = append(out, c04Code{i, ""})
		}
	}
	return append(out, c04Code{17, ""}, c04Code{18, ""}, c04Code{99, ""}, c04Code{2147483647, ""}, c04Code{4294967295, ""},
		// an error whose code is not a code at all: a name nobody knows, and (Connect only) no code member
		c04Code{99, "bogus_code"}, c04Code{99, wire.OmitCode})
}()

var c04Messages = []string{"plain message", "", "100% sure", "a%zzb%", "line1\r\nline2\ttab", `quote " and \ backslash`, "fiancée ≠ 😀", "1+1=2 & a=b; c", "all ASCII punctuation !\"#$%&'()*+,-./:;<=>?@[\\]^_`{|}~ and é together", strings.TrimSpace(strings.Repeat("long ", 60))}

func mustAny(m proto.Message) wire.Detail {
	b, _ := proto.MarshalOptions{Deterministic: true}.Marshal(m)
	return wire.Detail{TypeURL: "type.googleapis.com/" + string(m.ProtoReflect().Descriptor().FullName()), Value: b}
}

var c04Details = [][]wire.Detail{
	nil,
	{mustAny(wrapperspb.String("detail é"))},
	{mustAny(durationpb.New(1500000000)), mustAny(wrapperspb.Int64(-7))},
	{{TypeURL: "type.googleapis.com/acme.Unknown", Value: []byte{0x0a, 0x01, 0x78}}},
}

func detailsEqual(a, b []wire.Detail) bool {
	if len(a) != len(b) {
		return false
	}
	for i := range a {
		if a[i].TypeURL != b[i].TypeURL || string(a[i].Value) != string(b[i].Value) {
			return false
		}
	}
	return true
}

func init() {
	relay := func(c *xplor.Ctx) {
		b := &mxBase{}
		b.Client = mxClients[c.Free("client", len(mxClients))]
		tp := allProtoOrder[c.Free("target-protocol", 4)]
		b.TgtProtos = []vanguard.Protocol{tp}
		if tp == vanguard.ProtocolREST && noRESTBinding(b.Client.method) {
			c.Skip()
			return
		}
		b.ClientCodec = "proto"
		if b.Client.form == wire.REST {
			b.ClientCodec = "json"
		}
		if c.Free("codec-relation", 2) == 0 {
			b.TgtCodecs = []string{b.ClientCodec}
		} else {
			b.TgtCodecs = []string{map[string]string{"proto": "json", "json": "proto"}[b.ClientCodec]}
		}
		if world.FormToProtocol(b.Client.form) == tp && b.TgtCodecs[0] == b.ClientCodec {
			c.Skip() // pass-through: nothing is transcoded
			return
		}
		b.key = fmt.Sprintf("%s|%s|tp=%s|tc=%s", b.Client.name, b.ClientCodec, tp, b.TgtCodecs[0])
		c.Attr("client", b.Client.name)
		c.Attr("target", tp.String())
		code := c04Codes[c.Choose("code", len(c04Codes))]
		msg := c04Messages[c.Choose("message", len(c04Messages))]
		det := c04Details[c.Choose("details", len(c04Details))]
		if code.str == wire.OmitCode && tp != vanguard.ProtocolConnect {
			c.Skip() // only a Connect error object can lack its code
			return
		}
		pos := 0
		if b.Client.shape == "server" || b.Client.shape == "bidi" {
			pos = c.Choose("position", 3)
		}
		if tp == vanguard.ProtocolREST && len(det) == 1 && strings.Contains(det[0].TypeURL, "acme.Unknown") {
			c.Skip() // a REST backend cannot even express a detail of a type nobody knows (JSON Any)
			return
		}
		req, resp := defaultMsgs(b.Client.shape)
		if b.Client.form == wire.REST && b.Client.method == "Idem" {
			req = []proto.Message{MkMsg(restIdemAlphabet[0])}
		}
		end := &wire.End{Code: code.code, CodeStr: code.str, Message: msg, Details: det}
		if len(det) > 0 && tp != vanguard.ProtocolREST && c.Choose("base64-padding", 2) == 1 {
			end.PadBase64 = true // (legal: readers of both protocols must accept padded base64)
			c.Attr("~base64", "padded")
		}
		detailsDisagree := false
		if (tp == vanguard.ProtocolGRPC || tp == vanguard.ProtocolGRPCWeb) && len(det) > 0 && code.code <= 16 {
			// the google.rpc.Status inside grpc-status-details-bin names another code than grpc-status (0, or 3)
			if dc := c.Choose("details-bin-status-code", 3); dc > 0 {
				end.DetailsCodeSet, end.DetailsCode = true, []int32{0, 3}[dc-1]
				detailsDisagree = int(end.DetailsCode) != code.code
				c.Attr("~details-bin-code", fmt.Sprint(end.DetailsCode))
			}
		}
		if (tp == vanguard.ProtocolGRPC || tp == vanguard.ProtocolGRPCWeb) && len(det) > 0 && msg != "" && !detailsDisagree && c.Choose("grpc-message-omitted", 2) == 1 {
			// Grpc-Message is optional; with details, the complete status (code, message, details) is the
			// google.rpc.Status in Grpc-Status-Details-Bin, and a server may leave the header out
			end.OmitGrpcMessage = true
			c.Attr("~grpc-message", "omitted (message only in the binary status)")
		}
		if (tp == vanguard.ProtocolGRPC || tp == vanguard.ProtocolGRPCWeb) && len(det) == 0 && (msg == "100% sure" || msg == "a%zzb%") && c.Choose("grpc-message-not-percent-encoded", 2) == 1 {
			// a peer that writes the message without percent-encoding it: the '%' does not start an
			// escape. Readers must not fail on that, let alone lose the status.
			end.RawGrpcMessage = true
			c.Attr("~grpc-message", "raw '%' (not percent-encoded)")
		}
		call := &mxCall{Base: b, ReqMsgs: req, RespMsgs: resp[:min(pos, len(resp))], End: end, TrailersOnly: pos == 0, Lenient: true}
		if pos == 0 && c.Choose("compressed-error", 2) == 1 {
			// the backend compresses what carries its error (error body of a flat protocol,
			// end-of-stream / trailer frame of an enveloped one) with a compression the request advertised
			call.Accept, call.RespComp, call.CompressEnd = []string{"gzip"}, "auto", true
			c.Attr("~error-compressed", "true")
		}
		// what real servers do with the head of an error response: declare the length of the
		// (small) body, and label JSON with a charset parameter
		declareCL := c.Choose("declare-content-length", 2) == 1
		ctParam := c.Choose("content-type-parameter", 3)
		if declareCL || ctParam > 0 {
			c.Attr("~head", fmt.Sprintf("content-length-declared=%v content-type-parameter=%d", declareCL, ctParam))
			prev := call.Mutate
			call.Mutate = func(sr *wire.ServerResp, rep *world.Reply) {
				if prev != nil {
					prev(sr, rep)
				}
				if sr != nil || rep.Out == nil {
					return
				}
				if declareCL {
					rep.HasCL, rep.ContentLength = true, int64(len(rep.Out.Body))
				}
				if ct := rep.Out.Header.Get("Content-Type"); ctParam > 0 && ct == "application/json" {
					rep.Out.Header.Set("Content-Type", ct+[]string{"", "; charset=utf-8", ";charset=UTF-8"}[ctParam])
				}
			}
		}
		if tp == vanguard.ProtocolGRPCWeb {
			// the status travels in a trailer frame (not in the head) in one of the legal spellings of a header line
			if sp := c.Choose("trailer-frame-spelling", 5); sp > 0 {
				call.TrailersOnly = false
				call.Mutate = func(sr *wire.ServerResp, rep *world.Reply) {
					if sr != nil {
						sr.TrailerSpelling = sp - 1
					}
				}
				c.Attr("~trailer-frame", []string{"k: v", "k:v", "k:  v  ", "k:<TAB>v"}[sp-1])
			}
		}
		if (tp == vanguard.ProtocolGRPC || tp == vanguard.ProtocolGRPCWeb) && call.TrailersOnly {
			// a complete RPC status in the response head, under an HTTP status other than 200
			// (proxies and some servers do that): the backend's own status is what ended the RPC
			if hs := c.Choose("http-status-of-trailers-only", 4); hs > 0 {
				st := []int{503, 429, 403}[hs-1]
				prev := call.Mutate
				call.Mutate = func(sr *wire.ServerResp, rep *world.Reply) {
					if prev != nil {
						prev(sr, rep)
					}
					if sr == nil && rep.Out != nil {
						rep.Out.Status = st
					}
				}
				c.Attr("~head-status", fmt.Sprint(st))
			}
		}
		obs := call.run()
		if obs.Err != nil {
			c.Fail("harness.setup", "%v", obs.Err)
			return
		}
		class := "in-range"
		if code.code > 16 {
			class = "out-of-range"
		}
		c.Attr("code-class", class)
		desc := func() string {
			return fmt.Sprintf("%s: backend ends with code=%d message=%q details=%d after %d message(s)\n client: %s", b.key, code.code, msg, len(det), pos, short(semClient(b.Client.form, obs.Ex, world.MsgDesc())))
		}
		if obs.Ex.Panic != nil {
			c.Attr("panic", firstLine(obs.Ex.Panic.Value))
			c.Fail("C04.panic", "ServeHTTP panicked: %s\n%s\n%s", obs.Ex.Panic.Value, stackTop(obs.Ex.Panic.Stack), desc())
			return
		}
		if c.Replay {
			fmt.Fprintf(os.Stderr, "REPLAY backend reply head=%v body=%x trailers=%v\n client head=%v body=%x trailers=%v\n", obs.SrvRespOut().Header, obs.SrvRespOut().Body, obs.SrvRespOut().Trailer, obs.Ex.Rec.Snapshot, obs.Ex.Rec.BodyBytes.Bytes(), obs.Ex.Rec.Trailers)
		}
		if obs.Backend.Calls != 1 {
			c.Fail("harness.base-not-ok", "backend not invoked: %s", desc())
			return
		}
		cr := obs.CResp
		if cr.OK() {
			c.Fail("C04.error-became-success", "the backend's error surfaced as success\n%s", desc())
			return
		}
		status := obs.Ex.Rec.Status
		flatClient := !b.Client.form.Enveloped()
		if code.code > 16 {
			// relayed unchanged, or mapped to a server error
			relayed := cr.End.Code == code.code
			mapped := (cr.End.Code == 2 || cr.End.Code == 13) && (!flatClient || status >= 500)
			if !relayed && !mapped {
				c.Fail("C04.out-of-range-code-mishandled", "code %d was neither relayed nor mapped to unknown/internal: client saw code %d (%q), HTTP %d\n%s", code.code, cr.End.Code, cr.End.CodeStr, status, desc())
			}
			if flatClient && relayed && status < 500 && !cr.BareHTTP {
				c.Fail("C04.out-of-range-code-mishandled", "code %d relayed with HTTP status %d (expected a server error status)\n%s", code.code, status, desc())
			}
			c.Outcome("out-of-range")
			c.Nontrivial(fmt.Sprintf("%s|%d|%d|%s", b.key, code.code, pos, "oor"))
			return
		}
		if cr.BareHTTP {
			c.Fail("C04.error-not-in-client-protocol", "client received a bare HTTP %d instead of an error in its protocol\n%s", status, desc())
			return
		}
		if detailsDisagree {
			// which of the two codes wins is not prescribed; that it is an error (checked above) is
			c.Outcome("details-disagree")
			return
		}
		if cr.End.Code != code.code {
			c.Fail("C04.code-changed", "backend code %s, client saw %s\n%s", wire.CodeName(code.code), wire.CodeName(cr.End.Code), desc())
		}
		if cr.End.Message != msg {
			c.Fail("C04.message-changed", "backend message %q, client saw %q\n%s", msg, cr.End.Message, desc())
		}
		unknownToREST := b.Client.form == wire.REST && len(det) == 1 && strings.Contains(det[0].TypeURL, "acme.Unknown")
		if unknownToREST && len(cr.End.Details) == 0 {
			// JSON cannot carry a detail whose type nobody knows; dropping it (only it) is accepted
		} else if !detailsEqual(cr.End.Details, det) {
			c.Fail("C04.details-changed", "backend details %v, client saw %v\n%s", det, cr.End.Details, desc())
		}
		if flatClient && status != wire.HTTPStatusFromCode(code.code) {
			c.Fail("C04.http-status-wrong", "code %s prescribes HTTP %d for this client protocol, got %d\n%s", wire.CodeName(code.code), wire.HTTPStatusFromCode(code.code), status, desc())
		}
		for _, cm := range cr.Complaints {
			c.Fail("C04."+cm.Clause, "%s\n%s", cm.Detail, desc())
		}
		c.Nontrivial(fmt.Sprintf("%s|%d|%d|%q|%d", b.key, code.code, pos, msg, len(det)))
		c.Outcome("relayed-" + wire.CodeName(code.code))
	}
	// ---- bare HTTP failures from each backend protocol
	unaryClients := []int{0, 1, 5, 9, 13, 14}
	bodies := []string{"", "{}", `{"code":0}`, `{"code":"ok"}`, "<html>gateway</html>", `{"code":"resource_exhausted","message":"m"}`, `{"code":8,"message":"m"}`}
	bare := func(c *xplor.Ctx) {
		b := &mxBase{}
		b.Client = mxClients[unaryClients[c.Free("client", len(unaryClients))]]
		tp := allProtoOrder[c.Free("target-protocol", 4)]
		b.TgtProtos = []vanguard.Protocol{tp}
		b.ClientCodec = "proto"
		if b.Client.form == wire.REST {
			b.ClientCodec = "json"
		}
		b.TgtCodecs = []string{map[string]string{"proto": "json", "json": "proto"}[b.ClientCodec]}
		if b.Client.form == wire.REST && tp == vanguard.ProtocolREST {
			c.Skip() // REST -> REST is forwarded untouched (C13)
			return
		}
		b.key = fmt.Sprintf("%s|tp=%s", b.Client.name, tp)
		c.Attr("client", b.Client.name)
		c.Attr("target", tp.String())
		status := 300 + c.Free("status", 300)
		bi := c.Free("body", len(bodies))
		body := bodies[bi]
		c.Attr("body-kind", []string{"empty", "empty-object", "code-0", "code-ok", "html", "connect-error", "rpc-status"}[bi])
		req, _ := defaultMsgs("unary")
		ct := "application/json"
		if bi == 4 {
			ct = "text/html"
		}
		call := &mxCall{Base: b, ReqMsgs: req, Lenient: true, RawReply: func(bk *world.Backend, r *http.Request) *world.Reply {
			h := http.Header{}
			if body != "" {
				h.Set("Content-Type", ct)
			}
			return &world.Reply{Out: &wire.ServerOut{Status: status, Header: h, Body: []byte(body)}, ContentLength: -1, ReturnAfter: -1}
		}}
		obs := call.run()
		if obs.Err != nil {
			c.Fail("harness.setup", "%v", obs.Err)
			return
		}
		desc := func() string {
			return fmt.Sprintf("%s: backend answers HTTP %d, content-type %q, body %q\n client: %s", b.key, status, ct, body, short(semClient(b.Client.form, obs.Ex, world.MsgDesc())))
		}
		if obs.Ex.Panic != nil {
			c.Attr("panic", firstLine(obs.Ex.Panic.Value))
			c.Fail("C04.panic", "ServeHTTP panicked: %s\n%s\n%s", obs.Ex.Panic.Value, stackTop(obs.Ex.Panic.Stack), desc())
			return
		}
		if obs.Backend.Calls != 1 {
			c.Fail("harness.base-not-ok", "backend not invoked: %s", desc())
			return
		}
		cr := obs.CResp
		if cr.OK() {
			c.Fail("C04.http-failure-became-success", "a non-2xx backend response surfaced as success\n%s", desc())
			return
		}
		// which code? a well-formed error of the backend's own protocol speaks for itself
		want := wire.CodeFromHTTPStatus(status)
		if (tp == vanguard.ProtocolConnect && bi == 5) || (tp == vanguard.ProtocolREST && bi == 6) {
			want = 8
		}
		if cr.End.Code != want && !cr.BareHTTP {
			c.Fail("C04.http-status-mapped-wrongly", "HTTP %d from the backend must surface as %s, client saw %s\n%s", status, wire.CodeName(want), wire.CodeName(cr.End.Code), desc())
		}
		if cr.BareHTTP {
			c.Fail("C04.error-not-in-client-protocol", "client received a bare HTTP %d instead of an error in its protocol\n%s", cr.Status, desc())
		}
		c.Nontrivial(fmt.Sprintf("%s|%d|%d", b.key, status, bi))
		c.Outcome("bare-" + wire.CodeName(cr.End.Code))
	}
	Register(&Check{
		ID:    "C04",
		Level: "exploration",
		Rule: "Error relay: 16 client form/method cells x 4 backend protocols x {same, different} codec, crossed with every combination up to D of code (1..16, 17, 18, 99, 2^31-1, 2^32-1), message (9 values needing percent/JSON escaping, empty, 300 chars), details (none, one, two, unknown type) and position (trailers-only, after 1, after 2 messages). " +
			"Bare failures: every HTTP status 300..599 from each of the 4 backend protocols to each of 6 unary client forms with 7 failure bodies (exhaustive). Non-trivial = distinct (pairing, code, position, message, details) ending non-OK.",
		Assume: []string{"out-of-range codes may be relayed or mapped to unknown/internal", "a REST backend cannot express details of unknown types"},
		Scenarios: []Scenario{
			{Name: "relay", Fn: relay, QuickBound: 2, ThoroughBound: 4},
			{Name: "bare-http", Fn: bare, QuickBound: 0, ThoroughBound: 0},
		},
		MinOutcomes: 10,
	})
}
