package props

import (
	"context"
	"fmt"
	"net/http"
	"reflect"
	"strings"

	"connectrpc.com/vanguard"

	"connectrpc.com/vanguard/verifharness/drive"
	"connectrpc.com/vanguard/verifharness/wire"
	"connectrpc.com/vanguard/verifharness/world"
	"connectrpc.com/vanguard/verifharness/xplor"
)

// C13 — pass-through and unknown-endpoint requests are forwarded untouched.

type c13Down struct {
	calls int
	seen  *drive.Seen
	url   string
	w     http.ResponseWriter
	reply int
	// Request.Trailer as seen before and after the body was read to its end
	trailerBefore, trailerAfter http.Header
}

var c13Replies = []string{"plain-200", "status-418+headers", "trailers-both-styles", "flush-between-writes", "no-write", "content-length+body", "status-204"}

func (d *c13Down) ServeHTTP(w http.ResponseWriter, r *http.Request) {
	d.calls++
	d.seen = drive.Capture(r)
	d.trailerBefore = d.seen.TrailerAfterBody()
	d.seen.ReadBody(r.Body, []int{7})
	d.trailerAfter = d.seen.TrailerAfterBody()
	d.w = w
	h := w.Header()
	switch c13Replies[d.reply] {
	case "plain-200":
		_, _ = w.Write([]byte("hello"))
	case "status-418+headers":
		h.Set("Content-Type", "application/grpc+weird")
		h.Add("Grpc-Status", "7")
		h.Add("X-Multi", "a")
		h.Add("X-Multi", "b")
		h["x-raw-lower"] = []string{"v"}
		h.Set("Content-Encoding", "nope")
		w.WriteHeader(418)
		_, _ = w.Write([]byte{0, 1, 2, 0xff})
	case "trailers-both-styles":
		h.Set("Trailer", "X-Declared")
		h.Set("Content-Type", "application/grpc")
		w.WriteHeader(200)
		_, _ = w.Write([]byte{0, 0, 0, 0, 0})
		h.Set("X-Declared", "d")
		h.Set(http.TrailerPrefix+"Grpc-Status", "0")
		h.Set(http.TrailerPrefix+"X-Prefixed", "p")
	case "flush-between-writes":
		_, _ = w.Write([]byte("a"))
		w.(http.Flusher).Flush()
		_, _ = w.Write([]byte("b"))
		w.(http.Flusher).Flush()
	case "no-write":
	case "content-length+body":
		h.Set("Content-Length", "3")
		_, _ = w.Write([]byte("abc"))
	case "status-204":
		w.WriteHeader(204)
	}
}

func c13Expected(reply int) (status int, hdr string, body string, trailers string, flushes int) {
	rec := drive.NewRecorder()
	d := &c13Down{reply: reply}
	req, _ := (&drive.ReqSpec{Method: "GET", Target: "/", NoBody: true}).Build(context.Background())
	d.ServeHTTP(rec, req)
	rec.Finish()
	return rec.Status, drive.CanonHeader(rec.Snapshot), rec.BodyBytes.String(), drive.CanonHeader(rec.Trailers), len(rec.Flushes)
}

type c13Hdr struct {
	k string
	v []string
}

var c13Headers = []c13Hdr{
	{"X-App", []string{"v"}}, {"X-Multi", []string{"a", "b"}}, {"x-raw-lower", []string{"v"}}, {"Authorization", []string{"Bearer x"}},
	{"Grpc-Timeout", []string{"1S"}}, {"Connect-Timeout-Ms", []string{"50"}}, {"X-Server-Timeout", []string{"2.5"}}, {"Grpc-Encoding", []string{"identity"}},
	{"Grpc-Accept-Encoding", []string{"gzip", "nope"}}, {"Connect-Accept-Encoding", []string{"gzip"}}, {"Accept-Encoding", []string{"gzip, br"}},
	{"Content-Encoding", []string{"identity"}}, {"Te", []string{"trailers"}}, {"Trailer", []string{"X-T"}}, {"Connect-Protocol-Version", []string{"1"}},
	{"Grpc-Status", []string{"3"}}, {"Trailer-X", []string{"y"}}, {"Foo-Bin", []string{"AAE"}}, {"Content-Length", []string{"999"}}, {"Accept", []string{"*/*"}},
	{"User-Agent", []string{"ua"}}, {"Grpc-Message-Type", []string{"x"}}, {"Connect-Content-Encoding", []string{"identity"}},
	{"Content-Type", []string{"text/html"}}, // (a second Content-Type line)
}

var c13Queries = []string{"", "a", "a=%zz", "a=b&a=c", "connect=v0", "x=%20+%2B", "encoding=proto", "message=abc", "connect=v1"}

var c13Bodies = [][]byte{nil, {0}, {0xff, 0xfe, 0xfd}, []byte("not a valid message at all"), {0, 0, 0, 0, 1}, {2, 0, 0, 0, 0}, []byte(strings.Repeat("z", 300))}

func init() {
	type clientKind struct {
		name   string
		form   wire.Form
		codec  string
		comp   string
		method string
	}
	kinds := []clientKind{
		{"connect-unary-proto", wire.ConnectUnary, "proto", "", "Unary"}, {"connect-unary-json-gzip", wire.ConnectUnary, "json", "gzip", "Unary"},
		{"connect-get", wire.ConnectGet, "proto", "", "Pure"}, {"connect-stream-json", wire.ConnectStream, "json", "", "Bidi"},
		{"grpc-proto", wire.GRPC, "proto", "", "Unary"}, {"grpc-json-gzip", wire.GRPC, "json", "gzip", "CStream"},
		{"grpcweb-proto", wire.GRPCWeb, "proto", "", "SStream"}, {"grpcweb-alt-rev", wire.GRPCWeb, "alt", "rev", "Unary"},
		{"rest-post", wire.REST, "json", "", "Unary"}, {"rest-get", wire.REST, "json", "", "Pure"}, {"rest-put-gzip", wire.REST, "json", "gzip", "Idem"},
	}
	type unmatched struct {
		name, method, target, ct string
		restOnly                 bool // service configured with REST as its only target protocol
	}
	unmatchedReqs := []unmatched{
		{"rest-class", "GET", "/no/such/path", "", false}, {"rest-class-post", "POST", "/v1/unary/extra", "application/json", false}, {"rpc-class-grpc", "POST", "/verif.v1.Svc/Nope", "application/grpc", false},
		{"rpc-class-connect", "POST", "/other.Svc/M", "application/connect+proto", false}, {"get-class", "GET", "/verif.v1.Svc/Nope?connect=v1&encoding=proto&message=", "", false},
		{"root", "GET", "/", "", false}, {"post-without-content-type", "POST", "/no/such/thing", "", false}, {"delete-without-content-type", "DELETE", "/other.Svc/M", "", false}, {"grpcweb-class", "POST", "/verif.v1.Svcx/Unary", "application/grpc-web+proto", false}, {"rest-weird-ct", "PUT", "/v9/x%2Fy/z", "text/plain", false},
		// media types are case-insensitive, but what the client sent is what the handler must see
		{"rest-class-ct-case", "POST", "/no/such/upload", "Application/JSON; Charset=UTF-8", false}, {"rest-class-multipart", "POST", "/no/such/form", "multipart/form-data; boundary=----WebKitFormBoundaryAbC123", false},
		{"grpcweb-class-ct-case", "POST", "/verif.v1.Svcx/Unary", "application/grpc-web+Proto", false}, {"rpc-class-connect-ct-case", "POST", "/other.Svc/M", "Application/Connect+Proto", false},
		// methods without a REST binding on a REST-only service: "not found" is only known late
		{"norule-grpc", "POST", "/verif.v1.Svc/NoRule", "application/grpc+proto", true}, {"norule-grpcweb", "POST", "/verif.v1.Svc/NoRule", "application/grpc-web+json", true},
		{"norule-connect-stream", "POST", "/verif.v1.Svc/CStream", "application/connect+proto", true}, {"norule-connect-unary", "POST", "/verif.v1.Svc/NoRule", "application/json", true},
	}
	scn := func(c *xplor.Ctx) {
		mode := c.Free("mode", 2) // 0 pass-through, 1 unknown endpoint
		down := &c13Down{}
		var spec *drive.ReqSpec
		cfg := world.Config{}
		var svc http.Handler = down
		if mode == 0 {
			k := kinds[c.Free("client", len(kinds))]
			c.Attr("mode", "pass-through")
			c.Attr("client", k.name)
			fam := world.FormToProtocol(k.form)
			cfg.Decoy = true // an earlier and a later service with other options: those are theirs alone
			defaults := k.form != wire.REST && k.codec != "alt" && (k.comp == "" || k.comp == "gzip")
			ts := c.Free("target-set", 4)
			if ts == 3 && !defaults {
				ts = 0
			}
			switch ts {
			case 3:
				// the service leaves every option unset: the library's defaults (Connect, gRPC, gRPC-Web;
				// proto and json; gzip) apply, whatever other services of the Transcoder were given
				c.Attr("~options", "all unset (defaults)")
			case 0:
				cfg.Protocols = []vanguard.Protocol{fam}
			case 1:
				cfg.Protocols = []vanguard.Protocol{vanguard.ProtocolConnect, vanguard.ProtocolGRPC, vanguard.ProtocolGRPCWeb, vanguard.ProtocolREST}
			case 2:
				other := vanguard.ProtocolGRPC
				if fam == other {
					other = vanguard.ProtocolConnect
				}
				cfg.Protocols = []vanguard.Protocol{other, fam}
			}
			cs := c.Free("codec-set", 2)
			if ts == 3 {
				cs = 2
			}
			switch cs {
			case 0:
				cfg.Codecs = []string{k.codec}
				if k.form == wire.REST {
					cfg.Codecs = []string{"json"}
				}
			case 1:
				cfg.Codecs = []string{"alt", "proto", "json"}
			}
			if ts != 3 {
				cfg.Compression = []string{"gzip", "rev"}
			}
			if k.form == wire.REST {
				switch k.name {
				case "rest-post":
					spec = &drive.ReqSpec{Method: "POST", Target: "/v1/unary", Header: http.Header{"Content-Type": {"application/json"}}, ContentLength: -1, Body: drive.NewBody([]byte(`{"name":"a"}`))}
				case "rest-get":
					spec = &drive.ReqSpec{Method: "GET", Target: "/v1/pure/x?num=1", Header: http.Header{}, ContentLength: -1, NoBody: true}
				case "rest-put-gzip":
					spec = &drive.ReqSpec{Method: "PUT", Target: "/v1/idem/k", Header: http.Header{"Content-Type": {"application/json"}, "Content-Encoding": {"gzip"}}, ContentLength: -1, Body: drive.NewBody(wire.GzipCompress([]byte(`{"name":"a"}`)))}
				}
			} else {
				cr := &wire.ClientReq{Form: k.form, Path: world.SvcPath + k.method, Codec: k.codec, Compression: k.comp, Msgs: [][]byte{Enc(k.codec, MkMsg(`{"name":"a"}`))}}
				spec = world.SpecFromClient(cr)
			}
		} else {
			u := unmatchedReqs[c.Free("unmatched", len(unmatchedReqs))]
			c.Attr("mode", "unknown-endpoint")
			c.Attr("client", u.name)
			spec = &drive.ReqSpec{Method: u.method, Target: u.target, Header: http.Header{}, ContentLength: -1}
			if u.ct != "" {
				spec.Header.Set("Content-Type", u.ct)
			}
			if u.method == "GET" {
				spec.NoBody = true
			} else {
				spec.Body = drive.NewBody([]byte("xyz"))
			}
			cfg.Unknown = down
			if u.restOnly {
				cfg.Protocols = []vanguard.Protocol{vanguard.ProtocolREST}
				spec.ProtoMajor = 2
				if u.ct == "application/grpc+proto" {
					spec.Header.Set("Te", "trailers")
				}
				if u.name == "norule-connect-unary" {
					spec.Header.Set("Connect-Protocol-Version", "1")
				}
			}
			svc = http.HandlerFunc(func(http.ResponseWriter, *http.Request) { down.calls += 100 })
		}
		// deviations
		strips := 0
		for i := 0; i < 2; i++ {
			hch := c.Choose(fmt.Sprintf("hdr%d", i), len(c13Headers)+1)
			if hch == 0 {
				break
			}
			h := c13Headers[hch-1]
			if spec.Header[h.k] != nil && (h.k == "Te" || h.k == "Connect-Protocol-Version") {
				continue
			}
			if h.k == "Content-Length" && spec.Body == nil {
				continue
			}
			if strings.Contains(h.k, "Timeout") || strings.Contains(h.k, "Encoding") || h.k == "Te" || h.k == "Content-Length" || h.k == "Connect-Protocol-Version" {
				strips++
			}
			spec.Header[h.k] = append(spec.Header[h.k], h.v...)
		}
		if q := c.Choose("query", len(c13Queries)+2); q > 0 {
			p, _, _ := strings.Cut(spec.Target, "?")
			if q == len(c13Queries)+1 {
				spec.Target = p + "?" // ForceQuery
			} else if c13Queries[q-1] != "" {
				if mode == 0 && spec.Method == "GET" && strings.Contains(spec.Target, "connect=v1") {
					spec.Target += "&" + c13Queries[q-1]
				} else if strings.Contains(spec.Target, "?") {
					spec.Target += "&" + c13Queries[q-1]
				} else {
					spec.Target = p + "?" + c13Queries[q-1]
				}
			}
		}
		if spec.Body != nil {
			if b := c.Choose("body", len(c13Bodies)+1); b > 0 {
				spec.Body = drive.NewBody(c13Bodies[b-1])
			}
			switch c.Choose("content-length", 3) {
			case 1:
				spec.ContentLength = -2
			case 2:
				spec.Body = drive.NewBody(nil)
				spec.ContentLength = 0
			}
			cuts := c.Choose("cut", 3)
			if cuts > 0 && len(spec.Body.Data) > cuts {
				spec.Body.Cuts = []int{cuts}
			}
		}
		if spec.Body != nil && !spec.NoBody && spec.ContentLength == -1 {
			// request trailers (chunked HTTP/1.1 / HTTP/2 trailing HEADERS): net/http announces the
			// keys in Request.Trailer and fills the values in when the body reaches EOF
			switch c.Choose("request-trailers", 3) {
			case 1:
				spec.Trailer = http.Header{"X-Checksum": {"abc123"}}
			case 2:
				spec.Trailer = http.Header{"X-Checksum": {"abc", "def"}, "Grpc-Status": {"0"}, "X-Bin-Bin": {"AAE"}}
			}
		}
		if pm := c.Choose("http2", 2); pm == 1 && spec.ProtoMajor != 2 {
			spec.ProtoMajor = 2
		}
		down.reply = c.Choose("reply", len(c13Replies))
		tc, err := world.Build(cfg, svc)
		if err != nil {
			c.Fail("harness.setup", "%v", err)
			return
		}
		req, err := spec.Build(context.Background())
		if err != nil {
			c.Skip()
			return
		}
		orig := drive.Capture(req)
		origURL := *req.URL
		var origBody []byte
		if spec.Body != nil {
			origBody = append([]byte(nil), spec.Body.Data...)
		}
		rec := drive.NewRecorder()
		pi := drive.Serve(tc, rec, rec, req, spec.Body)
		desc := fmt.Sprintf("%s %s proto=%d hdr=%s cl=%d body=%x reply=%s", spec.Method, spec.Target, req.ProtoMajor, drive.CanonHeader(orig.Header), orig.ContentLength, origBody, c13Replies[down.reply])
		c.Attr("~request", short(desc))
		if pi != nil {
			c.Fail("C13.panic", "ServeHTTP panicked: %s\n%s\n%s", pi.Value, stackTop(pi.Stack), desc)
			return
		}
		if down.calls == 0 {
			if c.Attrs["mode"] == "unknown-endpoint" && !strings.HasPrefix(c.Attrs["client"], "norule-") {
				// the path matches no configured endpoint: with an unknown-endpoint handler
				// configured the request is its business, whatever else is wrong with it
				c.Fail("C13.unmatched-not-delegated", "the request matches no configured endpoint but was not handed to the unknown-endpoint handler (client got HTTP %d)\n%s", rec.Status, desc)
				return
			}
			// not forwarded at all (rejected or transcoded): outside this property's premise
			c.Outcome("not-forwarded")
			c.Note("not-forwarded")
			return
		}
		if down.calls != 1 {
			c.Fail("C13.wrong-handler-or-count", "downstream/service handler invocations=%d\n%s", down.calls, desc)
			return
		}
		if _, direct := down.w.(*drive.Recorder); !direct {
			if c.Attrs["mode"] == "pass-through" && strips == 0 {
				// The service accepts the client's protocol, codec and compression as they are, and the
				// request is a plain one of that protocol: it needs no conversion.
				c.Fail("C13.converted-although-acceptable", "the service accepts the client's protocol, codec and compression, but its handler was given a transcoded request\n%s", desc)
				return
			}
			// transcoded (the transcoder decided conversion is needed): not a pass-through
			c.Outcome("transcoded")
			c.Note("transcoded")
			return
		}
		c.Note("forwarded")
		if strips > 0 {
			c.Nontrivial(c.Attrs["mode"] + "|" + c.Attrs["client"] + "|" + desc)
		}
		c.Outcome(c.Attrs["mode"] + "/" + c13Replies[down.reply])
		s := down.seen
		diff := func(field string, want, got any) {
			if !reflect.DeepEqual(want, got) {
				c.Attr("field", field)
				c.Fail("C13.request-changed", "%s: client sent %#v, downstream handler saw %#v\n%s", field, want, got, desc)
			}
		}
		diff("Method", orig.Method, s.Method)
		diff("URL.Path", origURL.Path, s.Path)
		diff("URL.RawPath", origURL.RawPath, s.RawPath)
		diff("URL.RawQuery", origURL.RawQuery, s.RawQuery)
		diff("URL.ForceQuery", origURL.ForceQuery, s.ForceQuery)
		diff("URL", origURL.String(), s.URL)
		diff("ProtoMajor.Minor", [2]int{orig.ProtoMajor, orig.ProtoMinor}, [2]int{s.ProtoMajor, s.ProtoMinor})
		diff("Proto", orig.Proto, s.Proto)
		diff("Host", orig.Host, s.Host)
		diff("ContentLength", orig.ContentLength, s.ContentLength)
		diff("TransferEncoding", orig.TransferEnc, s.TransferEnc)
		diff("Header", map[string][]string(orig.Header), map[string][]string(s.Header))
		diff("Body", string(origBody), string(s.Body))
		if spec.Trailer != nil && s.ReadErr == "" {
			announced := map[string][]string{}
			for k := range spec.Trailer {
				announced[k] = nil
			}
			diff("Trailer (before the body is read: announced keys)", announced, map[string][]string(down.trailerBefore))
			diff("Trailer (after the body was read to EOF)", map[string][]string(spec.Trailer), map[string][]string(down.trailerAfter))
		}
		// response
		st, hdr, body, tr, fl := c13Expected(down.reply)
		got := fmt.Sprintf("%d|%s|%q|%s|%d", rec.Status, drive.CanonHeader(rec.Snapshot), rec.BodyBytes.String(), drive.CanonHeader(rec.Trailers), len(rec.Flushes))
		want := fmt.Sprintf("%d|%s|%q|%s|%d", st, hdr, body, tr, fl)
		if got != want {
			c.Fail("C13.response-changed", "handler wrote %s\nclient received %s\n%s", want, got, desc)
		}
	}
	Register(&Check{
		ID:    "C13",
		Level: "exploration",
		Rule: "11 client wire forms (protocol x codec x compression incl. alt/rev) x 3 target-protocol sets x 2 codec sets that accept the client's triple, and 12 unmatched request classes with an unknown-endpoint handler; " +
			"up to D deviations: 2 extra headers out of 23 (control headers of every protocol, multi-valued, raw lower-case keys, Content-Length), 9 query strings incl. bad escapes and ForceQuery, 7 arbitrary bodies, " +
			"declared/unknown/zero content length, body segmentation, request trailers (announced keys, values that appear at body EOF), HTTP/2, 7 downstream reply scripts. Non-trivial = forwarded request carrying at least one header that the transcoding path strips.",
		Assume:       []string{"the request context is exempt"},
		Scenarios:    []Scenario{{Name: "forwarding", Fn: scn, QuickBound: 2, ThoroughBound: 3}},
		RequireNotes: []string{"forwarded", "not-forwarded"},
		MinOutcomes:  6,
	})
}
