package props

import (
	"net/url"
	"net/http"
	"regexp"
	"strings"

	"connectrpc.com/vanguard/verifharness/xplor"
)

// C18 — at most one dispatch per request, none if rejected; context released.

var (
	reGrpcTimeout    = regexp.MustCompile(`^[0-9]{1,8}[HMSmun]$`)
	reConnectTimeout = regexp.MustCompile(`^[0-9]{1,10}$`)
)

var svcMethods = map[string]struct{ clientStream, serverStream bool }{
	"Unary": {}, "Pure": {}, "Idem": {}, "Multi": {}, "Nested": {}, "Scalar": {}, "Blob": {}, "RawIO": {}, "NoRule": {},
	"CStream": {true, false}, "SStream": {false, true}, "Bidi": {true, true}, "Upload": {true, false}, "Download": {false, true},
}

// expectReject classifies, independently of vanguard, requests that the property says
// must be rejected during validation. It is deliberately conservative: it only speaks
// when the request is unambiguously in one RPC protocol (exactly one well-known
// content-type) and carries one of the listed defects. "" = no expectation.
func expectReject(r *http.Request) string {
	cts := r.Header.Values("Content-Type")
	if len(cts) > 1 {
		// (only for a path that names a configured method: a request for a path that matches
		// nothing is the unknown-endpoint handler's business whatever else is wrong with it - C13)
		if name, ok := strings.CutPrefix(r.URL.Path, "/verif.v1.Svc/"); ok {
			if _, known := svcMethods[name]; known {
				return "unclassifiable-content-type"
			}
		}
		return ""
	}
	if len(cts) == 0 {
		// a Connect GET (announced by exactly one connect=v1 in the query, or by exactly one
		// Connect-Protocol-Version: 1 line) for a configured method that is not declared free of
		// side effects: wrong HTTP method
		if name, ok := strings.CutPrefix(r.URL.Path, "/verif.v1.Svc/"); ok && r.Method == http.MethodGet {
			_, known := svcMethods[name]
			q, qerr := url.ParseQuery(strings.ReplaceAll(r.URL.RawQuery, ";", "%3B"))
			byQuery := qerr == nil && len(q["connect"]) == 1 && q["connect"][0] == "v1"
			vs := r.Header.Values("Connect-Protocol-Version")
			byHeader := len(vs) == 1 && vs[0] == "1"
			if known && name != "Pure" && (byQuery || byHeader) {
				return "get-for-a-method-not-declared-side-effect-free"
			}
		}
		return ""
	}
	ct := cts[0]
	var family, codec string
	switch {
	case ct == "application/grpc":
		family, codec = "grpc", "proto"
	case strings.HasPrefix(ct, "application/grpc+"):
		family, codec = "grpc", strings.TrimPrefix(ct, "application/grpc+")
	case ct == "application/grpc-web":
		family, codec = "grpc-web", "proto"
	case strings.HasPrefix(ct, "application/grpc-web+"):
		family, codec = "grpc-web", strings.TrimPrefix(ct, "application/grpc-web+")
	case strings.HasPrefix(ct, "application/connect+"):
		family, codec = "connect-stream", strings.TrimPrefix(ct, "application/connect+")
	default:
		return ""
	}
	name, ok := strings.CutPrefix(r.URL.Path, "/verif.v1.Svc/")
	m, known := svcMethods[name]
	if !ok || !known {
		return "unknown-method"
	}
	if r.Method != http.MethodPost {
		return "wrong-http-method"
	}
	if family == "grpc" && r.ProtoMajor != 2 {
		return "http-version"
	}
	if m.clientStream && m.serverStream && r.ProtoMajor < 2 {
		return "http-version"
	}
	if family == "connect-stream" && !m.clientStream && !m.serverStream {
		return "stream-type"
	}
	switch codec {
	case "proto", "json", "alt":
	default:
		return "unsupported-codec"
	}
	encHdr, toHdr, re := "Grpc-Encoding", "Grpc-Timeout", reGrpcTimeout
	if family == "connect-stream" {
		encHdr, toHdr, re = "Connect-Content-Encoding", "Connect-Timeout-Ms", reConnectTimeout
	}
	switch r.Header.Get(encHdr) {
	case "", "identity", "gzip", "rev":
	default:
		return "unsupported-compression"
	}
	if vals := r.Header.Values(toHdr); len(vals) > 0 && !re.MatchString(vals[0]) {
		return "malformed-timeout"
	}
	if enc := r.Header.Get("Content-Encoding"); enc != "" && enc != "identity" {
		return "content-encoding-on-enveloped-protocol"
	}
	return ""
}

func init() {
	scn := func(c *xplor.Ctx) {
		withUnknown := c.Free("unknown-handler", 2) == 1
		r := runHostile(c, withUnknown)
		if r == nil {
			return
		}
		if r.BuildErr != nil {
			c.Fail("harness.setup", "%v", r.BuildErr)
			return
		}
		defer r.Cancel()
		desc := strings.Join(r.Desc, " ")
		total := r.Svc.Calls
		unknownCalls := 0
		if r.Unknown != nil {
			unknownCalls = r.Unknown.Calls
			total += unknownCalls
		}
		exit := "returned"
		if r.Ex.Panic != nil {
			exit = "panic"
		}
		path := "rejected"
		switch {
		case r.Svc.Calls > 0 && r.Svc.Direct:
			path = "pass-through"
		case r.Svc.Calls > 0:
			path = "transcoded"
		case unknownCalls > 0:
			path = "unknown-handler"
		}
		c.Note("path." + path)
		c.Note("exit." + exit)
		c.Nontrivial(path + "|" + exit + "|" + c.Attrs["base"] + "|" + c.Attrs["target"] + "|" + desc)
		c.Outcome(path + "/" + exit + "/" + statusClass(r.Ex.Rec.Status))
		if total > 1 {
			c.Fail("C18.multiple-dispatch", "service handler invoked %d times, unknown-endpoint handler %d times\nscenario: %s", r.Svc.Calls, unknownCalls, desc)
		}
		// the original request as the client sent it (ServeHTTP may have rewritten r.Ex.Req's fields)
		if why := c.Attrs["~expect-reject"]; why != "" {
			c.Attr("reject", why)
			c.Note("reject-expected")
			if r.Svc.Calls != 0 {
				c.Fail("C18.dispatch-after-rejection", "request must be rejected (%s) but the service handler was invoked %d time(s); client saw status %d\nscenario: %s", why, r.Svc.Calls, r.Ex.Rec.Status, desc)
			}
			if unknownCalls != 0 && why != "unknown-method" {
				c.Fail("C18.dispatch-after-rejection", "request must be rejected (%s) but the unknown-endpoint handler was invoked\nscenario: %s", why, desc)
			}
		}
		if why := c.Attrs["~expect-no-svc"]; why != "" {
			c.Attr("reject", "leading-message")
			c.Note("reject-expected")
			if r.Svc.Calls != 0 {
				c.Fail("C18.dispatch-after-rejection", "the leading message needed to build the backend request is unusable (%s) but the service handler was invoked %d time(s); client saw status %d\nscenario: %s", why, r.Svc.Calls, r.Ex.Rec.Status, desc)
			}
		}
		for _, hb := range []*hostileBackend{r.Svc, r.Unknown} {
			if hb == nil {
				continue
			}
			for _, ctx := range hb.Ctxs {
				if ctx.Err() == nil {
					c.Fail("C18.context-not-cancelled", "the context handed to the handler is still live after ServeHTTP returned (%s, %s)\nscenario: %s", path, exit, desc)
				}
			}
		}
		if r.ParentCtx.Err() != nil {
			c.Fail("C18.parent-context-cancelled", "the server's own request context was cancelled by the transcoder\nscenario: %s", desc)
		}
		post := r.Ex.Rec.PostCalls
		if r.Ex.Body != nil {
			post += r.Ex.Body.PostReads
		}
		if post > 0 {
			c.Fail("C18.io-after-return", "%d calls reached the real ResponseWriter/Body after ServeHTTP returned\nscenario: %s", post, desc)
		}
	}
	Register(&Check{
		ID:    "C18",
		Level: "exploration",
		Rule: "The hostile scenario space of C11 (7 base requests x 5 target configurations, up to D deviating components) x {with, without} unknown-endpoint handler. Every exit path of ServeHTTP is observed " +
			"(pass-through, transcoded, unknown handler, rejection, handler panic, cancelled client context, handler that keeps using writer/body after returning). Rejection classes are decided from the request " +
			"alone by an independent conservative classifier. Non-trivial = distinct (exit path, scenario).",
		Assume:       []string{"rejection expectations are only asserted for requests that are unambiguously in one RPC protocol"},
		Scenarios:    []Scenario{{Name: "exits", Fn: scn, QuickBound: 2, ThoroughBound: 3}},
		RequireNotes: []string{"path.pass-through", "path.transcoded", "path.unknown-handler", "path.rejected", "exit.panic", "reject-expected"},
		MinOutcomes:  6,
	})
}
