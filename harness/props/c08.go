package props

import (
	"connectrpc.com/vanguard/verifharness/wire"
	"fmt"
	"net/http"

	"connectrpc.com/vanguard/verifharness/drive"
	"connectrpc.com/vanguard/verifharness/world"
	"connectrpc.com/vanguard/verifharness/xplor"
)

// C08 — results do not depend on how bytes are split across reads, writes, flushes.
//
// Differential oracle: for every adapter-path pairing the default run (one client Read,
// 4 KiB handler buffer, one Write) is compared with every segmented variant: the bytes
// the backend handler read and everything the client received must be identical.

var readSizeMenu = []int{4096, 1, 2, 3, 4, 5, 6, 7, 8, 16}

func init() {
	pairings := stdPairings()
	reqSide := func(c *xplor.Ctx) {
		p := pairings[c.Free("pairing", len(pairings))]
		c.Attr("pairing", p.Name)
		c.Attr("path", p.Path)
		c.Attr("side", "request")
		base := p.run(runOpts{})
		if base.Err != nil {
			c.Fail("harness.setup", "pairing %s: %v", p.Name, base.Err)
			return
		}
		if base.Backend.Calls != 1 || base.Ex.Rec.Status != 200 {
			c.Fail("harness.base-not-ok", "pairing %s default run: backend calls=%d client=%s", p.Name, base.Backend.Calls, short(clientView(base.Ex)))
			return
		}
		c.Note("base.ok")
		n := 0
		if base.Ex.Body != nil {
			n = len(base.Ex.Body.Data)
		}
		// client-side segmentation of the request body: up to three cuts (each a deviation)
		var cuts []int
		prev := 0
		for k := 0; k < 3 && n > 0; k++ {
			ch := c.Choose(fmt.Sprintf("reqcut%d", k), n-prev)
			if ch == 0 {
				break
			}
			prev += ch
			cuts = append(cuts, prev)
			if prev >= n-0 {
				break
			}
		}
		eofWithData := c.Choose("eof-with-data", 2) == 1
		// handler read sizes: a constant size, optionally one size change at some read index
		rs := readSizeMenu[c.Choose("readsize", len(readSizeMenu))]
		sizes := []int{rs}
		if chg := c.Choose("readsize-change-at", 6); chg > 0 {
			rs2 := readSizeMenu[1+c.Free("readsize2", len(readSizeMenu)-1)]
			sizes = nil
			for i := 0; i < chg; i++ {
				sizes = append(sizes, rs)
			}
			sizes = append(sizes, rs2)
		}
		if len(cuts) == 0 && !eofWithData && len(sizes) == 1 && sizes[0] == 4096 {
			c.Outcome("default")
			return
		}
		c.Attr("~cuts", fmt.Sprint(cuts))
		c.Attr("~readsizes", fmt.Sprint(sizes))
		v := p.run(runOpts{ReadSizes: sizes, Spec: func(s *drive.ReqSpec) {
			if s.Body != nil {
				s.Body.Cuts = cuts
				s.Body.EOFWithData = eofWithData
			}
		}})
		if v.Err != nil {
			c.Fail("harness.setup", "%v", v.Err)
			return
		}
		if spun(c, "C08", v) {
			return
		}
		if len(cuts) > 0 || sizes[0] < 5 || len(sizes) > 1 {
			c.Nontrivial(fmt.Sprintf("%s|cuts=%v|sizes=%v|eof=%v", p.Name, cuts, sizes, eofWithData))
		}
		if sizes[0] < 5 {
			c.Note("readsize<5")
		}
		if bv, vv := backendView(base.Backend), backendView(v.Backend); bv != vv && semBackend(base.Backend, p.in()) != semBackend(v.Backend, p.in()) {
			c.Fail("C08.handler-bytes-differ", "pairing %s cuts=%v eofWithData=%v readsizes=%v\n default: %s\n variant: %s", p.Name, cuts, eofWithData, sizes, short(bv), short(vv))
		}
		if bc, vc := clientView(base.Ex), clientView(v.Ex); bc != vc && semClient(p.Client, base.Ex, p.out()) != semClient(p.Client, v.Ex, p.out()) {
			c.Fail("C08.client-response-differs", "pairing %s cuts=%v eofWithData=%v readsizes=%v\n default: %s\n variant: %s", p.Name, cuts, eofWithData, sizes, short(bc), short(vc))
		}
		c.Outcome("req:" + p.Path)
	}
	// the order of the handler's own reads and writes is a segmentation, too: a handler that writes
	// its whole response before it reads the request reads the same request bytes
	order := func(c *xplor.Ctx) {
		p := pairings[c.Free("pairing", len(pairings))]
		c.Attr("pairing", p.Name)
		c.Attr("path", p.Path)
		c.Attr("side", "order")
		var rep *world.Reply
		base := p.run(runOpts{Reply: func(r *world.Reply) { rep = r }})
		if base.Err != nil || rep == nil || base.Backend.Calls != 1 || base.Ex.Rec.Status != 200 {
			c.Skip()
			return
		}
		if !p.Client.Enveloped() || p.Target == wire.REST || p.Target == wire.ConnectUnary {
			c.Skip() // (only where both legs can run full duplex; elsewhere the request is consumed before the handler is called, or the response is held back)
			return
		}
		rs := readSizeMenu[c.Free("readsize", len(readSizeMenu))]
		v := p.run(runOpts{ReadSizes: []int{rs}, RespondFirst: rep})
		if v.Err != nil {
			c.Fail("harness.setup", "%v", v.Err)
			return
		}
		if spun(c, "C08", v) {
			return
		}
		c.Nontrivial(fmt.Sprintf("%s|respond-first|%d", p.Name, rs))
		if bv, vv := backendView(base.Backend), backendView(v.Backend); bv != vv && semBackend(base.Backend, p.in()) != semBackend(v.Backend, p.in()) {
			c.Fail("C08.handler-bytes-differ", "pairing %s, handler writes its whole response before it reads (read size %d)\n reads first: %s\n writes first: %s", p.Name, rs, short(bv), short(vv))
		}
		if bc, vc := clientView(base.Ex), clientView(v.Ex); bc != vc && semClient(p.Client, base.Ex, p.out()) != semClient(p.Client, v.Ex, p.out()) {
			c.Fail("C08.client-response-differs", "pairing %s, handler writes its whole response before it reads (read size %d)\n reads first: %s\n writes first: %s", p.Name, rs, short(bc), short(vc))
		}
		c.Outcome("order:" + p.Path)
	}
	respSide := func(c *xplor.Ctx) {
		p := pairings[c.Free("pairing", len(pairings))]
		c.Attr("pairing", p.Name)
		c.Attr("path", p.Path)
		c.Attr("side", "response")
		var bodyLen int
		// the reply whose write schedule is varied: the pairing's success, or an error the
		// backend reports in its protocol (error body / end frame / trailers)
		var responder func(b *world.Backend, r *http.Request) *world.Reply
		if c.Free("reply", 2) == 1 {
			c.Attr("~reply", "error")
			responder = func(b *world.Backend, r *http.Request) *world.Reply {
				return world.EchoReply(b.Parsed, nil, "", &wire.End{Code: 5, Message: "no such thing"})
			}
		}
		base := p.run(runOpts{Responder: responder, Reply: func(r *world.Reply) { bodyLen = len(r.Out.Body) }})
		if base.Err != nil {
			c.Fail("harness.setup", "pairing %s: %v", p.Name, base.Err)
			return
		}
		if base.Backend.Calls != 1 || (base.Ex.Rec.Status != 200 && responder == nil) {
			c.Fail("harness.base-not-ok", "pairing %s default run: backend calls=%d client=%s", p.Name, base.Backend.Calls, short(clientView(base.Ex)))
			return
		}
		var cuts []int
		prev := 0
		for k := 0; k < 3 && bodyLen > 0; k++ {
			ch := c.Choose(fmt.Sprintf("respcut%d", k), bodyLen-prev)
			if ch == 0 {
				break
			}
			prev += ch
			cuts = append(cuts, prev)
		}
		uniform := c.Choose("uniform-chunk", 5) // 0 none, else chunk size 1..4
		if uniform > 0 {
			cuts = nil
			for o := uniform; o < bodyLen; o += uniform {
				cuts = append(cuts, o)
			}
		}
		flushEach := c.Choose("flush-each", 2) == 1
		emptyWrites := c.Choose("empty-writes", 2) == 1
		flushHead := c.Choose("flush-after-header", 2) == 1
		if len(cuts) == 0 && !flushEach && !emptyWrites && !flushHead {
			c.Outcome("default")
			return
		}
		c.Attr("~cuts", fmt.Sprint(cuts))
		v := p.run(runOpts{Responder: responder, Reply: func(r *world.Reply) {
			r.Cuts = cuts
			r.FlushEach = flushEach
			r.EmptyWrites = emptyWrites
			r.FlushAfterHeader = flushHead
		}})
		if v.Err != nil {
			c.Fail("harness.setup", "%v", v.Err)
			return
		}
		if spun(c, "C08", v) {
			return
		}
		if len(cuts) > 0 {
			c.Nontrivial(fmt.Sprintf("%s|wcuts=%v|flush=%v|empty=%v", p.Name, cuts, flushEach, emptyWrites))
		}
		if len(v.Backend.WriteErrs) != len(base.Backend.WriteErrs) {
			c.Fail("C08.handler-write-errors-differ", "pairing %s cuts=%v: default write errors %v, variant %v", p.Name, cuts, base.Backend.WriteErrs, v.Backend.WriteErrs)
		}
		if bc, vc := clientView(base.Ex), clientView(v.Ex); bc != vc && semClient(p.Client, base.Ex, p.out()) != semClient(p.Client, v.Ex, p.out()) {
			c.Fail("C08.client-response-differs", "pairing %s write cuts=%v flushEach=%v emptyWrites=%v flushAfterHeader=%v\n default: %s\n variant: %s", p.Name, cuts, flushEach, emptyWrites, flushHead, short(bc), short(vc))
		}
		c.Outcome("resp:" + p.Path)
	}
	Register(&Check{
		ID:    "C08",
		Level: "exploration",
		Rule: "For each of the adapter-path pairings (DESIGN Appendix A) every request-body segmentation with up to D cut offsets (every offset), " +
			"EOF-with-data, every handler read-buffer size in {1..8,16,4096} with one size change at read index 1..5, and every response Write segmentation " +
			"(up to D cuts at every offset, uniform 1..4-byte chunks, flush-after-each, flush right after the header, interleaved empty writes; for the success reply and for an error reply) is compared with the unsegmented run. " +
			"Non-trivial = distinct (pairing, segmentation) with at least one cut or a read buffer < 5 bytes.",
		Assume: []string{"protojson/gzip output is deterministic within one process", "strict ResponseWriter model (drive.Recorder) mirrors net/http"},
		Scenarios: []Scenario{
			{Name: "request-side", Fn: reqSide, QuickBound: 2, ThoroughBound: 3},
			{Name: "response-side", Fn: respSide, QuickBound: 2, ThoroughBound: 3},
			{Name: "read-write-order", Fn: order, QuickBound: 0, ThoroughBound: 0},
		},
		RequireNotes: []string{"base.ok", "readsize<5"},
		MinOutcomes:  5,
	})
}
