package props

import (
	"fmt"
	"net/http"
	"strings"

	"connectrpc.com/vanguard"
	"google.golang.org/protobuf/proto"

	"connectrpc.com/vanguard/verifharness/wire"
	"connectrpc.com/vanguard/verifharness/world"
	"connectrpc.com/vanguard/verifharness/xplor"
)

// C02 — the backend sees only valid requests in a protocol, codec and compression it accepts.

type c02Hdr struct {
	k string
	v []string
}

var c02Headers = []c02Hdr{
	{"Content-Encoding", []string{"identity"}}, {"Accept-Encoding", []string{"gzip, br, nope"}}, {"Grpc-Accept-Encoding", []string{"rev,gzip,zstd"}},
	{"Connect-Accept-Encoding", []string{"gzip", "rev"}}, {"Grpc-Encoding", []string{"identity"}}, {"Connect-Content-Encoding", []string{"identity"}},
	{"X-App", []string{"v"}}, {"Te", []string{"trailers"}}, {"Connect-Protocol-Version", []string{"1"}}, {"Grpc-Timeout", []string{"5S"}},
	{"Connect-Timeout-Ms", []string{"700"}}, {"X-Server-Timeout", []string{"3"}}, {"Content-Length", []string{"AUTO"}},
	// hop-by-hop headers of an HTTP/1.1 client (RFC 9110 7.6.1: "Connection: TE" accompanies every TE header);
	// the second one names headers that the target protocol needs
	{"Connection", []string{"TE"}}, {"Connection", []string{"close, Grpc-Encoding, Content-Type, Te, Connect-Protocol-Version"}}, {"Keep-Alive", []string{"timeout=5"}},
	// (metadata for a client of another protocol; the version header of the request for a Connect backend)
	{"Connect-Protocol-Version", []string{"2"}},
}

func inStrs(s string, list []string) bool {
	for _, x := range list {
		if x == s {
			return true
		}
	}
	return false
}

func init() {
	scn := func(c *xplor.Ctx) {
		b := pickBase(c, false, true)
		if b.expectedServerProtocol() == vanguard.ProtocolREST && noRESTBinding(b.Client.method) {
			c.Skip()
			return
		}
		shape := b.Client.shape
		req, resp := defaultMsgs(shape)
		isREST := b.Client.form == wire.REST
		if isREST && b.Client.method == "Idem" {
			req = []proto.Message{MkMsg(restIdemAlphabet[0])}
		}
		if shape == "client" || shape == "bidi" {
			if n := c.Choose("req-count", 4); n > 0 {
				cnt := []int{0, 1, 3}[n-1]
				base := req
				req = nil
				for i := 0; i < cnt; i++ {
					req = append(req, base[i%len(base)])
				}
			}
		}
		if (shape == "unary" || shape == "server") && b.Client.form.Enveloped() {
			// an enveloped client that (wrongly) sends two messages, or none, on a method that takes one
			if n := c.Choose("req-count-on-single-request-method", 3); n > 0 {
				cnt := []int{2, 0}[n-1]
				base := req
				req = nil
				for i := 0; i < cnt; i++ {
					req = append(req, base[i%len(base)])
				}
				c.Attr("~request-messages", fmt.Sprint(cnt))
			}
		}
		if !isREST {
			for i := range req {
				if v := c.Choose(fmt.Sprintf("req-msg%d", i), 4); v > 0 {
					req[i] = MkMsg([]string{`{}`, msgAlphabet[9], msgAlphabet[24]}[v-1])
				}
			}
		}
		var reqFlags []bool
		if b.ClientComp != "" && b.Client.form.Enveloped() {
			for i := range req {
				if c.Choose(fmt.Sprintf("req-frame%d-uncompressed", i), 2) == 1 {
					if reqFlags == nil {
						reqFlags = make([]bool, len(req))
						for j := range reqFlags {
							reqFlags[j] = true
						}
					}
					reqFlags[i] = false
				}
			}
		}
		accept := [][]string{{"gzip"}, nil, {"rev", "gzip"}, {"nope", "rev"}, {"gzip", "gzip"}}[c.Choose("accept", 5)]
		hdr := http.Header{}
		autoCL := false
		for i := 0; i < 2; i++ {
			h := c.Choose(fmt.Sprintf("extra-header%d", i), len(c02Headers)+1)
			if h == 0 {
				break
			}
			e := c02Headers[h-1]
			if e.k == "Content-Length" {
				autoCL = true
				continue
			}
			if e.k == "Connect-Protocol-Version" && e.v[0] != "1" && b.Client.form.Family() == "connect" {
				continue // (for a Connect client that is its own protocol's version header, not metadata)
			}
			hdr[e.k] = append(hdr[e.k], e.v...)
		}
		charset := c.Choose("content-type-charset", 2) == 1
		http3 := c.Choose("http-version-3", 2) == 1
		bareQuery := c.Choose("request-target-ends-in-question-mark", 2) == 1
		call := &mxCall{Base: b, ReqMsgs: req, ReqFlags: reqFlags, Accept: accept, RespMsgs: resp, RespComp: "auto", ReqHeader: hdr, Lenient: true}
		call.SpecMut = func(s *drive_ReqSpec) {
			if autoCL && s.Body != nil {
				s.ContentLength = -2
			}
			if bareQuery && !strings.Contains(s.Target, "?") {
				s.Target += "?" // (an empty query: URL.ForceQuery)
			}
			if http3 && b.Client.form != wire.GRPC {
				s.ProtoMajor = 3 // the client reached the server over HTTP/3
			}
			if charset && (b.Client.form == wire.ConnectUnary || b.Client.form == wire.REST) && b.ClientCodec == "json" && s.Header.Get("Content-Type") != "" {
				s.Header.Set("Content-Type", "application/json; charset=utf-8")
			}
			// a header given twice by a deviation must not duplicate what the encoder set
			for _, k := range []string{"Te", "Connect-Protocol-Version", "Content-Encoding", "Grpc-Encoding", "Connect-Content-Encoding", "Accept-Encoding", "Grpc-Accept-Encoding", "Connect-Accept-Encoding"} {
				if vs := s.Header[k]; len(vs) > 1 {
					s.Header[k] = vs[:1]
				}
			}
		}
		obs := call.run()
		if obs.Err != nil {
			c.Fail("harness.setup", "%v", obs.Err)
			return
		}
		if obs.Ex.Panic != nil {
			c.Fail("C02.panic", "ServeHTTP panicked: %s\n%s", obs.Ex.Panic.Value, stackTop(obs.Ex.Panic.Stack))
			return
		}
		be := obs.Backend
		if be.Calls == 0 {
			c.Note("not-dispatched")
			c.Outcome(fmt.Sprintf("rejected-%d", obs.Ex.Rec.Status))
			return
		}
		c.Note("dispatched")
		br := obs.BReq
		desc := func() string {
			return fmt.Sprintf("%s\n client request: %s %s %s\n backend saw: %s", b.key, obs.Spec.Method, obs.Spec.Target, driveCanon(obs.Spec.Header), short(semBackend(be, world.MsgDesc())))
		}
		fail := func(clause, format string, args ...any) {
			c.Fail("C02."+clause, format+"\n%s", append(args, desc())...)
		}
		for _, cm := range br.Complaints {
			fail(cm.Clause, "%s", cm.Detail)
		}
		if br.Form == wire.GRPC && be.Seen != nil && be.Seen.ProtoMajor != 2 {
			fail("grpc-not-http2", "the backend is addressed in gRPC with a request that claims %s (gRPC servers refuse anything but HTTP/2)", be.Seen.Proto)
		}
		if br.FlaggedEmpty > 0 && (obs.Spec.Body == nil || wire.CountFlaggedEmpty(obs.Spec.Body.Data) == 0) {
			fail("req.envelope.empty-flagged-compressed", "%d message frame(s) reach the backend with the compressed flag over zero bytes, which is not a valid compressed stream; the client sent no such frame", br.FlaggedEmpty)
		}
		// a flat (un-enveloped) request carries exactly one message: its body must be one
		// well-formed message of the declared codec (messages the client sent are all well-formed)
		if (br.Form == wire.ConnectUnary || br.Form == wire.REST && be.Seen.Method != "GET") && !isREST && len(br.Msgs) == 1 && len(br.Msgs[0]) > 0 && be.Seen.ReadErr == "" {
			dcodec := br.Codec
			if br.Form == wire.REST {
				dcodec = "json"
			}
			if br.Form == wire.ConnectUnary || b.Client.method == "Unary" { // (REST bodies of other bindings are single fields)
				if _, derr := wire.Unmarshal(dcodec, world.MsgDesc(), br.Msgs[0]); derr != nil {
					fail("req.flat.body-not-a-message", "the flat request body handed to the backend is not a well-formed %s message: %v (the client sent %d well-formed message(s))", dcodec, derr, len(req))
				}
			}
		}
		// an enveloped request: every message the backend is handed must, read the way its own envelope
		// flag says (compressed or not), be a well-formed message of the declared codec - a payload left
		// compressed under a flag that says it is not (or the reverse) is not a valid request
		if br.Form.Enveloped() && !isREST && be.Seen.ReadErr == "" && len(br.Complaints) == 0 {
			for i, m := range br.Msgs {
				if len(m) == 0 {
					continue
				}
				if _, derr := wire.Unmarshal(br.Codec, world.MsgDesc(), m); derr != nil {
					fail("req.envelope.message-not-decodable", "message %d of the enveloped request handed to the backend is not a well-formed %s message when read as its envelope flag says: %v (the client sent %d well-formed message(s))", i, br.Codec, derr, len(req))
					break
				}
			}
		}
		if len(req) > 1 && (shape == "unary" || shape == "server") && !br.Form.Enveloped() && be.Seen.ReadErr == "" && len(be.Seen.Body) > 0 {
			// (where the one message travels in the request line - a GET - what follows it in the
			// client's body is never read; not judged)
			fail("message-count-hidden", "the client sent %d messages on a method that takes exactly one; the backend was handed a flat %s request that ends cleanly, which can only ever look like one message", len(req), br.Form)
		}
		// protocol: one of the configured ones; the client's own if acceptable
		sp := world.FormToProtocol(br.Form)
		okProto := false
		for _, p := range b.TgtProtos {
			if p == sp {
				okProto = true
			}
		}
		if !okProto {
			fail("protocol-not-configured", "backend was addressed in %s which is not among the service's target protocols", sp)
		}
		own := world.FormToProtocol(b.Client.form)
		ownOK := false
		for _, p := range b.TgtProtos {
			if p == own {
				ownOK = true
			}
		}
		if ownOK && sp != own {
			fail("protocol-converted-needlessly", "the service accepts the client's protocol %s but the request was converted to %s", own, sp)
		}
		if br.Form == wire.GRPC && be.Seen.ProtoMajor != 2 {
			fail("grpc-not-http2", "gRPC request handed over with %s", be.Seen.Proto)
		}
		// codec
		if br.Form == wire.REST {
			if br.Codec != "json" {
				fail("codec-not-configured", "REST request with codec %q", br.Codec)
			}
		} else {
			if !inStrs(br.Codec, b.TgtCodecs) {
				fail("codec-not-configured", "codec %q is not among the service's target codecs %v", br.Codec, b.TgtCodecs)
			}
			if inStrs(b.ClientCodec, b.TgtCodecs) && br.Codec != b.ClientCodec {
				fail("codec-converted-needlessly", "the service accepts the client's codec %q but the request was converted to %q", b.ClientCodec, br.Codec)
			}
		}
		// compression
		if br.Compression != "" && !inStrs(br.Compression, b.TgtComp) {
			fail("compression-not-configured", "compression %q is not among the service's target compressions %v", br.Compression, b.TgtComp)
		}
		clientDeclared := obs.Spec.Header.Get("Content-Encoding") == b.ClientComp || obs.Spec.Header.Get("Grpc-Encoding") == b.ClientComp || obs.Spec.Header.Get("Connect-Content-Encoding") == b.ClientComp || strings.Contains(obs.Spec.Target, "compression="+b.ClientComp)
		if clientDeclared && b.ClientComp != "" && inStrs(b.ClientComp, b.TgtComp) && br.Compression != b.ClientComp && len(req) > 0 && br.Form != wire.ConnectGet {
			fail("compression-converted-needlessly", "the service accepts the client's compression %q but the request declares %q", b.ClientComp, br.Compression)
		}
		// request line
		switch br.Form {
		case wire.REST:
			want := map[string][2]string{"Unary": {"POST", "/v1/unary"}, "Pure": {"GET", "/v1/pure/"}, "Idem": {"PUT", "/v1/idem/"}}[b.Client.method]
			if be.Seen.Method != want[0] || !strings.HasPrefix(be.Seen.Path, want[1]) {
				fail("request-line", "REST request line %s %s does not instantiate the method's binding %s %s...", be.Seen.Method, be.Seen.Path, want[0], want[1])
			}
		case wire.ConnectGet:
			if be.Seen.Method != "GET" || be.Seen.Path != world.SvcPath+b.Client.method {
				fail("request-line", "Connect GET request line %s %s", be.Seen.Method, be.Seen.Path)
			}
		default:
			if be.Seen.Method != "POST" || be.Seen.Path != world.SvcPath+b.Client.method || be.Seen.RawQuery != "" {
				fail("request-line", "request line %s %s?%s, want POST %s", be.Seen.Method, be.Seen.Path, be.Seen.RawQuery, world.SvcPath+b.Client.method)
			}
		}
		// the client's own request line must not show through: a query the client did not send, or
		// its bare "?", on a request line the transcoder built
		if !be.Direct && be.Seen.RawQuery == "" && strings.HasSuffix(be.Seen.URL, "?") {
			fail("request-line", "the request-target handed to the backend ends in a bare '?' (%s): that is the client's, not part of the request the transcoder makes", be.Seen.URL)
		}
		// advertised response compressions: known to the transcoder and advertised by the client
		clientAdv := map[string]bool{}
		for _, hk := range []string{"Accept-Encoding", "Grpc-Accept-Encoding", "Connect-Accept-Encoding"} {
			for _, v := range obs.Spec.Header.Values(hk) {
				for _, p := range strings.Split(v, ",") {
					clientAdv[strings.TrimSpace(p)] = true
				}
			}
		}
		for _, a := range br.Accept {
			if be.Direct {
				break // forwarded untouched: these are the client's own words (C13)
			}
			if a != "gzip" && a != "rev" {
				fail("accept-unknown-compression", "backend is told the peer accepts %q, which the transcoder cannot handle", a)
			} else if !clientAdv[a] {
				fail("accept-not-advertised-by-client", "backend is told the peer accepts %q, which the client never advertised", a)
			}
		}
		// contradicting leftovers: another protocol's encoding header that disagrees with the declared one
		own3 := map[wire.Form]string{wire.ConnectUnary: "Content-Encoding", wire.ConnectGet: "", wire.REST: "Content-Encoding", wire.ConnectStream: "Connect-Content-Encoding", wire.GRPC: "Grpc-Encoding", wire.GRPCWeb: "Grpc-Encoding"}[br.Form]
		for _, hk := range []string{"Content-Encoding", "Connect-Content-Encoding", "Grpc-Encoding"} {
			if hk == own3 {
				continue
			}
			// only headers the client's own protocol gave meaning to can contradict
			clientOwn := map[wire.Form]string{wire.ConnectUnary: "Content-Encoding", wire.ConnectGet: "", wire.REST: "Content-Encoding", wire.ConnectStream: "Connect-Content-Encoding", wire.GRPC: "Grpc-Encoding", wire.GRPCWeb: "Grpc-Encoding"}[b.Client.form]
			if hk != clientOwn {
				continue
			}
			if v := be.Seen.Header.Get(hk); v != "" && v != "identity" && v != br.Compression {
				fail("contradicting-leftover", "client protocol header %s: %s is still present but the request declares compression %q", hk, v, br.Compression)
			}
		}
		key := fmt.Sprintf("%s/%s/%s", b.Client.name, b.ClientCodec, b.ClientComp) + "|" + c.Attrs["targets"] + "|" + c.Attrs["target-codecs"] + "|" + c.Attrs["target-comp"]
		c.Nontrivial(key)
		c.Outcome(fmt.Sprintf("%s>%s/%s/%s", b.Client.form, br.Form, br.Codec, br.Compression))
	}
	Register(&Check{
		ID:    "C02",
		Level: "exploration",
		Rule: "Base matrix with all 15 non-empty target-protocol subsets x 4 ordered target codec lists x 3 target compression sets x 16 client form/method cells x client codec x client compression, fully crossed; " +
			"deviations up to D: request count, message values (empty, 256-byte, 5 kB), per-frame compressed flags, Accept lists (unknown names, duplicates), 2 extra control headers out of 13 (identity encodings, foreign protocols' timeouts/encodings, declared Content-Length), charset parameter. " +
			"Oracle: the request recorded by the backend is parsed by the independent strict wire decoder and judged against the service configuration. Non-trivial = distinct (client triple, service configuration) that reached the backend.",
		Assume:       []string{"which protocol is chosen when the client's is not accepted is not demanded; removal of harmless foreign headers is not demanded"},
		Scenarios:    []Scenario{{Name: "matrix", Fn: scn, QuickBound: 1, ThoroughBound: 2}},
		RequireNotes: []string{"dispatched", "not-dispatched"},
		MinOutcomes:  10,
	})
}

func driveCanon(h http.Header) string {
	var parts []string
	for k, v := range h {
		parts = append(parts, fmt.Sprintf("%s=%q", k, v))
	}
	sortStrings(parts)
	return strings.Join(parts, ";")
}
