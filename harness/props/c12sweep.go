//go:build verifsweep

package props

import (
	"encoding/json"
	"fmt"
	"net/http"
	"os"
	"runtime"
	"strconv"
	"sync"
	"sync/atomic"

	"connectrpc.com/vanguard"

	"connectrpc.com/vanguard/verifharness/reftimeout"
	"connectrpc.com/vanguard/verifharness/wire"
)

// Function-level sweep of C12 (thorough tier): the WHOLE Grpc-Timeout domain (every numeral of
// 1..8 digits in all six units), every Connect-Timeout-Ms of up to 8 digits plus the regions
// around every power of ten up to the 10-digit limit, and a dense decimal grid of
// X-Server-Timeout, each through the real clientProtocolHandler.extractProtocolRequestHeaders
// and then every serverProtocolHandler.addProtocolRequestHeaders - the two calls ServeHTTP makes.
// A 64-bit integer oracle decides the bulk; every failure, everything it cannot represent and one
// value in 4096 are (also) judged by the exact rational oracle of the end-to-end check.

func init() { c12SweepMain = sweepMain }

type sweepClient struct {
	name, header string
	parse        func(string) (reftimeout.Timeout, reftimeout.Validity)
}

type sweepTarget struct {
	name string
	tg   c12Target
	kind int // 0 connect, 1 grpc, 2 rest
}

var sweepClients = []sweepClient{
	{"grpc", "Grpc-Timeout", reftimeout.ParseGRPC},
	{"grpc-web", "Grpc-Timeout", reftimeout.ParseGRPC},
	{"connect-unary", "Connect-Timeout-Ms", reftimeout.ParseConnect},
	{"connect-stream", "Connect-Timeout-Ms", reftimeout.ParseConnect},
	{"rest", "X-Server-Timeout", reftimeout.ParseREST},
}

var sweepTargets = []sweepTarget{
	{"connect-unary", c12Target{"connect", wire.ConnectUnary, "Connect-Timeout-Ms", reftimeout.ParseConnect}, 0},
	{"connect-stream", c12Target{"connect", wire.ConnectUnary, "Connect-Timeout-Ms", reftimeout.ParseConnect}, 0},
	{"grpc", c12Target{"grpc", wire.GRPC, "Grpc-Timeout", reftimeout.ParseGRPC}, 1},
	{"grpc-web", c12Target{"grpc-web", wire.GRPCWeb, "Grpc-Timeout", reftimeout.ParseGRPC}, 1},
	{"rest", c12Target{"rest", wire.REST, "X-Server-Timeout", reftimeout.ParseREST}, 2},
}

const (
	nsHour       = int64(3600e9)
	ns8h         = 8 * nsHour
	maxInt64     = int64(^uint64(0) >> 1)
	sweepMaxViol = 200
)

var grpcUnitNS = [256]int64{'H': 3600e9, 'M': 60e9, 'S': 1e9, 'm': 1e6, 'u': 1e3, 'n': 1}

// fastJudge is the 64-bit rendering of c12Judge. handled=false: outside what 64 bits can hold
// exactly, the exact oracle decides.
func fastJudge(T int64, kind int, got string, present bool) (ok, handled bool) {
	if !present || got == "" {
		return T > ns8h, true
	}
	var B, unit int64
	switch kind {
	case 0: // Connect-Timeout-Ms
		if len(got) < 1 || len(got) > 10 {
			return false, false
		}
		var n int64
		for i := 0; i < len(got); i++ {
			d := got[i] - '0'
			if d > 9 {
				return false, false
			}
			n = n*10 + int64(d)
		}
		B, unit = n*1e6, 1e6
	case 1: // Grpc-Timeout
		if len(got) < 2 || len(got) > 9 {
			return false, false
		}
		unit = grpcUnitNS[got[len(got)-1]]
		if unit == 0 {
			return false, false
		}
		var n int64
		for i := 0; i < len(got)-1; i++ {
			d := got[i] - '0'
			if d > 9 {
				return false, false
			}
			n = n*10 + int64(d)
		}
		if n > maxInt64/unit {
			return false, false
		}
		B = n * unit
	case 2: // decimal seconds
		var ip, fp int64
		i := 0
		for ; i < len(got) && got[i] != '.'; i++ {
			d := got[i] - '0'
			if d > 9 || ip > 9_000_000_00 {
				return false, false
			}
			ip = ip*10 + int64(d)
		}
		if i == 0 {
			return false, false
		}
		if i < len(got) {
			frac := got[i+1:]
			if len(frac) == 0 || len(frac) > 9 {
				return false, false
			}
			for j := 0; j < 9; j++ {
				fp *= 10
				if j < len(frac) {
					d := frac[j] - '0'
					if d > 9 {
						return false, false
					}
					fp += int64(d)
				}
			}
		}
		B, unit = ip*1e9+fp, 1
	}
	slack := int64(0)
	if kind == 2 {
		slack = T>>52 + 1
		unit = 1 + slack
	}
	if B > T+slack {
		return false, true
	}
	if T-B >= unit {
		clampOK := false
		switch kind {
		case 0:
			clampOK = got == "9999999999"
		case 1:
			clampOK = len(got) >= 8 && got[:8] == "99999999"
		}
		if !clampOK && (T <= ns8h || B < ns8h) {
			return false, true
		}
	}
	return true, true
}

type sweepViolation struct {
	Client  string `json:"client"`
	Target  string `json:"target"`
	Value   string `json:"value"`
	Out     string `json:"out"`
	Present bool   `json:"present"`
	Err     string `json:"err,omitempty"`
	Clause  string `json:"clause"`
	Class   string `json:"class"`
	Detail  string `json:"detail"`
}

type sweepResult struct {
	Evaluations   int64            `json:"evaluations"`
	PerClient     map[string]int64 `json:"per_client_values"`
	Nontrivial    int64            `json:"nontrivial"`
	ExactJudged   int64            `json:"judged_by_exact_oracle"`
	CrossChecked  int64            `json:"fast_and_exact_oracle_compared"`
	Disagreements []string         `json:"oracle_disagreements,omitempty"`
	Violations    []sweepViolation `json:"violations,omitempty"`
	NViolations   int64            `json:"n_violations"`
	Domains       []string         `json:"domains"`
	Answers       []sweepViolation `json:"answers,omitempty"` // -c12-values mode: one line per (value, target)
}

type sweeper struct {
	res                               sweepResult
	mu                                sync.Mutex
	evals, nontr, exact, cross, nviol int64 // merged from the workers under mu
}

// one converts one value for one client toward every target and judges the results.
type sweepWorker struct {
	s       *sweeper
	cl      sweepClient
	extract func(http.Header) (vanguard.VerifRequestMeta, error)
	add     []func(vanguard.VerifRequestMeta, http.Header)
	in, out http.Header
	val     []string
	n       int64
	answers *[]sweepViolation
	// local tallies, merged by flush
	evals, nontr, exact, cross int64
}

func (w *sweepWorker) flush() {
	w.s.mu.Lock()
	w.s.evals += w.evals
	w.s.nontr += w.nontr
	w.s.exact += w.exact
	w.s.cross += w.cross
	w.s.mu.Unlock()
	w.evals, w.nontr, w.exact, w.cross = 0, 0, 0, 0
}

func (s *sweeper) worker(cl sweepClient) *sweepWorker {
	ex, err := vanguard.VerifClientExtractor(cl.name)
	if err != nil {
		panic(err)
	}
	w := &sweepWorker{s: s, cl: cl, extract: ex, in: http.Header{}, out: http.Header{}, val: make([]string, 1)}
	for _, t := range sweepTargets {
		a, err := vanguard.VerifServerAdder(t.name)
		if err != nil {
			panic(err)
		}
		w.add = append(w.add, a)
	}
	return w
}

// T is the client's timeout in ns if it fits 63 bits (fits=true).
func (w *sweepWorker) one(value string, T int64, fits bool) {
	clear(w.in)
	w.val[0] = value
	w.in[w.cl.header] = w.val
	meta, err := w.extract(w.in)
	w.n++
	if err != nil {
		w.evals++
		w.report("", value, "", false, err)
		return
	}
	for i := range sweepTargets {
		t := &sweepTargets[i]
		clear(w.out)
		w.add[i](meta, w.out)
		vs := w.out[t.tg.header]
		present := len(vs) > 0
		got := ""
		if present {
			got = vs[0]
		}
		if w.answers != nil {
			*w.answers = append(*w.answers, sweepViolation{Client: w.cl.name, Target: t.name, Value: value, Out: got, Present: present})
		}
		ok, handled := false, false
		if fits {
			ok, handled = fastJudge(T, t.kind, got, present)
		}
		check := !handled || !ok || (w.n&4095) == 0
		if handled && ok && present && got != value {
			w.nontr++
		}
		if check {
			Tr, validity := w.cl.parse(value)
			if validity == reftimeout.Malformed {
				w.s.disagree("sweep generated %q for %s, which the reference grammar calls malformed", value, w.cl.header)
				continue
			}
			v := c12Judge(Tr, t.tg, got, present)
			w.exact++
			if handled {
				w.cross++
				if ok != (v.clause == "") {
					w.s.disagree("64-bit and exact oracle disagree on %s=%q -> %s %q (present=%v): fast ok=%v, exact clause=%q", w.cl.header, value, t.name, got, present, ok, v.clause)
				}
			}
			if v.clause != "" {
				w.s.violation(sweepViolation{Client: w.cl.name, Target: t.name, Value: value, Out: got, Present: present, Clause: v.clause, Class: v.class, Detail: v.detail})
			}
		}
	}
	w.evals += int64(len(sweepTargets))
}

func (w *sweepWorker) report(target, value, got string, present bool, err error) {
	if w.answers != nil {
		*w.answers = append(*w.answers, sweepViolation{Client: w.cl.name, Target: "*", Value: value, Err: err.Error()})
	}
	_, validity := w.cl.parse(value)
	if validity != reftimeout.Valid {
		return
	}
	w.s.violation(sweepViolation{Client: w.cl.name, Target: "*", Value: value, Err: err.Error(), Clause: "C12.valid-timeout-rejected", Class: "valid-rejected",
		Detail: fmt.Sprintf("syntactically valid timeout rejected by the client protocol's header extraction: %v", err)})
}

func (s *sweeper) disagree(format string, args ...any) {
	s.mu.Lock()
	if len(s.res.Disagreements) < 20 {
		s.res.Disagreements = append(s.res.Disagreements, fmt.Sprintf(format, args...))
	}
	s.mu.Unlock()
}

func (s *sweeper) violation(v sweepViolation) {
	s.mu.Lock()
	s.nviol++
	if len(s.res.Violations) < sweepMaxViol {
		s.res.Violations = append(s.res.Violations, v)
	}
	s.mu.Unlock()
}

// parallel runs fn(worker, i) for i in [0,n) on all cores, in contiguous blocks.
func (s *sweeper) parallel(cl sweepClient, n int64, fn func(w *sweepWorker, i int64)) {
	workers := int64(runtime.GOMAXPROCS(0))
	const block = 1 << 16
	var next atomic.Int64
	var wg sync.WaitGroup
	for k := int64(0); k < workers; k++ {
		wg.Add(1)
		go func() {
			defer wg.Done()
			w := s.worker(cl)
			defer w.flush()
			for {
				lo := next.Add(block) - block
				if lo >= n {
					return
				}
				hi := lo + block
				if hi > n {
					hi = n
				}
				for i := lo; i < hi; i++ {
					fn(w, i)
				}
			}
		}()
	}
	wg.Wait()
	s.mu.Lock()
	s.res.PerClient[cl.name] += n
	s.mu.Unlock()
}

func (s *sweeper) sweepGRPC(cl sweepClient, limit int64) {
	units := "HMSmun"
	for ui := 0; ui < len(units); ui++ {
		u := units[ui]
		uns := grpcUnitNS[u]
		s.parallel(cl, limit, func(w *sweepWorker, i int64) {
			var buf [12]byte
			b := strconv.AppendInt(buf[:0], i, 10)
			b = append(b, u)
			fits := i <= maxInt64/uns
			w.one(string(b), i*uns, fits)
		})
	}
	// leading zeros: every numeral below 1000 padded to every width up to 8
	var padded []string
	for i := 0; i < 1000; i++ {
		d := strconv.Itoa(i)
		for wd := len(d) + 1; wd <= 8; wd++ {
			padded = append(padded, fmt.Sprintf("%0*d", wd, i))
		}
	}
	for ui := 0; ui < len(units); ui++ {
		u := units[ui]
		s.parallel(cl, int64(len(padded)), func(w *sweepWorker, i int64) {
			n, _ := strconv.ParseInt(padded[i], 10, 64)
			w.one(padded[i]+string(u), n*grpcUnitNS[u], true)
		})
	}
}

// sweepGRPCStride covers the rest of the 8-digit range thinly (quick tier): one numeral in every
// window of `stride`, the position inside the window varying, in every unit.
func (s *sweeper) sweepGRPCStride(cl sweepClient, from, stride int64) {
	units := "HMSmun"
	n := (100_000_000 - from) / stride
	for ui := 0; ui < len(units); ui++ {
		u := units[ui]
		uns := grpcUnitNS[u]
		s.parallel(cl, n, func(w *sweepWorker, i int64) {
			v := from + i*stride + (i*7919)%stride
			var buf [12]byte
			b := strconv.AppendInt(buf[:0], v, 10)
			b = append(b, u)
			w.one(string(b), v*uns, v <= maxInt64/uns)
		})
	}
}

func (s *sweeper) sweepConnect(cl sweepClient, limit int64) {
	s.parallel(cl, limit, func(w *sweepWorker, i int64) {
		w.one(strconv.FormatInt(i, 10), i*1e6, true)
	})
	// 9 and 10 digits: d x 10^k +- 0..2000 for every leading digit, and the top of the range
	var vals []int64
	for k := int64(100_000_000); k <= 1_000_000_000; k *= 10 {
		for d := int64(1); d <= 9; d++ {
			for o := int64(-2000); o <= 2000; o++ {
				v := d*k + o
				if v >= limit && v <= 9_999_999_999 {
					vals = append(vals, v)
				}
			}
		}
	}
	for o := int64(0); o <= 4000; o++ {
		vals = append(vals, 9_999_999_999-o)
	}
	s.parallel(cl, int64(len(vals)), func(w *sweepWorker, i int64) {
		w.one(strconv.FormatInt(vals[i], 10), vals[i]*1e6, true)
	})
}

func (s *sweeper) sweepREST(cl sweepClient, scale int64) {
	// i.f for i in 0..99 and every fraction of 0..5 digits (scale shrinks the integer range)
	pow := []int64{1, 10, 100, 1000, 10000, 100000, 1000000, 10000000, 100000000, 1000000000}
	ints := 100 / scale
	if ints < 2 {
		ints = 2
	}
	for digits := 0; digits <= 5; digits++ {
		d := digits
		s.parallel(cl, ints*pow[d], func(w *sweepWorker, k int64) {
			ip, f := k/pow[d], k%pow[d]
			v := strconv.FormatInt(ip, 10)
			if d > 0 {
				v += "." + fmt.Sprintf("%0*d", d, f)
			}
			w.one(v, ip*1e9+f*pow[9-d], true)
		})
	}
	// nanosecond grid: i.000xxxxxx and i.xxxxxx000 (9 fraction digits) for a few integer parts
	for _, ip := range []int64{0, 1, 7, 59, 3600} {
		ipv := ip
		s.parallel(cl, pow[6]/scale, func(w *sweepWorker, k int64) { // i.000xxxxxx
			w.one(fmt.Sprintf("%d.%09d", ipv, k), ipv*1e9+k, true)
		})
		s.parallel(cl, pow[6]/scale, func(w *sweepWorker, k int64) { // i.xxxxxx000
			w.one(fmt.Sprintf("%d.%09d", ipv, k*1000), ipv*1e9+k*1000, true)
		})
	}
}

// sweepMain: args[0] = "full" | "smoke" | "values:<file>" (JSON list of [client, value]).
func sweepMain(args []string) int {
	s := &sweeper{}
	s.res.PerClient = map[string]int64{}
	mode := "full"
	if len(args) > 0 {
		mode = args[0]
	}
	switch {
	case len(mode) > 7 && mode[:7] == "values:":
		b, err := os.ReadFile(mode[7:])
		if err != nil {
			fmt.Fprintln(os.Stderr, err)
			return 2
		}
		var vals [][2]string
		if err := json.Unmarshal(b, &vals); err != nil {
			fmt.Fprintln(os.Stderr, err)
			return 2
		}
		for _, cv := range vals {
			for _, cl := range sweepClients {
				if cl.name != cv[0] {
					continue
				}
				w := s.worker(cl)
				w.answers = &s.res.Answers
				Tr, validity := cl.parse(cv[1])
				if validity == reftimeout.Malformed {
					continue
				}
				fits := Tr.NS.IsInt64() && Tr.Exact == nil || (Tr.Exact != nil && Tr.Exact.IsInt() && Tr.NS.IsInt64())
				T := int64(0)
				if fits {
					T = Tr.NS.Int64()
				}
				w.one(cv[1], T, fits)
				w.flush()
			}
		}
	default:
		limit, scale := int64(100_000_000), int64(1)
		if mode == "smoke" {
			limit, scale = 40_000, 100
		}
		for _, cl := range sweepClients {
			switch cl.header {
			case "Grpc-Timeout":
				s.sweepGRPC(cl, limit)
				if mode == "smoke" {
					s.sweepGRPCStride(cl, limit, 997)
				}
			case "Connect-Timeout-Ms":
				s.sweepConnect(cl, limit)
			default:
				s.sweepREST(cl, scale)
			}
		}
		if mode == "smoke" {
			s.res.Domains = append(s.res.Domains, fmt.Sprintf("(quick tier) Grpc-Timeout above %d: one numeral in every window of 997, in every unit", limit-1))
		}
		s.res.Domains = append(s.res.Domains, []string{
			fmt.Sprintf("Grpc-Timeout (clients grpc, grpc-web): every numeral 0..%d in each of the units H M S m u n, and every numeral below 1000 zero-padded to every width up to 8", limit-1),
			fmt.Sprintf("Connect-Timeout-Ms (clients connect-unary, connect-stream): every value 0..%d; d x 10^k +- 0..2000 for the 9- and 10-digit values; the top 4001 values below 10^10", limit-1),
			"X-Server-Timeout (client rest): i.f for every integer part below 100 and every fraction of 0..5 digits; 9-digit fractions 000xxxxxx and xxxxxx000 for the integer parts 0, 1, 7, 59, 3600",
			"each value through extractProtocolRequestHeaders of the client protocol, then addProtocolRequestHeaders of each of the five target protocols",
		}...)
	}
	s.res.Evaluations = s.evals
	s.res.Nontrivial = s.nontr
	s.res.ExactJudged = s.exact
	s.res.CrossChecked = s.cross
	s.res.NViolations = s.nviol
	b, _ := json.Marshal(&s.res)
	fmt.Println(string(b))
	return 0
}
