package props

import (
	"compress/gzip"
	"context"
	"io"
	"net/http"
	"sync/atomic"

	"connectrpc.com/connect"
	"connectrpc.com/vanguard"
	"connectrpc.com/vanguard/verifharness/drive"
	"connectrpc.com/vanguard/verifharness/wire"
	"connectrpc.com/vanguard/verifharness/world"
	"connectrpc.com/vanguard/verifharness/xplor"
)

// C17, scenario "instances": what one NewTranscoder call registers (WithCompression, WithCodec) belongs to
// that Transcoder. Two Transcoders are built one after the other in both orders; the second names a
// compression / codec only the first registered (must be rejected), or the first overrides "gzip" with an
// implementation of its own (the other Transcoder must keep using its own). Runs serially and first: if
// registrations leak between instances, the parallel enumeration that follows would be meaningless.

type c17CountingComp struct {
	*gzip.Writer
	n *atomic.Int64
}

func (c c17CountingComp) Reset(w io.Writer) { c.n.Add(1); c.Writer.Reset(w) }

type c17CountingDecomp struct {
	*gzip.Reader
	n *atomic.Int64
}

func (d c17CountingDecomp) Reset(r io.Reader) error { d.n.Add(1); return d.Reader.Reset(r) }

func c17InstancesScenario(c *xplor.Ctx) {
	svc, _ := c17Services()
	kind := c.Choose("kind", 4)   // 0 baseline / 1 unknown compression name / 2 unknown codec name / 3 gzip override
	order := c.Choose("order", 2) // which Transcoder is built first
	calls := 0
	handler := http.HandlerFunc(func(w http.ResponseWriter, r *http.Request) {
		calls++
		_, _ = io.ReadAll(r.Body)
		w.Header().Set("Content-Type", r.Header.Get("Content-Type"))
		w.WriteHeader(200)
	})
	var uses atomic.Int64
	mk := func(so []vanguard.ServiceOption, to ...vanguard.TranscoderOption) (*vanguard.Transcoder, error) {
		return vanguard.NewTranscoder([]*vanguard.Service{vanguard.NewServiceWithSchema(svc, handler, so...)}, to...)
	}
	type build struct {
		so []vanguard.ServiceOption
		to []vanguard.TranscoderOption
	}
	var owner, other build
	c.Attr("instances", []string{"baseline", "compression-name", "codec-name", "gzip-override"}[kind])
	switch kind {
	case 0:
		owner.so, other.so = []vanguard.ServiceOption{vanguard.WithTargetCompression("gzip")}, []vanguard.ServiceOption{vanguard.WithTargetCompression("gzip")}
	case 1:
		owner.so = []vanguard.ServiceOption{vanguard.WithTargetCompression("c17own")}
		owner.to = []vanguard.TranscoderOption{vanguard.WithCompression("c17own",
			func() connect.Compressor { return c17CountingComp{gzip.NewWriter(io.Discard), &uses} },
			func() connect.Decompressor { return c17CountingDecomp{&gzip.Reader{}, &uses} })}
		other.so = []vanguard.ServiceOption{vanguard.WithTargetCompression("c17own")}
	case 2:
		owner.so = []vanguard.ServiceOption{vanguard.WithTargetCodecs("c17own")}
		owner.to = []vanguard.TranscoderOption{vanguard.WithCodec(func(res vanguard.TypeResolver) vanguard.Codec { return c17NamedCodec{world.AltCodec{Res: res}} })}
		other.so = []vanguard.ServiceOption{vanguard.WithTargetCodecs("c17own")}
	case 3:
		owner.so = []vanguard.ServiceOption{vanguard.WithTargetCodecs("proto")}
		owner.to = []vanguard.TranscoderOption{vanguard.WithCompression("gzip",
			func() connect.Compressor { return c17CountingComp{gzip.NewWriter(io.Discard), &uses} },
			func() connect.Decompressor { return c17CountingDecomp{&gzip.Reader{}, &uses} })}
		other.so = []vanguard.ServiceOption{vanguard.WithTargetCodecs("proto")}
	}
	var tOwner, tOther *vanguard.Transcoder
	var errOwner, errOther error
	if order == 0 {
		tOwner, errOwner = mk(owner.so, owner.to...)
		tOther, errOther = mk(other.so, other.to...)
	} else {
		tOther, errOther = mk(other.so, other.to...)
		tOwner, errOwner = mk(owner.so, owner.to...)
	}
	if errOwner != nil {
		c.Fail("C17.rejected-servable", "instances/%d: the Transcoder that registers what its service names was rejected: %v", kind, errOwner)
		return
	}
	c.Nontrivial(c.Attrs["instances"])
	switch kind {
	case 1, 2:
		if errOther == nil {
			c.Attr("class", "registration-leaks-between-instances")
			c.Fail("C17.accepted-unservable", "a service names the %s \"c17own\", which only ANOTHER Transcoder of the process registered (built %s); NewTranscoder accepted it", []string{"", "compression", "codec"}[kind], []string{"before", "after"}[order])
		}
		c.Outcome("rejected")
		return
	}
	if errOther != nil {
		c.Fail("C17.rejected-servable", "instances/%d: plain configuration rejected: %v", kind, errOther)
		return
	}
	// serve a gzip-compressed JSON request for a proto-only service through the Transcoder that did NOT
	// override gzip: the override's implementation must not be used
	serve := func(t *vanguard.Transcoder) int {
		cr := &wire.ClientReq{Form: wire.ConnectUnary, Path: "/verif.c.Svc/Get", Codec: "json", Compression: "gzip", Accept: []string{"gzip"}, Msgs: [][]byte{Enc("json", MkMsg(`{"name":"xxxxxxxxxxxxxxxxxxxxxxxxxxxxxxxxxxxxxxxxxxxxxxxxxxxxxxxxxxxxxxxx"}`))}}
		spec := world.SpecFromClient(cr)
		req, _ := spec.Build(context.Background())
		rec := drive.NewRecorder()
		if pi := drive.Serve(t, rec, rec, req, spec.Body); pi != nil {
			c.Fail("C17.panic", "instances: %s", pi.Value)
		}
		return rec.Status
	}
	before := uses.Load()
	st := serve(tOther)
	if d := uses.Load() - before; d != 0 && kind == 3 {
		c.Attr("class", "registration-leaks-between-instances")
		c.Fail("C17.options-not-honoured", "a Transcoder built WITHOUT WithCompression served a gzip request with the gzip implementation another Transcoder registered for itself (%d uses; the other one was built %s)", d, []string{"before", "after"}[order])
	}
	if calls != 1 {
		c.Fail("C17.options-not-honoured", "instances/%d: plain gzip request was not served (HTTP %d, %d backend calls)", kind, st, calls)
	}
	if kind == 3 {
		before = uses.Load()
		serve(tOwner)
		if uses.Load() == before {
			c.Fail("C17.options-not-honoured", "the Transcoder that overrides gzip did not use its own implementation")
		}
	}
	c.Outcome("served")
}

// c17NamedCodec is the harness's extra codec under a name no other check uses.
type c17NamedCodec struct{ world.AltCodec }

func (c17NamedCodec) Name() string { return "c17own" }
