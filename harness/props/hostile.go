package props

import (
	"context"
	"fmt"
	"net/http"
	"strings"

	"connectrpc.com/vanguard"

	"connectrpc.com/vanguard/verifharness/drive"
	"connectrpc.com/vanguard/verifharness/wire"
	"connectrpc.com/vanguard/verifharness/world"
	"connectrpc.com/vanguard/verifharness/xplor"
)

// The hostile scenario space shared by C11 (robustness) and C18 (dispatch discipline):
// a default well-formed request/response pair, from which up to D components deviate.

type hostileResult struct {
	Ex        *world.Exchange
	Svc       *hostileBackend
	Unknown   *hostileBackend
	ParentCtx context.Context
	Cancel    context.CancelFunc
	Desc      []string
	// RejectExpected: the request carries a defect that the transcoder must reject during
	// validation (so no handler may be invoked). Only set for unambiguous classes.
	RejectExpected string
	BuildErr       error
	post           func()
}

type hostileBackend struct {
	Calls      int
	Ctxs       []context.Context
	Direct     bool // was handed the raw recorder (pass-through / unknown handler)
	script     func(hb *hostileBackend, w http.ResponseWriter, r *http.Request)
	keptW      http.ResponseWriter
	keptBody   interface{ Read([]byte) (int, error) }
	keptFlush  http.Flusher
	ReadErr    string
	BodyBytes  int
	Spin       bool
	readPolicy int
}

func (hb *hostileBackend) ServeHTTP(w http.ResponseWriter, r *http.Request) {
	hb.Calls++
	hb.Ctxs = append(hb.Ctxs, r.Context())
	switch w.(type) {
	case *drive.Recorder, drive.FlushErrorOnly, drive.UnwrapOnly, drive.NoFlush:
		hb.Direct = true // handed the server's own writer: pass-through or unknown handler
	}
	hb.keptW, hb.keptBody = w, r.Body
	hb.keptFlush, _ = w.(http.Flusher)
	switch hb.readPolicy {
	case 0: // read everything
		buf := make([]byte, 512)
		for i := 0; ; i++ {
			n, err := r.Body.Read(buf)
			hb.BodyBytes += n
			if err != nil {
				if err.Error() != "EOF" {
					hb.ReadErr = err.Error()
				}
				break
			}
			if i >= 20000 {
				hb.Spin = true // reads keep returning without EOF or error: a read loop never ends
				break
			}
		}
	case 1: // read nothing
	case 2: // read one byte
		var b [1]byte
		n, _ := r.Body.Read(b[:])
		hb.BodyBytes += n
	}
	if hb.script != nil {
		hb.script(hb, w, r)
	}
}

var hostileBodies = func() [][]byte {
	alpha := []byte{0x00, 0x01, 0x02, 0x80, 0xff}
	out := [][]byte{}
	for _, a := range alpha {
		out = append(out, []byte{a})
	}
	for _, a := range alpha {
		for _, b := range alpha {
			out = append(out, []byte{a, b})
		}
	}
	msg := Enc("proto", MkMsg(`{"name":"a"}`))
	out = append(out,
		nil,
		wire.AppendFrame(nil, 0, nil),
		wire.AppendFrame(wire.AppendFrame(nil, 0, msg), 0, msg),
		[]byte{0, 0xff, 0xff, 0xff, 0xff},
		[]byte{0, 0, 0, 0, 9, 1, 2},
		wire.AppendFrame(nil, 1, msg),
		wire.AppendFrame(nil, 2, []byte(`{}`)),
		wire.AppendFrame(nil, 0x80, []byte("grpc-status: 0\r\n")),
		[]byte(`{}`), []byte(`{`), []byte(`{"name":"a","num":"x"}`), []byte(`[]`), []byte("\x1f\x8b\x08\x00garbage"),
		wire.GzipCompress(wire.AppendFrame(nil, 0, msg)),
		[]byte(strings.Repeat("\xff", 12)),
	)
	return out
}()

var hostileTargets = []string{
	"/verif.v1.Svc/Unary", "/verif.v1.Svc/Pure", "/verif.v1.Svc/Bidi", "/verif.v1.Svc/CStream", "/verif.v1.Svc/SStream", "/verif.v1.Svc/NoRule",
	"/verif.v1.Svc/Nope", "/verif.v1.Svc/", "/verif.v1.Nope/Unary", "/", "//", "/:", "/v1/unary", "/v1/unary/", "/v1/pure/x", "/v1/pure/x:", "/v1/pure/",
	"/v1/pure/a%2Fb", "/v1/pure/%41", "/v1/multi/a/b/c", "/v1/multi/", "/v1/m2/a/b/x/y", "/v1/nested/x:act", "/v1/nested/x:nope", "/v1/scalar/x/y",
	"/v1/blob/n", "/v1/raw", "/v1/down/f", "/v1/up/f", "/v1/idem/k", "/" + strings.Repeat("a", 4096),
	"/verif.v1.Svc/RawIO", "/verif.v1.Svc/Download", "/verif.v1.Svc/Upload", "/verif.v1.Svc/Blob", "/verif.v1.Svc/Idem",
}

var hostileQueries = []string{
	"", "connect=v1&encoding=proto&message=", "connect=v1&encoding=json&message=%7B%7D", "connect=v1&encoding=proto&message=CgFh&base64=1",
	"connect=v1&encoding=json&message=e30&base64=1&compression=gzip", "connect=v1&connect=v1&encoding=proto&encoding=json&message=&message=x&base64=1&base64=0",
	"connect=v1", "connect=v2&encoding=proto", "connect=v1&encoding=nope&message=", "connect=v1&encoding=proto&message=%ff&base64=2",
	"num.=1", ".num=1", "child..name=x", "=1", "num.x=1", "num=1&num=2", "tags=a&tags=b", "pv.int32_value=abc", "name=%zz", "nope=1", "child=1",
	"child." + strings.Repeat("child.", 64) + "name=x", "all.int32_to_string_map=1", "pv.nested_map=1", "body.data=AA", "st=1", "kids=1", "raw=%%%", "pv.enum_value=ENUM_VALUE&pv.enum_list=5",
	"name=a&extra_text=b&extraText=c", "&&&", "a=b=c",
}

var hostileContentTypes = [][]string{
	{"application/grpc-web+proto"}, {"application/grpc+proto"}, {"application/grpc"}, {"application/grpc-web"}, {"application/connect+proto"}, {"application/connect+json"},
	{"application/proto"}, {"application/json"}, {"application/json; charset=utf-8"}, {"application/"}, {"application/grpc-web+"}, {"application/grpc+"}, {"application/connect+"},
	nil, {"application/grpc", "application/json"}, {"text/plain"}, {"application/grpc-web+nope"}, {"application/alt"}, {"application/x-www-form-urlencoded"}, {"APPLICATION/JSON"}, {""},
}

type hdrKV struct{ k, v string }

var hostileHeaders = []hdrKV{
	{"Connect-Protocol-Version", "1"}, {"Connect-Protocol-Version", "2"}, {"Content-Encoding", "gzip"}, {"Content-Encoding", "identity"}, {"Content-Encoding", "nope"},
	{"Grpc-Encoding", "gzip"}, {"Grpc-Encoding", "nope"}, {"Grpc-Encoding", "identity"}, {"Connect-Content-Encoding", "gzip"}, {"Connect-Content-Encoding", "nope"},
	{"Grpc-Timeout", "1S"}, {"Grpc-Timeout", "abc"}, {"Grpc-Timeout", "99999999999H"}, {"Grpc-Timeout", "H"}, {"Grpc-Timeout", "-1S"},
	{"Connect-Timeout-Ms", "100"}, {"Connect-Timeout-Ms", "x"}, {"Connect-Timeout-Ms", "-5"}, {"Connect-Timeout-Ms", "99999999999999999999"},
	{"X-Server-Timeout", "1.5"}, {"X-Server-Timeout", "abc"}, {"X-Server-Timeout", "-1"}, {"X-Server-Timeout", "NaN"}, {"X-Server-Timeout", "1e400"},
	{"Accept-Encoding", "gzip, nope"}, {"Grpc-Accept-Encoding", ",,gzip,"}, {"Te", "trailers"}, {"Trailer", "X-A"}, {"Content-Length", "5"},
}

var hostileMethods = []string{"POST", "GET", "PUT", "HEAD", "DELETE", "PATCH", "", "M-SEARCH", "OPTIONS"}

// backend misbehaviours
type hostileReply struct {
	name   string
	script func(hb *hostileBackend, w http.ResponseWriter, r *http.Request)
}

func hostileReplies() []hostileReply {
	frame := wire.AppendFrame(nil, 0, Enc("proto", MkMsg(`{"name":"r"}`)))
	webEnd := wire.AppendFrame(nil, 0x80, []byte("grpc-status: 0\r\n"))
	connEnd := wire.AppendFrame(nil, 2, []byte(`{}`))
	head := func(status int, kv ...string) func(w http.ResponseWriter) {
		return func(w http.ResponseWriter) {
			for i := 0; i+1 < len(kv); i += 2 {
				w.Header().Add(kv[i], kv[i+1])
			}
			w.WriteHeader(status)
		}
	}
	// a reply in whatever protocol the request is in
	auto := func(mut func(sr *wire.ServerResp, out *wire.ServerOut, rep *world.Reply)) func(hb *hostileBackend, w http.ResponseWriter, r *http.Request) {
		return func(hb *hostileBackend, w http.ResponseWriter, r *http.Request) {
			f, codec, _ := wire.ClassifyRequest(r.Method, r.URL, r.Header)
			if codec == "" || (codec != "proto" && codec != "json") {
				codec = "proto"
			}
			sr := &wire.ServerResp{Form: world.ServerFormFor(f), Codec: codec, Msgs: [][]byte{Enc(codec, MkMsg(`{"name":"r"}`))}}
			out := sr.Encode()
			rep := &world.Reply{Out: out, ContentLength: -1, ReturnAfter: -1}
			if mut != nil {
				mut(sr, out, rep)
			}
			world.WriteReply(w, rep, nil)
		}
	}
	rs := []hostileReply{
		{"ok", auto(nil)},
		{"nothing", func(*hostileBackend, http.ResponseWriter, *http.Request) {}},
	}
	// error heads the way real servers and proxies write them: with the body's Content-Length
	for i, e := range []struct {
		status int
		ct     string
		body   string
		hdr    map[string]string
	}{
		{503, "text/plain", "upstream connect error", nil},
		{404, "application/json", `{"code":5,"message":"no such thing"}`, nil},
		{404, "application/json; charset=utf-8", `{"code":"not_found","message":"no such thing"}`, nil},
		{200, "", "", map[string]string{"Grpc-Status": "5", "Grpc-Message": "no such thing"}},
		{429, "application/json", `{"code":"resource_exhausted"}`, nil},
	} {
		e := e
		rs = append(rs, hostileReply{fmt.Sprintf("error-head-with-content-length-%d", i), func(hb *hostileBackend, w http.ResponseWriter, r *http.Request) {
			ct := e.ct
			if ct == "" {
				ct = r.Header.Get("Content-Type")
			}
			w.Header().Set("Content-Type", ct)
			for k, v := range e.hdr {
				w.Header().Set(k, v)
			}
			w.Header().Set("Content-Length", fmt.Sprint(len(e.body)))
			w.WriteHeader(e.status)
			if e.body != "" {
				_, _ = w.Write([]byte(e.body))
			}
		}})
	}
	// grpc-message values around the percent-decoder: broken escapes at every position,
	// alone and next to valid ones, invalid UTF-8 when decoded
	for i, gm := range []string{"%", "%4", "a%", "a%4", "%41%", "%41%4", "d%C3%A9bit at 100%", "%C3%A9%2", "%%41", "%zz%41", "%41%zz", "%FF%FE", "%C3", "%00", "%0A%0D", strings.Repeat("%41", 300) + "%"} {
		gm := gm
		for _, inTrailer := range []bool{false, true} {
			inTrailer := inTrailer
			rs = append(rs, hostileReply{fmt.Sprintf("grpc-message-%d-trailer=%v", i, inTrailer), func(hb *hostileBackend, w http.ResponseWriter, r *http.Request) {
				ct := r.Header.Get("Content-Type")
				if ct == "" {
					ct = "application/grpc+proto"
				}
				w.Header().Set("Content-Type", ct)
				if !inTrailer {
					w.Header().Set("Grpc-Status", "9")
					w.Header().Set("Grpc-Message", gm)
					w.WriteHeader(200)
					return
				}
				w.WriteHeader(200)
				_, _ = w.Write(frame)
				w.Header().Set(http.TrailerPrefix+"Grpc-Status", "9")
				w.Header().Set(http.TrailerPrefix+"Grpc-Message", gm)
			}})
		}
	}
	for _, st := range []int{99, 100, 101, 199, 204, 304, 302, 404, 500, 600, 999, 1000, 0, -1} {
		st := st
		rs = append(rs, hostileReply{fmt.Sprintf("status-%d", st), auto(func(_ *wire.ServerResp, out *wire.ServerOut, _ *world.Reply) { out.Status = st })})
	}
	for _, gs := range []string{"17", "-1", "4294967296", "abc", "", "0", "16", "99"} {
		gs := gs
		rs = append(rs, hostileReply{"grpc-status-" + gs, func(hb *hostileBackend, w http.ResponseWriter, r *http.Request) {
			ct := r.Header.Get("Content-Type")
			if ct == "" {
				ct = "application/grpc+proto"
			}
			w.Header().Set("Content-Type", ct)
			w.Header().Set("Grpc-Status", gs)
			w.Header().Set("Grpc-Message", "m%zz")
			w.WriteHeader(200)
		}})
		rs = append(rs, hostileReply{"grpc-trailer-status-" + gs, func(hb *hostileBackend, w http.ResponseWriter, r *http.Request) {
			ct := r.Header.Get("Content-Type")
			if ct == "" {
				ct = "application/grpc+proto"
			}
			w.Header().Set("Content-Type", ct)
			w.WriteHeader(200)
			_, _ = w.Write(frame)
			w.Header().Set(http.TrailerPrefix+"Grpc-Status", gs)
			w.Header().Set(http.TrailerPrefix+"Grpc-Status-Details-Bin", "!!!")
		}})
	}
	// (incl. the edges of the integer types a parser may pass through: 2^31, 2^32, 2^63-1, 2^63, 2^64-5, 2^64-1, 2^64)
	for _, cl := range []string{"0", "5", "6", "10", "-1", "abc", "99999999999999999999", "+5", " 5", "5 ", "0x5", "2147483648", "4294967296", "4294967301",
		"9223372036854775807", "9223372036854775808", "18446744073709551611", "18446744073709551615", "18446744073709551616"} {
		cl := cl
		rs = append(rs, hostileReply{"content-length-" + cl, auto(func(_ *wire.ServerResp, out *wire.ServerOut, _ *world.Reply) { out.Header.Set("Content-Length", cl) })})
	}
	type bodyFn func(msg []byte) []byte
	fr := func(flags byte, p []byte) []byte { return wire.AppendFrame(nil, flags, p) }
	cat := func(parts ...[]byte) []byte {
		var out []byte
		for _, p := range parts {
			out = append(out, p...)
		}
		return out
	}
	bodies := []struct {
		name string
		fn   bodyFn
	}{
		{"empty", func([]byte) []byte { return nil }},
		{"zeros5", func([]byte) []byte { return []byte{0, 0, 0, 0, 0} }},
		{"hello", func([]byte) []byte { return []byte("hello") }},
		{"web-end-only", func([]byte) []byte { return webEnd }},
		{"conn-end-only", func([]byte) []byte { return connEnd }},
		{"frame-no-end", func(m []byte) []byte { return fr(0, m) }},
		{"len-gt-actual", func([]byte) []byte { return []byte{0, 0, 0, 0, 9, 1} }},
		{"ff12", func([]byte) []byte { return []byte(strings.Repeat("\xff", 12)) }},
		{"frame+web-end+junk", func(m []byte) []byte { return cat(fr(0, m), webEnd, []byte{1, 2, 3}) }},
		{"frame+web-end+frame", func(m []byte) []byte { return cat(fr(0, m), webEnd, fr(0, m)) }},
		{"frame+conn-end+frame", func(m []byte) []byte { return cat(fr(0, m), connEnd, fr(0, m)) }},
		{"two-ends", func([]byte) []byte { return cat(connEnd, connEnd) }},
		{"two-web-ends", func(m []byte) []byte { return cat(fr(0, m), webEnd, webEnd) }},
		{"huge-len", func([]byte) []byte { return []byte{0, 0xff, 0xff, 0xff, 0xff} }},
		{"compressed-flag", func(m []byte) []byte { return fr(1, m) }},
		{"end-bad-json", func([]byte) []byte { return fr(2, []byte(`{"error":`)) }},
		{"end-error-code", func([]byte) []byte { return fr(2, []byte(`{"error":{"code":"code_17"}}`)) }},
		{"web-end-bad", func([]byte) []byte { return fr(0x80, []byte("no colon here\r\n")) }},
		{"web-end-status17", func([]byte) []byte { return fr(0x80, []byte("grpc-status: 17\r\n")) }},
		{"web-end-empty", func([]byte) []byte { return fr(0x80, nil) }},
		{"frame-undecodable", func([]byte) []byte { return fr(0, []byte{0xff, 0xff}) }},
		{"empty-frame+end", func([]byte) []byte { return cat(fr(0, nil), webEnd) }},
		{"json-error-body", func([]byte) []byte { return []byte(`{"code":"code_17","message":"x"}`) }},
		{"rest-status-body", func([]byte) []byte {
			return []byte(`{"code":17,"message":"x","details":[{"@type":"type.googleapis.com/nope"}]}`)
		}},
	}
	for _, bd := range bodies {
		fn := bd.fn
		rs = append(rs, hostileReply{"body-" + bd.name, auto(func(sr *wire.ServerResp, out *wire.ServerOut, _ *world.Reply) { out.Body = fn(sr.Msgs[0]) })})
		rs = append(rs, hostileReply{"errbody-" + bd.name, auto(func(sr *wire.ServerResp, out *wire.ServerOut, _ *world.Reply) {
			out.Body = fn(sr.Msgs[0])
			out.Status = 500
			if out.Header.Get("Content-Type") != "" && !strings.Contains(out.Header.Get("Content-Type"), "grpc") && !strings.Contains(out.Header.Get("Content-Type"), "connect+") {
				out.Header.Set("Content-Type", "application/json")
			}
		})})
	}
	for _, ct := range []string{"", "text/html", "application/json", "application/grpc", "application/connect+json", "application/grpc-web+json", "application/", "application/grpc+"} {
		ct := ct
		rs = append(rs, hostileReply{"resp-ct-" + ct, auto(func(_ *wire.ServerResp, out *wire.ServerOut, _ *world.Reply) {
			if ct == "" {
				out.Header.Del("Content-Type")
			} else {
				out.Header.Set("Content-Type", ct)
			}
		})})
	}
	for _, enc := range []string{"gzip", "nope", "identity"} {
		enc := enc
		rs = append(rs, hostileReply{"resp-encoding-" + enc, auto(func(_ *wire.ServerResp, out *wire.ServerOut, _ *world.Reply) {
			out.Header.Set("Grpc-Encoding", enc)
			out.Header.Set("Content-Encoding", enc)
			out.Header.Set("Connect-Content-Encoding", enc)
		})})
	}
	rs = append(rs,
		hostileReply{"second-writeheader", func(hb *hostileBackend, w http.ResponseWriter, r *http.Request) {
			auto(nil)(hb, w, r)
			w.WriteHeader(500)
			_, _ = w.Write([]byte("late"))
		}},
		// framing headers that the handler sets AFTER its head (net/http ignores them there): they
		// must not frame what the transcoder sends
		hostileReply{"late-content-length-then-error", func(hb *hostileBackend, w http.ResponseWriter, r *http.Request) {
			ct := r.Header.Get("Content-Type")
			if ct == "" {
				ct = "application/grpc+proto"
			}
			head(200, "Content-Type", ct)(w)
			_, _ = w.Write(frame)
			w.Header().Set("Content-Length", "400")
			w.Header().Set(http.TrailerPrefix+"Grpc-Status", "5")
			w.Header().Set(http.TrailerPrefix+"Grpc-Message", "nope")
		}},
		hostileReply{"transfer-encoding-gzip", auto(func(_ *wire.ServerResp, out *wire.ServerOut, _ *world.Reply) { out.Header.Set("Transfer-Encoding", "gzip") })},
		hostileReply{"transfer-encoding-gzip-chunked-error", func(hb *hostileBackend, w http.ResponseWriter, r *http.Request) {
			w.Header().Set("Content-Type", "text/plain")
			w.Header().Set("Transfer-Encoding", "gzip, chunked")
			w.WriteHeader(503)
			_, _ = w.Write([]byte("upstream said no"))
		}},
		hostileReply{"late-content-length-then-ok", func(hb *hostileBackend, w http.ResponseWriter, r *http.Request) {
			auto(nil)(hb, w, r)
			w.Header().Set("Content-Length", "3")
			w.Header().Set("Transfer-Encoding", "chunked")
		}},
		hostileReply{"late-content-length-then-return", func(hb *hostileBackend, w http.ResponseWriter, r *http.Request) {
			head(200, "Content-Type", r.Header.Get("Content-Type"))(w)
			w.Header().Set("Content-Length", "400")
		}},
		hostileReply{"writeheader-twice-first", func(hb *hostileBackend, w http.ResponseWriter, r *http.Request) {
			head(200, "Content-Type", r.Header.Get("Content-Type"))(w)
			w.WriteHeader(404)
		}},
		hostileReply{"flush-before-headers", func(hb *hostileBackend, w http.ResponseWriter, r *http.Request) {
			if f, ok := w.(http.Flusher); ok {
				f.Flush()
			}
			auto(nil)(hb, w, r)
		}},
		hostileReply{"panic-abort", func(*hostileBackend, http.ResponseWriter, *http.Request) { panic(http.ErrAbortHandler) }},
		hostileReply{"panic-after-write", func(hb *hostileBackend, w http.ResponseWriter, r *http.Request) {
			auto(func(_ *wire.ServerResp, _ *wire.ServerOut, rep *world.Reply) { rep.ReturnAfter = 3 })(hb, w, r)
			panic("boom")
		}},
		hostileReply{"early-return-3", auto(func(_ *wire.ServerResp, _ *wire.ServerOut, rep *world.Reply) { rep.ReturnAfter = 3 })},
		hostileReply{"byte-at-a-time", auto(func(_ *wire.ServerResp, out *wire.ServerOut, rep *world.Reply) {
			for i := 1; i < len(out.Body); i++ {
				rep.Cuts = append(rep.Cuts, i)
			}
			rep.FlushEach = true
		})},
		hostileReply{"trailer-junk", func(hb *hostileBackend, w http.ResponseWriter, r *http.Request) {
			w.Header().Set("Trailer", "X-T, Grpc-Status, Content-Length")
			auto(nil)(hb, w, r)
			w.Header().Set("X-T", "v")
			w.Header().Set(http.TrailerPrefix+"Weird Key", "v")
		}},
		hostileReply{"use-after-return", func(hb *hostileBackend, w http.ResponseWriter, r *http.Request) {
			auto(nil)(hb, w, r)
		}},
	)
	return rs
}

// runHostile builds and executes one hostile exchange according to the choices in c.
func runHostile(c *xplor.Ctx, withUnknown bool) *hostileResult {
	res := &hostileResult{}
	tgts := []vanguard.Protocol{vanguard.ProtocolConnect, vanguard.ProtocolGRPC, vanguard.ProtocolGRPCWeb, vanguard.ProtocolREST}
	ti := c.Free("target-protocol", len(tgts)+1)
	cfg := world.Config{MaxMsg: hostileMaxMsg}
	switch c.Choose("target-codecs", 3) {
	case 1:
		cfg.Codecs = []string{"proto"}
		c.Attr("target-codecs", "proto")
	case 2:
		cfg.Codecs = []string{"json"}
		c.Attr("target-codecs", "json")
	}
	if ti < len(tgts) {
		cfg.Protocols = []vanguard.Protocol{tgts[ti]}
		c.Attr("target", tgts[ti].String())
	} else {
		c.Attr("target", "default")
	}
	// which well-formed base request
	bases := []struct {
		name string
		form wire.Form
		path string
	}{
		{"grpcweb-unary", wire.GRPCWeb, "Unary"}, {"grpc-bidi", wire.GRPC, "Bidi"}, {"connect-unary-json", wire.ConnectUnary, "Unary"},
		{"connect-stream", wire.ConnectStream, "SStream"}, {"connect-get", wire.ConnectGet, "Pure"}, {"rest-post", wire.REST, ""}, {"rest-get", wire.REST, ""},
	}
	bi := c.Free("base", len(bases))
	base := bases[bi]
	c.Attr("base", base.name)
	var spec *drive.ReqSpec
	switch base.name {
	case "rest-post":
		spec = &drive.ReqSpec{Method: "POST", Target: "/v1/unary", Header: http.Header{"Content-Type": {"application/json"}}, ContentLength: -1, Body: drive.NewBody([]byte(`{"name":"a"}`))}
	case "rest-get":
		spec = &drive.ReqSpec{Method: "GET", Target: "/v1/pure/x?num=1", Header: http.Header{}, ContentLength: -1, NoBody: true}
	default:
		codec := "proto"
		if base.name == "connect-unary-json" {
			codec = "json"
		}
		msg := `{"name":"a"}`
		if codec == "proto" && c.Choose("big-message", 2) == 1 {
			// 20 kB in proto, 120 kB as JSON (control characters are escaped six-fold): fits
			// the limit as sent, exceeds it once re-encoded
			msg = `{"name":"` + strings.Repeat(`\u0001`, 20000) + `"}`
		}
		cr := &wire.ClientReq{Form: base.form, Path: world.SvcPath + base.path, Codec: codec, Msgs: [][]byte{Enc(codec, MkMsg(msg))}}
		spec = world.SpecFromClient(cr)
	}
	desc := []string{}
	// ---- deviations of the request
	if m := c.Choose("method", len(hostileMethods)+1); m > 0 {
		spec.Method = hostileMethods[m-1]
		desc = append(desc, "method="+spec.Method)
		if spec.Body == nil && spec.Method != "GET" && spec.Method != "HEAD" {
			spec.NoBody = false
			spec.Body = drive.NewBody(nil)
		}
	}
	path, query, _ := strings.Cut(spec.Target, "?")
	if t := c.Choose("target", len(hostileTargets)+1); t > 0 {
		path = hostileTargets[t-1]
		desc = append(desc, "path="+short100(path))
	}
	if q := c.Choose("query", len(hostileQueries)+1); q > 0 {
		query = hostileQueries[q-1]
		desc = append(desc, "query="+short100(query))
	}
	spec.Target = path
	if query != "" {
		spec.Target += "?" + query
	}
	if ct := c.Choose("content-type", len(hostileContentTypes)+1); ct > 0 {
		spec.Header.Del("Content-Type")
		for _, v := range hostileContentTypes[ct-1] {
			spec.Header.Add("Content-Type", v)
		}
		desc = append(desc, fmt.Sprintf("content-type=%q", hostileContentTypes[ct-1]))
	}
	for k := 0; k < 2; k++ {
		if h := c.Choose(fmt.Sprintf("header%d", k), len(hostileHeaders)+1); h > 0 {
			spec.Header.Add(hostileHeaders[h-1].k, hostileHeaders[h-1].v)
			desc = append(desc, hostileHeaders[h-1].k+"="+hostileHeaders[h-1].v)
		} else {
			break
		}
	}
	if c.Choose("drop-header", 2) == 1 {
		spec.Header.Del("Connect-Protocol-Version")
		spec.Header.Del("Te")
		desc = append(desc, "drop-protocol-headers")
	}
	if pm := c.Choose("proto-major", 2); pm == 1 {
		spec.ProtoMajor = 3 - max(spec.ProtoMajor, 1)
		desc = append(desc, fmt.Sprintf("http/%d", spec.ProtoMajor))
	}
	if b := c.Choose("body", len(hostileBodies)+1); b > 0 {
		spec.NoBody = false
		spec.Body = drive.NewBody(hostileBodies[b-1])
		desc = append(desc, fmt.Sprintf("body=%x", hostileBodies[b-1]))
	}
	if spec.Body != nil {
		switch c.Choose("content-length", 5) {
		case 1:
			spec.ContentLength = -2
			desc = append(desc, "cl=exact")
		case 2:
			spec.ContentLength = int64(len(spec.Body.Data)) + 5
			spec.Body.FailAt, spec.Body.FailErr = len(spec.Body.Data), fmt.Errorf("unexpected EOF")
			desc = append(desc, "cl=+5")
		case 3:
			spec.ContentLength = 0
			desc = append(desc, "cl=0")
		case 4:
			spec.Body.FailAt, spec.Body.FailErr = 0, fmt.Errorf("connection reset")
			desc = append(desc, "read-error@0")
		}
	}
	// ---- backend behaviour
	replies := hostileReplies()
	ri := c.Choose("reply", len(replies))
	rp := c.Choose("read-policy", 3)
	svc := &hostileBackend{script: replies[ri].script, readPolicy: rp}
	if ri > 0 {
		desc = append(desc, "reply="+replies[ri].name)
	}
	if rp > 0 {
		desc = append(desc, fmt.Sprintf("read-policy=%d", rp))
	}
	res.Svc = svc
	if withUnknown {
		res.Unknown = &hostileBackend{script: replies[ri].script, readPolicy: rp}
		cfg.Unknown = res.Unknown
	}
	noFlusher := c.Choose("writer-kind", 5)
	ctxMode := c.Choose("ctx", 3)
	tc, err := world.Build(cfg, svc)
	if err != nil {
		res.BuildErr = err
		return res
	}
	parent, cancel := context.WithCancel(context.Background())
	res.ParentCtx, res.Cancel = parent, cancel
	reqCtx := parent
	var reqCancel context.CancelFunc
	if ctxMode > 0 {
		reqCtx, reqCancel = context.WithCancel(parent)
		if ctxMode == 1 {
			reqCancel() // client went away before the request is served
			desc = append(desc, "ctx-cancelled-before")
		} else {
			inner := svc.script
			svc.script = func(hb *hostileBackend, w http.ResponseWriter, r *http.Request) {
				reqCancel()
				if inner != nil {
					inner(hb, w, r)
				}
			}
			desc = append(desc, "ctx-cancelled-during")
		}
	}
	req, err := spec.Build(reqCtx)
	if err != nil {
		c.Skip() // not expressible as an HTTP request line (net/http would reject it first)
		cancel()
		return nil
	}
	if why := expectReject(req); why != "" {
		c.Attr("~expect-reject", why)
	} else if ti < len(tgts) && tgts[ti] == vanguard.ProtocolREST {
		// a REST backend's request line is built from the leading message: if that cannot
		// be read or decoded, nothing may be dispatched to the service
		if why := leadingMessageBad(spec); why != "" {
			c.Attr("~expect-no-svc", why)
		}
	}
	rec := drive.NewRecorder()
	var w http.ResponseWriter = rec
	switch noFlusher {
	case 1:
		w = drive.FlushErrorOnly{R: rec}
		desc = append(desc, "writer=FlushError-only")
	case 2:
		w = drive.UnwrapOnly{R: rec}
		desc = append(desc, "writer=Unwrap-only")
	case 3:
		w = drive.UnwrapOnly{R: drive.FlushErrorOnly{R: rec}}
		desc = append(desc, "writer=Unwrap(FlushError)")
	case 4:
		w = drive.NoFlush{R: rec}
		desc = append(desc, "writer=without-Flush")
	}
	ex := &world.Exchange{Rec: rec, Body: spec.Body, Req: req}
	ex.Panic = drive.Serve(tc, w, rec, req, spec.Body)
	res.Ex = ex
	res.Desc = desc
	c.Attr("~scenario", strings.Join(desc, " "))
	if replies[ri].name == "use-after-return" {
		// a handler that (illegally) keeps using what it was given after returning: the
		// transcoder's wrappers must not touch the real writer/body any more
		for _, hb := range []*hostileBackend{svc, res.Unknown} {
			if hb == nil || hb.keptW == nil || hb.Direct {
				continue
			}
			func() {
				defer func() { _ = recover() }()
				_, _ = hb.keptW.Write([]byte("late"))
				hb.keptW.WriteHeader(500)
				if hb.keptFlush != nil {
					hb.keptFlush.Flush()
				}
				// (reads of the wrapped body are not probed: a handler reading after it
				// returned reads the server's body through any wrapper; net/http itself
				// guards that with ErrBodyReadAfterClose)
			}()
		}
	}
	return res
}

func short100(s string) string {
	if len(s) > 100 {
		return s[:100] + "..."
	}
	return s
}

// leadingMessageBad reports (for requests that are unambiguously in an RPC protocol) why the
// first request message cannot be obtained: unreadable body, broken first envelope, or a
// payload that does not decode. "" = fine or not judged.
func leadingMessageBad(spec *drive.ReqSpec) string {
	cts := spec.Header.Values("Content-Type")
	if len(cts) != 1 || spec.Body == nil || spec.Method != "POST" || strings.HasSuffix(spec.Target, "/RawIO") {
		return "" // (RawIO takes google.api.HttpBody, not verif.v1.Msg)
	}
	ct := cts[0]
	var codec string
	enveloped := true
	switch {
	case ct == "application/grpc" || ct == "application/grpc-web":
		codec = "proto"
	case strings.HasPrefix(ct, "application/grpc+"):
		codec = strings.TrimPrefix(ct, "application/grpc+")
	case strings.HasPrefix(ct, "application/grpc-web+"):
		codec = strings.TrimPrefix(ct, "application/grpc-web+")
	case strings.HasPrefix(ct, "application/connect+"):
		codec = strings.TrimPrefix(ct, "application/connect+")
	case (ct == "application/proto" || ct == "application/json") && len(spec.Header.Values("Connect-Protocol-Version")) == 1 && spec.Header.Get("Connect-Protocol-Version") == "1":
		// (with two such header lines the request is not a Connect request: it is REST with a JSON body)
		codec, enveloped = strings.TrimPrefix(ct, "application/"), false
	default:
		return ""
	}
	if codec != "proto" && codec != "json" {
		return ""
	}
	for _, h := range []string{"Grpc-Encoding", "Connect-Content-Encoding", "Content-Encoding"} {
		if spec.Header.Get(h) != "" {
			return "" // compression in play: not judged here
		}
	}
	data := spec.Body.Data
	if spec.Body.FailAt == 0 && spec.Body.FailErr != nil {
		return "body unreadable (read error before the first byte)"
	}
	if spec.Body.FailAt > 0 {
		return ""
	}
	payload := data
	if enveloped {
		if len(data) == 0 {
			return ""
		}
		frames, complaint := wire.SplitFrames(data)
		if len(frames) == 0 {
			return "first envelope broken: " + complaint
		}
		if frames[0].Flags != 0 {
			return fmt.Sprintf("first envelope has flags %#x", frames[0].Flags)
		}
		payload = frames[0].Payload
	}
	if len(payload) == 0 {
		return ""
	}
	m, err := wire.Unmarshal(codec, world.MsgDesc(), payload)
	if err != nil {
		return "leading message does not decode"
	}
	if js, err := wire.Marshal("json", m); err == nil && len(js) > hostileMaxMsg && strings.HasSuffix(strings.SplitN(spec.Target, "?", 2)[0], "/Unary") {
		// (Unary binds the whole message to the body; other rules put fields into the URL)
		// (compact JSON is a lower bound of what any JSON codec produces for it)
		return "leading message exceeds the message size limit once re-encoded for the REST backend"
	}
	return ""
}

// hostileMaxMsg is the message size limit of the hostile worlds.
const hostileMaxMsg = 1 << 16
