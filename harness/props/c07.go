package props

import (
	"io"
	"context"
	"encoding/json"
	"fmt"
	"net/http"
	"net/url"
	"regexp"
	"strings"

	"connectrpc.com/vanguard"
	"google.golang.org/protobuf/proto"
	"google.golang.org/protobuf/reflect/protoreflect"

	"connectrpc.com/vanguard/verifharness/drive"
	"connectrpc.com/vanguard/verifharness/refbind"
	"connectrpc.com/vanguard/verifharness/refroute"
	"connectrpc.com/vanguard/verifharness/wire"
	"connectrpc.com/vanguard/verifharness/world"
	"connectrpc.com/vanguard/verifharness/xplor"
)

// C07 — REST binding follows google.api.http; to-REST-and-back is the identity.

func pctEncode(s string) string {
	var sb strings.Builder
	for i := 0; i < len(s); i++ {
		c := s[i]
		if c >= 'a' && c <= 'z' || c >= 'A' && c <= 'Z' || c >= '0' && c <= '9' || c == '-' || c == '.' || c == '_' || c == '~' {
			sb.WriteByte(c)
		} else {
			fmt.Fprintf(&sb, "%%%02X", c)
		}
	}
	return sb.String()
}

var c07Values = func() []string {
	var out []string
	for b := 0; b < 128; b++ {
		out = append(out, string(rune(b)))
	}
	return append(out, "é", "😀", "%2F", "%2f", "a/b", "a b", "a+b", "100%", "a%2Fb", "a%252Fb", "x:y", "..", "a;b=c", "", "ünï/çø∂é")
}()

type c07Rule struct {
	method   string
	http     string
	tmpl     string
	body     string
	respBody string
}

var c07Rules = map[string]c07Rule{
	"Unary":  {"Unary", "POST", "/v1/unary", "*", ""},
	"Pure":   {"Pure", "GET", "/v1/pure/{name}", "", ""},
	"Idem":   {"Idem", "PUT", "/v1/idem/{name}", "child", ""},
	"Multi":  {"Multi", "GET", "/v1/multi/{name=**}", "", ""},
	"Multi2": {"Multi", "GET", "/v1/m2/{name=a/*}/x/{extra_text}", "", ""},
	"Nested": {"Nested", "POST", "/v1/nested/{child.name}:act", "tags", "child"},
	"Scalar": {"Scalar", "PATCH", "/v1/scalar/{child.child.name=x/*}", "num", "tags"},
	"Blob":   {"Blob", "POST", "/v1/blob/{name}", "body", "body"},
	"Labels": {"Labels", "PUT", "/v1/labels/{name}", "labels", "labels"},
	"KidMap": {"KidMap", "PUT", "/v1/kidmap/{name}", "kid_map", ""},
	"Kids":   {"Kids", "PUT", "/v1/kids/{name}", "kids", "kids"},
}

func (r c07Rule) ref() *refbind.Rule {
	t, err := refroute.Parse(r.tmpl)
	if err != nil {
		panic(err)
	}
	return &refbind.Rule{Template: t, Body: r.body}
}

type c07Case struct {
	kind  string
	rule  string
	path  string // raw path
	query string
	ct    string
	body  []byte
}

// c07RestCases enumerates REST requests (everything free; the space is finite).
func c07RestCases() []c07Case {
	var out []c07Case
	add := func(kind, rule, path, query, ct string, body []byte) {
		out = append(out, c07Case{kind, rule, path, query, ct, body})
	}
	for _, v := range c07Values {
		if v != "" {
			add("single-segment-variable", "Pure", "/v1/pure/"+pctEncode(v), "", "", nil)
			add("single-segment-variable+verb-rule", "Nested", "/v1/nested/"+pctEncode(v)+":act", "", "application/json", []byte(`["t"]`))
			// multi-segment: each '/' of the value separates segments
			segs := strings.Split(v, "/")
			okSegs := true
			for i := range segs {
				if segs[i] == "" {
					okSegs = false
				}
				segs[i] = pctEncode(segs[i])
			}
			if okSegs {
				add("multi-segment-variable", "Multi", "/v1/multi/"+strings.Join(segs, "/"), "", "", nil)
				add("multi-segment-variable", "Multi", "/v1/multi/pre/"+strings.Join(segs, "/")+"/post", "", "", nil)
			}
			add("two-variables", "Multi2", "/v1/m2/a/"+pctEncode(v)+"/x/"+pctEncode(v+"!"), "", "", nil)
			add("nested-variable", "Scalar", "/v1/scalar/x/"+pctEncode(v), "", "application/json", []byte(`7`))
		}
		add("query-scalar", "Pure", "/v1/pure/n", "extra_text="+url.QueryEscape(v)+"&num=5", "", nil)
		add("query-scalar-json-name", "Pure", "/v1/pure/n", "extraText="+url.QueryEscape(v), "", nil)
		add("query-repeated", "Pure", "/v1/pure/n", "tags="+url.QueryEscape(v)+"&tags=second&tags="+url.QueryEscape(v), "", nil)
		add("query-dotted", "Pure", "/v1/pure/n", "child.name="+url.QueryEscape(v)+"&child.child.extra_text="+url.QueryEscape(v), "", nil)
	}
	// an encoded slash inside a multi-segment capture stays encoded; inside a single one it is decoded
	add("multi-segment-%2F", "Multi", "/v1/multi/a%2Fb/c", "", "", nil)
	add("multi-segment-%2f", "Multi", "/v1/multi/a%2fb", "", "", nil)
	add("two-variables-%2F", "Multi2", "/v1/m2/a/b%2Fc/x/d%2Fe", "", "", nil)
	// every scalar kind at its corners, enums, scalar well-known types
	num := map[string][]string{
		"int32_value": {"0", "1", "-1", "-2147483648", "2147483647"}, "int64_value": {"0", "-1", "-9223372036854775808", "9223372036854775807"},
		"uint32_value": {"0", "1", "4294967295"}, "uint64_value": {"0", "18446744073709551615"}, "sint32_value": {"-2147483648", "2147483647"}, "sint64_value": {"-9223372036854775808"},
		"fixed32_value": {"4294967295"}, "fixed64_value": {"18446744073709551615"}, "sfixed32_value": {"-1"}, "sfixed64_value": {"9223372036854775807"},
		"double_value": {"0", "-0", "1.5", "1e300", "-1.7976931348623157e308", "NaN", "Infinity", "-Infinity", "5e-324"}, "float_value": {"0.25", "3.4028235e38", "NaN", "-Infinity"},
		"bool_value": {"true", "false"}, "string_value": {"", "x y"}, "bytes_value": {"", "AA==", "AP8=", "_-8", "AP8"},
		"enum_value": {"ENUM_VALUE", "1", "0", "ENUM_UNSPECIFIED"}, "enum_list": {"ENUM_VALUE"}, "double_list": {"1.5"},
		"timestamp": {"1970-01-01T00:00:00Z", "2024-02-29T23:59:59.999999999Z", "9999-12-31T23:59:59Z"}, "duration": {"0s", "-1.5s", "315576000000s"},
		"field_mask": {"a,b.c", ""}, "bool_value_wrapper": {"true", "false"}, "int32_value_wrapper": {"-5"}, "int64_value_wrapper": {"9223372036854775807"},
		"uint32_value_wrapper": {"7"}, "uint64_value_wrapper": {"18446744073709551615"}, "float_value_wrapper": {"1.5", "NaN"}, "double_value_wrapper": {"-Infinity", "2"},
		"bytes_value_wrapper": {"AP8="}, "string_value_wrapper": {"", "s"}, "nested.double_value": {"2.5"}, "nested.enum_value": {"ENUM_VALUE"}, "recursive.recursive.int32_value": {"3"},
		"oneof_double_value": {"0"}, "oneof_enum_value": {"ENUM_VALUE"},
	}
	for f, vals := range num {
		for _, v := range vals {
			add("query-kind:"+f, "Pure", "/v1/pure/n", "pv."+f+"="+url.QueryEscape(v), "", nil)
		}
	}
	add("query-kind:repeated-mix", "Pure", "/v1/pure/n", "pv.double_list=1&pv.double_list=NaN&pv.enum_list=ENUM_VALUE&pv.enum_list=0&nums=1&nums=-2", "", nil)
	// repeated scalar well-known types
	add("query-kind:repeated-wrapper", "Pure", "/v1/pure/n", "pv.double_value_list=1.5&pv.double_value_list=-2", "", nil)
	add("query-kind:repeated-wrapper-one", "Pure", "/v1/pure/n", "pv.double_value_list=1.5", "", nil)
	// bodies
	add("body-message-field", "Idem", "/v1/idem/k", "num=4&tags=q", "application/json", []byte(`{"name":"c","nums":[1,2],"child":{"raw":"AP8="}}`))
	add("body-repeated-scalar", "Nested", "/v1/nested/cn:act", "num=9", "application/json", []byte(`["a","","ü"]`))
	add("body-scalar", "Scalar", "/v1/scalar/x/leaf", "name=top", "application/json", []byte(`-12`))
	add("body-map-field", "Labels", "/v1/labels/k", "num=2", "application/json", []byte(`{"a":"b","":"empty key"}`))
	add("body-repeated-message-field", "Kids", "/v1/kids/k", "", "application/json", []byte(`[{"name":"k1"},{},{"kids":[{"num":1}]}]`))
	add("body-httpbody", "Blob", "/v1/blob/file%2Ename", "num=1", "image/png", []byte{0x89, 'P', 'N', 'G', 0, 0xff})
	add("body-httpbody-empty", "Blob", "/v1/blob/f", "", "text/plain; charset=utf-8", nil)
	// precedence: body, then path variables, then query parameters - a query parameter that
	// names a field also bound by the path (or set by the body) is applied last
	// one field addressed under its proto name and its JSON name, and two members of one oneof:
	// parameters apply in the order in which they stand in the query
	// (each is run 8 times: an implementation that ranges over a map of the parameters binds them in
	// an order that Go randomises per iteration - a source of nondeterminism the explorer does not own)
	for rep := 0; rep < 8; rep++ {
		add("query-same-field-two-names", "Pure", "/v1/pure/n", "extra_text=first&extraText=second", "", nil)
		add("query-same-field-two-names", "Pure", "/v1/pure/n", "extraText=first&extra_text=second", "", nil)
		add("query-two-members-of-a-oneof", "Pure", "/v1/pure/n", "pv.oneof_double_value=1.5&pv.oneof_enum_value=ENUM_VALUE", "", nil)
		add("query-two-members-of-a-oneof", "Pure", "/v1/pure/n", "pv.oneofEnumValue=ENUM_VALUE&pv.oneof_double_value=1.5", "", nil)
		add("query-three-spellings-interleaved", "Pure", "/v1/pure/n", "tags=a&extra_text=x&tags=b&extraText=y&num=1&num=2", "", nil)
		// ... also when two names of the same storage alternate (a b a): grouping the values by name
		// is not "the order in which they stand"
		add("query-same-field-two-names-alternating", "Pure", "/v1/pure/n", "extra_text=first&extraText=second&extra_text=third", "", nil)
		add("query-same-repeated-field-two-names-alternating", "Pure", "/v1/pure/n", "pv.double_list=1&pv.doubleList=2&pv.double_list=3", "", nil)
		add("query-two-members-of-a-oneof-alternating", "Pure", "/v1/pure/n", "pv.oneof_double_value=1.5&pv.oneof_enum_value=ENUM_VALUE&pv.oneofDoubleValue=2.5", "", nil)
	}
	add("query-names-path-variable", "Pure", "/v1/pure/from-path", "name=from-query", "", nil)
	add("query-names-path-variable-and-more", "Pure", "/v1/pure/from-path", "num=3&name=from-query&name=second", "", nil)
	add("query-names-nested-path-variable", "Nested", "/v1/nested/from-path:act", "child.name=from-query", "application/json", []byte(`["t"]`))
	add("query-names-nested-path-variable", "Scalar", "/v1/scalar/x/from-path", "child.child.name=x/from-query", "application/json", []byte(`7`))
	add("query-names-multi-segment-variable", "Multi", "/v1/multi/a/b", "name=c/d", "", nil)
	add("query-names-body-field", "Idem", "/v1/idem/k", "child.name=from-query&child.num=8", "application/json", []byte(`{"name":"from-body","num":1}`))
	add("query-names-body-star-field", "Unary", "/v1/unary", "name=from-query&num=2", "application/json", []byte(`{"name":"from-body","num":1}`))
	for i, m := range msgAlphabet {
		add(fmt.Sprintf("body-star:%d", i), "Unary", "/v1/unary", "", "application/json", []byte(m))
	}
	return out
}

type c07Ill struct{ query string }

var c07IllTyped = []string{
	"num=abc", "num=1.5", "num=2147483648", "num=", "num=0x10", "seq=9223372036854775808", "nums=1&nums=x", "pv.uint32_value=-1", "pv.uint64_value=18446744073709551616",
	"pv.bool_value=yes", "pv.bool_value=1", "pv.double_value=abc", "pv.double_value=1,5", "pv.float_value=--1", "pv.enum_value=NOPE", "pv.enum_value=1.5", "pv.bytes_value=%21%21%21", "pv.timestamp=yesterday",
	"pv.timestamp=1970-01-01", "pv.duration=5", "pv.duration=5m", "pv.int32_value_wrapper=x", "pv.bool_value_wrapper=maybe", "child=1", "pv.nested=1", "pv.string_map=1", "st=1",
	// the JSON literal null is not a number, a boolean or an enum value; a string parameter is text, and text is UTF-8
	"num=null", "pv.bool_value=null", "pv.uint64_value=null", "pv.double_value=null", "nums=1&nums=null", "pv.string_value=%FF", "extra_text=a%C3", "tags=ok&tags=%80",
}

func c07REST(method, target, ct string, body []byte) *drive.ReqSpec {
	spec := &drive.ReqSpec{Method: method, Target: target, Header: http.Header{}, ContentLength: -1}
	if body != nil || method != "GET" {
		spec.Body = drive.NewBody(body)
		if ct != "" {
			spec.Header.Set("Content-Type", ct)
		}
	} else {
		spec.NoBody = true
	}
	return spec
}

// rpcBackend records the decoded request message of a Connect/proto request.
type c07Backend struct {
	calls int
	msg   proto.Message
	err   string
	resp  proto.Message
	seen  *drive.Seen
}

func (b *c07Backend) ServeHTTP(w http.ResponseWriter, r *http.Request) {
	b.calls++
	b.seen = drive.Capture(r)
	b.seen.ReadBody(r.Body, nil)
	pr := wire.ParseBackendRequest(r.Method, r.URL, b.seen.Header, b.seen.ContentLength, b.seen.Body)
	payload := b.seen.Body
	if len(pr.Msgs) == 1 {
		payload = pr.Msgs[0]
	}
	m, err := wire.Unmarshal(pr.Codec, world.MsgDesc(), payload)
	if err != nil {
		b.err = err.Error()
	}
	b.msg = m
	w.Header().Set("Content-Type", "application/proto")
	w.WriteHeader(200)
	if b.resp != nil {
		_, _ = w.Write(Enc("proto", b.resp))
	}
}

func fieldJSON(m proto.Message, path string) string {
	mr := m.ProtoReflect()
	fd := mr.Descriptor().Fields().ByName(protoreflect.Name(path))
	full := canonMsg("proto", mr.Descriptor(), Enc("proto", m))
	var obj map[string]json.RawMessage
	_ = json.Unmarshal([]byte(full), &obj)
	if raw, ok := obj[fd.JSONName()]; ok {
		return canonJSON(raw)
	}
	return ""
}

var c07CanonicalPath = regexp.MustCompile(`^(?:[-_.~/0-9A-Za-z]|%[0-9A-Fa-f]{2})*$`)

func init() {
	refbind.Resolver = wire.Resolver()
	cases := c07RestCases()
	restToRPC := func(c *xplor.Ctx) {
		cs := cases[c.Free("case", len(cases))]
		rule := c07Rules[cs.rule]
		c.Attr("kind", strings.SplitN(cs.kind, ":", 2)[0])
		c.Attr("rule", cs.rule)
		c.Attr("~request", fmt.Sprintf("%s %s?%s body=%q", rule.http, cs.path, cs.query, cs.body))
		be := &c07Backend{resp: MkMsg(`{"name":"rn","child":{"name":"rc","num":2},"tags":["r1","r2"],"body":{"contentType":"application/x-thing","data":"AQID"},"labels":{"l1":"v1","":"e"},"kids":[{"name":"rk"},{}]}`)}
		tc, err := world.Build(world.Config{Protocols: []vanguard.Protocol{vanguard.ProtocolConnect}, Codecs: []string{"proto"}, MaxMsg: 1 << 20}, be)
		if err != nil {
			c.Fail("harness.setup", "%v", err)
			return
		}
		target := cs.path
		if cs.query != "" {
			target += "?" + cs.query
		}
		spec := c07REST(rule.http, target, cs.ct, cs.body)
		ex, err := world.Do(tc, spec)
		if err != nil {
			c.Skip() // not expressible as a request line
			return
		}
		if ex.Panic != nil {
			c.Fail("C07.panic", "%s %s: %s\n%s", rule.http, target, ex.Panic.Value, stackTop(ex.Panic.Stack))
			return
		}
		want, werr := refbind.Bind(rule.ref(), world.MsgDesc(), wire.NewMessage, cs.path, cs.query, cs.ct, cs.body)
		desc := fmt.Sprintf("%s %s (content-type %q, body %q) under rule %s %s body=%q", rule.http, target, cs.ct, cs.body, rule.http, rule.tmpl, rule.body)
		if werr != nil {
			c.Fail("harness.alphabet", "reference binder rejects %s: %v", desc, werr)
			return
		}
		c.Nontrivial(cs.kind + "|" + target)
		if be.calls != 1 || ex.Rec.Status != 200 {
			if strings.Contains(string(ex.Rec.BodyBytes.String()), "cannot be URL encoded") {
				c.Outcome("not-representable")
				return
			}
			c.Fail("C07.valid-request-rejected", "%s\n backend calls=%d, client got HTTP %d %s", desc, be.calls, ex.Rec.Status, short(ex.Rec.BodyBytes.String()))
			return
		}
		if be.msg == nil || !MsgEqual(normNullValues(be.msg), normNullValues(want)) {
			c.Fail("C07.request-message-differs", "%s\n backend received: %s\n google.api.http says: %s", desc, renderMsgs([]proto.Message{be.msg}), renderMsgs([]proto.Message{want}))
		}
		// response body: the field named by response_body (raw bytes + content-type for HttpBody)
		got := ex.Rec.BodyBytes.Bytes()
		switch rule.respBody {
		case "":
			if m, err := wire.Unmarshal("json", world.MsgDesc(), got); err != nil || !MsgEqual(normNullValues(m), normNullValues(be.resp)) {
				c.Fail("C07.response-body-differs", "%s\n response body %s is not the JSON of the response message", desc, short(string(got)))
			}
		case "body":
			if string(got) != "\x01\x02\x03" || ex.Rec.Snapshot.Get("Content-Type") != "application/x-thing" {
				c.Fail("C07.response-body-differs", "%s\n HttpBody response: got content-type %q body %x", desc, ex.Rec.Snapshot.Get("Content-Type"), got)
			}
		default:
			fd := world.MsgDesc().Fields().ByName(protoreflect.Name(rule.respBody))
			same := false
			if fd.Message() != nil && !fd.IsList() && !fd.IsMap() {
				m, err := wire.Unmarshal("json", fd.Message(), got)
				same = err == nil && MsgEqual(normNullValues(m), normNullValues(be.resp.ProtoReflect().Get(fd).Message().Interface()))
			} else {
				same = canonJSON(got) == fieldJSON(be.resp, rule.respBody)
				if !same && fd.Message() != nil {
					// a list / map of messages: compare as messages (unpopulated fields may be written out)
					name, _ := json.Marshal(fd.JSONName())
					if m, err := wire.Unmarshal("json", world.MsgDesc(), []byte(`{`+string(name)+`:`+string(got)+`}`)); err == nil && json.Valid(got) {
						only := wire.NewMessage(world.MsgDesc())
						only.ProtoReflect().Set(fd, be.resp.ProtoReflect().Get(fd))
						same = MsgEqual(normNullValues(m), normNullValues(only))
					}
				}
			}
			if !same {
				c.Fail("C07.response-body-differs", "%s\n response body %s, want JSON of field %s = %s", desc, short(string(got)), rule.respBody, fieldJSON(be.resp, rule.respBody))
			}
		}
		c.Outcome("bound:" + cs.rule)
	}
	illTyped := func(c *xplor.Ctx) {
		q := c07IllTyped[c.Free("query", len(c07IllTyped))]
		c.Attr("~query", q)
		be := &c07Backend{}
		tc, _ := world.Build(world.Config{Protocols: []vanguard.Protocol{vanguard.ProtocolConnect}, Codecs: []string{"proto"}}, be)
		ex, err := world.Do(tc, c07REST("GET", "/v1/pure/n?"+q, "", nil))
		if err != nil {
			c.Skip()
			return
		}
		c.Nontrivial("ill|" + q)
		if ex.Panic != nil {
			c.Fail("C07.panic", "GET /v1/pure/n?%s: %s\n%s", q, ex.Panic.Value, stackTop(ex.Panic.Stack))
			return
		}
		if be.calls != 0 || ex.Rec.Status != 400 {
			got := "-"
			if be.msg != nil {
				got = renderMsgs([]proto.Message{be.msg})
			}
			c.Fail("C07.ill-typed-parameter-accepted", "GET /v1/pure/n?%s: parameter does not fit its field's type, yet backend calls=%d (message %s), HTTP %d %s", q, be.calls, got, ex.Rec.Status, short(ex.Rec.BodyBytes.String()))
			return
		}
		c.Outcome("rejected-400")
	}
	// ---- the body is ONE JSON value for the field named by `body` - not a fragment that closes
	// the value and goes on with other fields of the message, nor two values
	illBodies := [][4]string{
		{"POST", "/v1/nested/cn:act", "tags", `["t"],"num":9`}, {"PATCH", "/v1/scalar/x/leaf", "num", `7,"name":"injected"`}, {"PUT", "/v1/idem/k", "child", `{"name":"c"},"num":5`},
		{"PUT", "/v1/labels/k", "labels", `{"a":"b"},"num":5`}, {"PUT", "/v1/kids/k", "kids", `[{"name":"a"}],"num":5`}, {"POST", "/v1/unary", "*", `{"name":"a"}{"num":5}`},
		{"POST", "/v1/nested/cn:act", "tags", `["t"]["u"]`}, {"PATCH", "/v1/scalar/x/leaf", "num", `7 8`}, {"PUT", "/v1/idem/k", "child", `{"name":"c"}}`}, {"POST", "/v1/nested/cn:act", "tags", `"t"],"tags":["u"`},
	}
	illBody := func(c *xplor.Ctx) {
		q := illBodies[c.Free("body", len(illBodies))]
		c.Attr("~request", q[0]+" "+q[1]+" body="+q[3])
		be := &c07Backend{}
		tc, _ := world.Build(world.Config{Protocols: []vanguard.Protocol{vanguard.ProtocolConnect}, Codecs: []string{[]string{"proto", "json"}[c.Free("target-codec", 2)]}}, be)
		ex, err := world.Do(tc, c07REST(q[0], q[1], "application/json", []byte(q[3])))
		if err != nil {
			c.Skip()
			return
		}
		c.Nontrivial("illbody|" + q[1] + "|" + q[3])
		if ex.Panic != nil {
			c.Fail("C07.panic", "%s %s: %s\n%s", q[0], q[1], ex.Panic.Value, stackTop(ex.Panic.Stack))
			return
		}
		pr := wire.ParseClientResponse(wire.REST, ex.Rec.Status, ex.Rec.HeadHeaders(), ex.Rec.BodyBytes.Bytes(), ex.Rec.Trailers)
		if pr.OK() {
			got := "-"
			if be.msg != nil {
				got = renderMsgs([]proto.Message{be.msg})
			}
			c.Fail("C07.malformed-body-accepted", "%s %s with body %s (rule body=%q): the body is not one JSON value for that field, yet the call succeeded (HTTP %d) and the backend received %s", q[0], q[1], q[3], q[2], ex.Rec.Status, got)
			return
		}
		c.Outcome(fmt.Sprintf("body-rejected-%d", ex.Rec.Status))
	}
	// ---- google.api.HttpBody.content_type becomes a header: a value that is not a legal header
	// value (CR LF, NUL) must not get there, in either direction
	evilCT := []string{"text/plain\r\nX-Injected: yes", "a/b\nSet-Cookie: x=1", "a/b\x00c"}
	ctInjection := func(c *xplor.Ctx) {
		ct := evilCT[c.Free("content-type", len(evilCT))]
		dir := c.Free("direction", 2)
		c.Attr("~content-type", fmt.Sprintf("%q", ct))
		bad := func(h http.Header) string {
			for k, vs := range h {
				for _, v := range vs {
					if strings.ContainsAny(v, "\r\n\x00") {
						return fmt.Sprintf("%s: %q", k, v)
					}
				}
			}
			return ""
		}
		ctJSON, _ := json.Marshal(ct)
		if dir == 0 {
			c.Attr("direction", "request: RPC client, REST backend")
			var seen http.Header
			calls := 0
			backend := http.HandlerFunc(func(w http.ResponseWriter, r *http.Request) {
				calls++
				seen = r.Header.Clone()
				_, _ = io.Copy(io.Discard, r.Body)
				w.Header().Set("Content-Type", "application/x-thing")
				_, _ = w.Write([]byte{1, 2, 3})
			})
			tc, err := world.Build(world.Config{Protocols: []vanguard.Protocol{vanguard.ProtocolREST}, MaxMsg: 1 << 20}, backend)
			if err != nil {
				c.Fail("harness.setup", "%v", err)
				return
			}
			form := []wire.Form{wire.ConnectUnary, wire.GRPCWeb, wire.GRPC}[c.Free("client", 3)]
			cr := &wire.ClientReq{Form: form, Path: world.SvcPath + "Blob", Codec: "json", Msgs: [][]byte{[]byte(`{"name":"f","body":{"contentType":` + string(ctJSON) + `,"data":"aGk="}}`)}}
			ex, err := world.Do(tc, world.SpecFromClient(cr))
			if err != nil {
				c.Fail("harness.setup", "%v", err)
				return
			}
			c.Nontrivial(fmt.Sprintf("ct-injection|req|%s|%q", form, ct))
			if ex.Panic != nil {
				c.Fail("C07.panic", "%s\n%s", ex.Panic.Value, stackTop(ex.Panic.Stack))
				return
			}
			if b := bad(seen); calls > 0 && b != "" {
				c.Fail("C07.illegal-header-value-from-message", "HttpBody.content_type %q of the request message reached the REST backend as the header %s", ct, b)
			}
			c.Outcome(fmt.Sprintf("ct-request calls=%d", calls))
			return
		}
		c.Attr("direction", "response: REST client, RPC backend")
		be := &world.Backend{Respond: func(b *world.Backend, r *http.Request) *world.Reply {
			return world.EchoReply(b.Parsed, [][]byte{Enc(b.Parsed.Codec, MkMsg(`{"name":"f","body":{"contentType":`+string(ctJSON)+`,"data":"aGk="}}`))}, "", nil)
		}}
		tc, err := world.Build(world.Config{Protocols: []vanguard.Protocol{[]vanguard.Protocol{vanguard.ProtocolConnect, vanguard.ProtocolGRPC}[c.Free("target", 2)]}, Codecs: []string{"proto"}, MaxMsg: 1 << 20}, be)
		if err != nil {
			c.Fail("harness.setup", "%v", err)
			return
		}
		ex, err := world.Do(tc, c07REST("POST", "/v1/blob/f", "image/png", []byte{1, 2}))
		if err != nil {
			c.Fail("harness.setup", "%v", err)
			return
		}
		c.Nontrivial(fmt.Sprintf("ct-injection|resp|%q", ct))
		if ex.Panic != nil {
			c.Fail("C07.panic", "%s\n%s", ex.Panic.Value, stackTop(ex.Panic.Stack))
			return
		}
		if b := bad(ex.Rec.Snapshot); b != "" {
			c.Fail("C07.illegal-header-value-from-message", "HttpBody.content_type %q of the response message reached the REST client as the header %s (HTTP %d)", ct, b, ex.Rec.Status)
		}
		c.Outcome(fmt.Sprintf("ct-response status=%d", ex.Rec.Status))
	}
	// ---- an error that follows a google.api.HttpBody message: the error body is the JSON status,
	// and must be labelled as such (not with the content type the HttpBody message carried)
	errAfterBody := func(c *xplor.Ctx) {
		tp := []vanguard.Protocol{vanguard.ProtocolGRPC, vanguard.ProtocolGRPCWeb, vanguard.ProtocolConnect}[c.Free("target", 3)]
		stream := c.Free("method", 2) == 1
		c.Attr("target", tp.String())
		be := &world.Backend{Respond: func(b *world.Backend, r *http.Request) *world.Reply {
			return world.EchoReply(b.Parsed, [][]byte{Enc(b.Parsed.Codec, MkMsg(`{"name":"f","body":{"contentType":"image/png","data":"iVBORw=="}}`))}, "", &wire.End{Code: 5, Message: "gone"})
		}}
		tc, err := world.Build(world.Config{Protocols: []vanguard.Protocol{tp}, Codecs: []string{"proto"}, MaxMsg: 1 << 20}, be)
		if err != nil {
			c.Fail("harness.setup", "%v", err)
			return
		}
		spec := c07REST("POST", "/v1/blob/f", "image/png", []byte{1, 2})
		if stream {
			if tp == vanguard.ProtocolConnect {
				c.Skip()
				return
			}
			spec = c07REST("GET", "/v1/down/f", "", nil)
		}
		ex, err := world.Do(tc, spec)
		if err != nil {
			c.Fail("harness.setup", "%v", err)
			return
		}
		c.Nontrivial(fmt.Sprintf("error-after-httpbody|%s|%v", tp, stream))
		if ex.Panic != nil {
			c.Fail("C07.panic", "%s\n%s", ex.Panic.Value, stackTop(ex.Panic.Stack))
			return
		}
		body := ex.Rec.BodyBytes.Bytes()
		ct := ex.Rec.Snapshot.Get("Content-Type")
		if ex.Rec.Status >= 400 && json.Valid(body) && len(body) > 0 && !strings.HasPrefix(ct, "application/json") {
			c.Fail("C07.error-body-mislabelled", "the backend sent an HttpBody message (image/png) and then failed: the client got HTTP %d with the JSON status %s under Content-Type %q", ex.Rec.Status, short(string(body)), ct)
		}
		c.Outcome(fmt.Sprintf("error-after-httpbody status=%d", ex.Rec.Status))
	}
	// ---- RPC -> REST -> RPC through two chained transcoders
	chainMsgs := map[string][]string{
		"Unary":  msgAlphabet,
		"Pure":   {`{"name":"n"}`, `{"name":"isbn:123"}`, `{"name":"a$b&c+d=e@f,g;h!i*j'(k)","num":1}`, `{"name":"x:act"}`, `{"name":"a b/c%2F+é","num":-7,"extraText":"q&a=1#x","tags":["","t 1","t&2"],"nums":[0,-1],"seq":"9223372036854775807","raw":"AP8="}`, `{"name":"x","pv":{"doubleValue":"NaN","int64Value":"-5","enumValue":"ENUM_VALUE","doubleList":[1.5,"Infinity"],"timestamp":"2024-02-29T23:59:59.5Z","duration":"-1.500s","fieldMask":"a,b","boolValueWrapper":false,"stringValueWrapper":"","bytesValue":"/+8="}}`, `{"name":"y","child":{"name":"deep","child":{"num":3,"tags":["z"]}}}`,
			`{"name":"q1","pv":{"stringValueWrapper":"\"quoted\""}}`, `{"name":"q2","pv":{"stringValueWrapper":"a\u007fb\u0001c"}}`, `{"name":"q3","pv":{"stringValueWrapper":"\""}}`, `{"name":"q4","extraText":"\"quoted\""}`, `{"name":"q5","pv":{"enumValue":7}}`},
		"Idem":   {`{"name":"k","child":{"name":"c","nums":[1]}}`, `{"name":"k/2","child":{},"num":3,"tags":["a"]}`, `{"name":"é","extraText":"e"}`},
		"Multi":  {`{"name":"a"}`, `{"name":"a:b/c$d"}`, `{"name":"a/b/c"}`, `{"name":"a%2Fb/c d","num":1}`, `{"name":"é/😀"}`},
		"Nested": {`{"child":{"name":"cn"},"tags":["a","b"]}`, `{"child":{"name":"c:n"},"tags":["t"]}`, `{"child":{"name":"x:act"},"tags":[]}`, `{"child":{"name":"c/n","num":4},"tags":[],"name":"top"}`},
		"Scalar": {`{"child":{"child":{"name":"x/leaf"}},"num":-12}`, `{"child":{"child":{"name":"x/a%b"}},"num":0,"name":"n"}`},
		"Labels": {`{"name":"t1","labels":{"env":"prod","tier":"1"},"num":3}`, `{"name":"t2","labels":{}}`, `{"name":"t3","labels":{"":"", "a b":"c&d"},"child":{"name":"cn"}}`},
		"KidMap": {`{"name":"k1","kidMap":{"a":{"name":"ka","num":1},"b":{}}}`, `{"name":"k2","tags":["t"]}`},
		"Kids":   {`{"name":"r1","kids":[{"name":"a"},{"num":2,"labels":{"p":"q"}}],"num":5}`, `{"name":"r2","kids":[]}`},
		"Blob":   {`{"name":"f","body":{"contentType":"image/png","data":"iVBORwD/"}}`, `{"name":"g","num":2,"body":{"contentType":"","data":""}}`},
	}
	var chainCases [][2]string
	for _, m := range []string{"Unary", "Pure", "Idem", "Multi", "Nested", "Scalar", "Blob", "Labels", "KidMap", "Kids"} {
		for _, js := range chainMsgs[m] {
			chainCases = append(chainCases, [2]string{m, js})
		}
	}
	chain := func(c *xplor.Ctx) {
		cc := chainCases[c.Free("case", len(chainCases))]
		method, js := cc[0], cc[1]
		rule := c07Rules[method]
		clientCodec := []string{"proto", "json"}[c.Free("client-codec", 2)]
		// optionally another message of the same rule goes through the same transcoders first
		// (conversion must not depend on what was converted before)
		prev := c.Free("preceded-by", len(chainMsgs[method])+1)
		c.Attr("rule", method)
		c.Attr("~message", short100(js))
		switch {
		case strings.Contains(js, `Wrapper":"\"`):
			c.Attr("value-class", "wrapper-string-in-double-quotes")
		case strings.Contains(js, `"enumValue":7`):
			c.Attr("value-class", "enum-number-without-name")
		}
		orig := MkMsg(js)
		final := &c07Backend{resp: MkMsg(`{"name":"rn","child":{"name":"rc"},"tags":["r1"],"body":{"contentType":"a/b","data":"AQID"}}`)}
		tc2, err := world.Build(world.Config{Protocols: []vanguard.Protocol{vanguard.ProtocolConnect}, Codecs: []string{"proto"}, MaxMsg: 1 << 20}, final)
		if err != nil {
			c.Fail("harness.setup", "%v", err)
			return
		}
		var mid *drive.Seen
		middle := http.HandlerFunc(func(w http.ResponseWriter, r *http.Request) {
			// what the REST backend sees is replayed, byte for byte, as a REST client request
			mid = drive.Capture(r)
			mid.ReadBody(r.Body, nil)
			spec := c07REST(mid.Method, mid.URL, mid.Header.Get("Content-Type"), mid.Body)
			req2, err := spec.Build(context.Background())
			if err != nil {
				w.WriteHeader(599)
				return
			}
			rec2 := drive.NewRecorder()
			_ = drive.Serve(tc2, rec2, rec2, req2, spec.Body)
			for k, v := range rec2.Snapshot {
				w.Header()[k] = v
			}
			w.WriteHeader(rec2.Status)
			_, _ = w.Write(rec2.BodyBytes.Bytes())
		})
		tc1, err := world.Build(world.Config{Protocols: []vanguard.Protocol{vanguard.ProtocolREST}, MaxMsg: 1 << 20}, middle)
		if err != nil {
			c.Fail("harness.setup", "%v", err)
			return
		}
		if prev > 0 {
			first := &wire.ClientReq{Form: wire.GRPCWeb, Path: world.SvcPath + method, Codec: clientCodec, Msgs: [][]byte{Enc(clientCodec, MkMsg(chainMsgs[method][prev-1]))}}
			if _, err := world.Do(tc1, world.SpecFromClient(first)); err != nil {
				c.Fail("harness.setup", "%v", err)
				return
			}
			*final = c07Backend{resp: final.resp}
			mid = nil
			c.Attr("~preceded-by", short100(chainMsgs[method][prev-1]))
		}
		cr := &wire.ClientReq{Form: wire.GRPCWeb, Path: world.SvcPath + method, Codec: clientCodec, Msgs: [][]byte{Enc(clientCodec, orig)}}
		ex, err := world.Do(tc1, world.SpecFromClient(cr))
		if err != nil {
			c.Fail("harness.setup", "%v", err)
			return
		}
		if ex.Panic != nil {
			c.Fail("C07.panic", "%s %s: %s\n%s", method, js, ex.Panic.Value, stackTop(ex.Panic.Stack))
			return
		}
		cr2 := wire.ParseClientResponse(wire.GRPCWeb, ex.Rec.Status, ex.Rec.HeadHeaders(), ex.Rec.BodyBytes.Bytes(), ex.Rec.Trailers)
		desc := fmt.Sprintf("method %s (rule %s %s body=%q), message %s", method, rule.http, rule.tmpl, rule.body, js)
		if mid == nil || !cr2.OK() {
			c.Fail("C07.rest-conversion-failed", "%s\n client outcome: code %s %q", desc, wire.CodeName(cr2.End.Code), cr2.End.Message)
			return
		}
		c.Nontrivial(method + "|" + js)
		restDesc := fmt.Sprintf("%s %s body=%q", mid.Method, mid.URL, mid.Body)
		if mid.Method != rule.http {
			c.Fail("C07.rest-request-wrong", "%s\n REST backend got %s", desc, restDesc)
		}
		// direction 2: what the REST backend received re-parses under the same rule to the original
		u, _ := url.ParseRequestURI(mid.URL)
		if u != nil {
			// google.api.http: in a path, everything outside [-_.~0-9a-zA-Z] (and "/" for
			// multi-segment variables) is percent-encoded; the only other characters a path
			// may contain are the template's own literals (the ":" of a verb)
			ep := u.EscapedPath()
			if i := strings.LastIndex(rule.tmpl, ":"); i >= 0 && !strings.Contains(rule.tmpl[i:], "}") {
				ep = strings.TrimSuffix(ep, rule.tmpl[i:])
			}
			if !c07CanonicalPath.MatchString(ep) {
				c.Fail("C07.rest-path-not-canonically-escaped", "%s\n REST backend got %s: the path carries reserved characters unescaped", desc, restDesc)
			}
			back, berr := refbind.Bind(rule.ref(), world.MsgDesc(), wire.NewMessage, u.EscapedPath(), u.RawQuery, mid.Header.Get("Content-Type"), mid.Body)
			if berr != nil || !MsgEqual(normEmptyMsgs(back), normEmptyMsgs(orig)) {
				c.Fail("C07.rest-request-does-not-reparse", "%s\n REST backend got %s\n which denotes %s (%v)", desc, restDesc, renderMsgs([]proto.Message{back}), berr)
			}
		}
		// direction 3: through the second transcoder the original message comes back
		if final.calls != 1 || final.msg == nil || !MsgEqual(normEmptyMsgs(final.msg), normEmptyMsgs(orig)) {
			c.Fail("C07.round-trip-not-identity", "%s\n via REST request %s\n final backend (calls=%d) received %s", desc, restDesc, final.calls, renderMsgs([]proto.Message{final.msg}))
		}
		c.Outcome("chain:" + method)
	}
	Register(&Check{
		ID:    "C07",
		Level: "exploration",
		Rule: "REST->RPC: ~1500 REST requests over 8 rule shapes (body '*', body=message / repeated scalar / scalar / HttpBody field, no body, response_body, single-, multi-segment, nested and verb-suffixed variables, additional binding): every byte 0x00-0x7F plus non-ASCII, %2F, a/b, + and % strings as the value of a single-segment variable, a multi-segment variable, a query scalar (proto and JSON name), a repeated and a dotted query parameter; every scalar kind at its corners, enums by name and number, every scalar well-known type; 25 JSON bodies; compared with an independent google.api.http binder. " +
			"28 ill-typed parameters must give HTTP 400 without dispatch. RPC->REST->RPC: 45 messages x 2 client codecs through two chained transcoders must come back unchanged and the intermediate REST request must re-parse to the original under the same rule. Non-trivial = distinct (case kind, request).",
		Assume: []string{"query parameters combined with body '*' are not judged", "presence of an empty sub-message (vs its absence) is not judged on REST legs", "unset vs null google.protobuf.Value is not distinguished (JSON mapping)"},
		Scenarios: []Scenario{
			{Name: "rest-to-rpc", Fn: restToRPC, QuickBound: 0, ThoroughBound: 0},
			{Name: "ill-typed", Fn: illTyped, QuickBound: 0, ThoroughBound: 0},
			{Name: "ill-formed-bodies", Fn: illBody, QuickBound: 0, ThoroughBound: 0},
			{Name: "content-type-from-message", Fn: ctInjection, QuickBound: 0, ThoroughBound: 0},
			{Name: "error-after-httpbody", Fn: errAfterBody, QuickBound: 0, ThoroughBound: 0},
			{Name: "rpc-rest-rpc", Fn: chain, QuickBound: 0, ThoroughBound: 0},
		},
		MinOutcomes: 5,
	})
}
