package props

import (
	"context"
	"encoding/binary"
	"fmt"
	"io"
	"net/http"
	"os"
	"strings"
	"time"

	"connectrpc.com/vanguard"
	"google.golang.org/protobuf/proto"

	"connectrpc.com/vanguard/verifharness/drive"
	"connectrpc.com/vanguard/verifharness/sched"
	"connectrpc.com/vanguard/verifharness/wire"
	"connectrpc.com/vanguard/verifharness/world"
)

// C16 — streaming RPCs make progress message by message (model checking for deadlock).
//
// Client and handler are two controlled threads over a transport in which response bytes
// become visible to the client only when flushed (the adversarial reading of HTTP/2
// buffering) and request bytes only once the client has written them. They alternate
// strictly. Every schedule of the two threads is explored; a lost flush or an eager read
// of the next envelope shows up as a deadlock.

type c16Config struct {
	Client     wire.Form
	Target     wire.Form
	ClientCod  string
	TargetCod  string
	ClientComp string
	TargetComp []string
	Rounds     int
	Size       int
	ReadStyle  int // 0 ReadFull(5)+ReadFull(n), 1 one byte at a time, 2 32 KiB buffer for the payload, 3 a buffered reader (4 KiB reads, frames cut out of what has arrived)
	HandlerFl  bool
	SplitWrite bool // envelope and payload in separate Write calls
	// Wrapped: ServeHTTP is handed a middleware's ResponseWriter that buffers Write calls
	// until its own Flush (and at the end), and offers Unwrap() to the server's writer. What
	// the transcoder flushes must be the writer it was given.
	Wrapped bool
	// Double: the handler answers every request with TWO messages handed over in one Write
	// (SplitWrite: three bytes first, then the rest of both); the client waits for both.
	Double bool
	// Greeting: the handler sends a message before it reads anything, and the client sends its
	// first request only once that message has arrived.
	Greeting bool
	// ClientStream: a client-streaming method; the handler answers after the FIRST request
	// message and then reads the rest of the requests; the client sends its further messages
	// only once that answer has arrived.
	ClientStream bool
	// Method: "" = the bidi method (CStream with ClientStream); "SStream" / "Unary": a method that
	// takes ONE request message, called by a client that keeps its request stream open until it
	// has seen the response (a legal late half-close); one round.
	Method string
}

// c16BufferingWriter is such a middleware writer.
type c16BufferingWriter struct {
	inner   *drive.Recorder
	pending []byte
	code    int
}

func (b *c16BufferingWriter) Header() http.Header  { return b.inner.Header() }
func (b *c16BufferingWriter) WriteHeader(code int) { b.code = code }
func (b *c16BufferingWriter) Write(p []byte) (int, error) {
	if b.code == 0 {
		b.code = 200
	}
	b.pending = append(b.pending, p...)
	return len(p), nil
}
func (b *c16BufferingWriter) Flush() {
	if b.code != 0 && b.code != -1 {
		b.inner.WriteHeader(b.code)
		b.code = -1
	}
	if len(b.pending) > 0 {
		_, _ = b.inner.Write(b.pending)
		b.pending = nil
	}
	b.inner.Flush()
}
func (b *c16BufferingWriter) Unwrap() http.ResponseWriter { return b.inner }

func (k c16Config) String() string {
	return fmt.Sprintf("%s/%s/%s>%s/%s/%v rounds=%d size=%d read=%d flush=%v split=%v wrapped=%v", k.Client, k.ClientCod, k.ClientComp, k.Target, k.TargetCod, k.TargetComp, k.Rounds, k.Size, k.ReadStyle, k.HandlerFl, k.SplitWrite, k.Wrapped) + map[bool]string{true: " two-responses-per-write", false: ""}[k.Double] + map[bool]string{true: " handler-speaks-first", false: ""}[k.Greeting] + map[bool]string{true: " client-stream-answered-early", false: ""}[k.ClientStream] + map[bool]string{true: " method=" + k.Method + " late-half-close", false: ""}[k.Method != ""]
}

type c16Result struct {
	ClientGot   []string // canonical responses the client decoded, in order
	HandlerGot  []string
	OrderOK     bool
	Problem     string
	Status      int
	Panic       *drive.PanicInfo
	ClientDone  bool
	HandlerDone bool
}

func c16Msg(seq, size int) proto.Message {
	if size < 0 {
		return MkMsg(`{}`) // encodes to zero bytes in proto
	}
	return MkMsg(fmt.Sprintf(`{"seq":"%d","extraText":"%s"}`, seq, strings.Repeat("m", size)))
}

// c16Exec runs one schedule of the ping-pong.
func c16Exec(k c16Config, prefix []int) (*sched.Run, *c16Result) {
	res := &c16Result{OrderOK: true}
	run := runScheduled(prefix, 400000, true, func(r *sched.Run, h schedHooks) {
		cfg := world.Config{Protocols: []vanguard.Protocol{world.FormToProtocol(k.Target)}, Codecs: []string{k.TargetCod}, MaxMsg: 1 << 20}
		if len(k.TargetComp) == 0 {
			cfg.NoCompress = true
		} else {
			cfg.Compression = k.TargetComp
		}
		body := drive.NewBody(nil)
		body.Pipe, body.Open, body.H = true, true, h
		rec := drive.NewRecorder()
		rec.H = h
		sent := 0 // requests the client has written so far
		r.StateKeyFn = func() string {
			return fmt.Sprintf("%s|%d|%d|%v|%d|%d|%x|%x|%d|%d", r.PCs(), len(body.Data), body.Offset(), body.Open, rec.BodyBytes.Len(), rec.Visible(), body.Hist, rec.Hist, sent, len(res.ClientGot))
		}
		// ---------------- handler (runs inside ServeHTTP on the server thread)
		handler := http.HandlerFunc(func(w http.ResponseWriter, rq *http.Request) {
			f, codec, _ := wire.ClassifyRequest(rq.Method, rq.URL, rq.Header)
			comp := wire.CompByName(map[wire.Form]string{wire.GRPC: rq.Header.Get("Grpc-Encoding"), wire.GRPCWeb: rq.Header.Get("Grpc-Encoding"), wire.ConnectStream: rq.Header.Get("Connect-Content-Encoding")}[f])
			sr := &wire.ServerResp{Form: f, Codec: codec}
			head := sr.Encode()
			for kk, v := range head.Header {
				w.Header()[kk] = v
			}
			if comp != nil {
				w.Header().Set(map[wire.Form]string{wire.GRPC: "Grpc-Encoding", wire.GRPCWeb: "Grpc-Encoding", wire.ConnectStream: "Connect-Content-Encoding"}[f], comp.Name)
			}
			w.WriteHeader(200)
			var acc []byte // read style 3: a buffered reader in front of the body (bufio, grpc-go's transport)
			readFrame := func() ([]byte, byte, error) {
				if k.ReadStyle == 3 {
					for {
						if len(acc) >= 5 {
							n := int(binary.BigEndian.Uint32(acc[1:5]))
							if n > 1<<20 || acc[0]&^1 != 0 {
								return nil, 0, fmt.Errorf("corrupt request envelope % x", acc[:5])
							}
							if len(acc) >= 5+n {
								payload, flags := append([]byte(nil), acc[5:5+n]...), acc[0]
								acc = acc[5+n:]
								return payload, flags, nil
							}
						}
						buf := make([]byte, 4096)
						m, err := rq.Body.Read(buf)
						acc = append(acc, buf[:m]...)
						if err != nil && m == 0 {
							return nil, 0, err
						}
					}
				}
				var env [5]byte
				switch k.ReadStyle {
				case 1:
					for i := 0; i < 5; i++ {
						if _, err := io.ReadFull(rq.Body, env[i:i+1]); err != nil {
							return nil, 0, err
						}
					}
				default:
					if _, err := io.ReadFull(rq.Body, env[:]); err != nil {
						return nil, 0, err
					}
				}
				n := int(binary.BigEndian.Uint32(env[1:]))
				if n > 1<<20 || env[0]&^1 != 0 {
					return nil, 0, fmt.Errorf("corrupt request envelope % x", env)
				}
				payload := make([]byte, n)
				switch k.ReadStyle {
				case 1:
					for i := 0; i < n; i++ {
						if _, err := io.ReadFull(rq.Body, payload[i:i+1]); err != nil {
							return nil, 0, err
						}
					}
				case 2:
					buf := make([]byte, 32<<10)
					got := 0
					for got < n {
						m, err := rq.Body.Read(buf[:min(len(buf), n-got)])
						copy(payload[got:], buf[:m])
						got += m
						if err != nil && got < n {
							return nil, 0, err
						}
					}
				default:
					if _, err := io.ReadFull(rq.Body, payload); err != nil {
						return nil, 0, err
					}
				}
				return payload, env[0], nil
			}
			firstRound := 1
			if k.Greeting {
				firstRound = 0 // round 0: the handler speaks first, there is no request to read
			}
			for i := firstRound; i <= k.Rounds; i++ {
				if i > 0 {
					payload, flags, err := readFrame()
					if err != nil {
						res.Problem = fmt.Sprintf("handler: reading request %d: %v", i, err)
						return
					}
					if flags&1 != 0 && comp != nil {
						if payload, err = comp.Decompress(payload); err != nil {
							res.Problem = fmt.Sprintf("handler: request %d does not decompress: %v", i, err)
							return
						}
					}
					if sent < i {
						res.OrderOK = false
						res.Problem = fmt.Sprintf("handler observed request %d before the client sent it", i)
					}
					res.HandlerGot = append(res.HandlerGot, canonMsg(codec, world.MsgDesc(), payload))
				}
				if k.ClientStream && i > 1 {
					continue // (the one response has been sent; the remaining requests are only read)
				}
				out := Enc(codec, c16Msg(100+i, k.Size))
				fl := byte(0)
				if comp != nil && len(out) > 0 {
					out, fl = comp.Compress(out), 1
				}
				var env [5]byte
				env[0] = fl
				binary.BigEndian.PutUint32(env[1:], uint32(len(out)))
				if k.Double {
					both := append(env[:], out...)
					out2 := Enc(codec, c16Msg(200+i, k.Size))
					fl2 := byte(0)
					if comp != nil && len(out2) > 0 {
						out2, fl2 = comp.Compress(out2), 1
					}
					both = wire.AppendFrame(both, fl2, out2)
					if k.SplitWrite {
						_, _ = w.Write(both[:3])
						_, _ = w.Write(both[3:])
					} else {
						_, _ = w.Write(both)
					}
				} else if k.SplitWrite {
					_, _ = w.Write(env[:])
					if len(out) > 0 {
						_, _ = w.Write(out)
					}
				} else {
					_, _ = w.Write(append(env[:], out...))
				}
				if k.HandlerFl {
					w.(http.Flusher).Flush()
				}
			}
			// the client half-closes after the last response; then finish the RPC
			var one [1]byte
			if n, err := rq.Body.Read(one[:]); n != 0 || err != io.EOF {
				res.Problem = fmt.Sprintf("handler: expected EOF after %d rounds, got n=%d err=%v", k.Rounds, n, err)
			}
			switch f {
			case wire.GRPC:
				w.Header().Set(http.TrailerPrefix+"Grpc-Status", "0")
			case wire.GRPCWeb:
				_, _ = w.Write(wire.AppendFrame(nil, 0x80, []byte("grpc-status: 0\r\n")))
			case wire.ConnectStream:
				_, _ = w.Write(wire.AppendFrame(nil, 2, []byte("{}")))
			}
			res.HandlerDone = true
		})
		tc, err := world.Build(cfg, handler)
		if err != nil {
			res.Problem = "setup: " + err.Error()
			return
		}
		rpcMethod := "Bidi"
		if k.ClientStream {
			rpcMethod = "CStream"
		}
		if k.Method != "" {
			rpcMethod = k.Method
		}
		cr := &wire.ClientReq{Form: k.Client, Path: world.SvcPath + rpcMethod, Codec: k.ClientCod, Compression: k.ClientComp}
		method, target, hdr, _ := cr.Encode()
		spec := &drive.ReqSpec{Method: method, Target: target, Header: hdr, ContentLength: -1, ProtoMajor: 2, Body: body}
		req, err := spec.Build(context.Background())
		if err != nil {
			res.Problem = "setup: " + err.Error()
			return
		}
		r.Go("server", func() {
			if k.Wrapped {
				bw := &c16BufferingWriter{inner: rec}
				res.Panic = drive.Serve(http.HandlerFunc(func(w http.ResponseWriter, rq *http.Request) {
					tc.ServeHTTP(w, rq)
					bw.Flush() // the middleware hands over what is left when its handler returns
				}), bw, rec, req, body)
			} else {
				res.Panic = drive.Serve(tc, rec, rec, req, body)
			}
			res.Status = rec.Status
		})
		ccomp := wire.CompByName(k.ClientComp)
		r.Go("client", func() {
			consumed := 0
			firstRound := 1
			if k.Greeting {
				firstRound = 0 // the client sends its first request only after the handler's greeting
			}
			for i := firstRound; i <= k.Rounds; i++ {
				if i > 0 {
					p := Enc(k.ClientCod, c16Msg(i, k.Size))
					fl := byte(0)
					if ccomp != nil && len(p) > 0 {
						p, fl = ccomp.Compress(p), 1
					}
					h.Point("client.write", body)
					body.Data = wire.AppendFrame(body.Data, fl, p)
					sent = i
				}
				perRound := 1
				if k.Double {
					perRound = 2
				}
				if k.ClientStream && i > 1 {
					perRound = 0 // (nothing to wait for: the response came after the first request)
				}
				for j := 0; j < perRound; j++ {
					// wait for response i to be completely visible
					var need int
					for stage := 0; stage < 2; stage++ {
						if stage == 0 {
							need = consumed + 5
						}
						h.Block("client.wait", rec, func() bool { return rec.Visible() >= need || rec.Finished })
						if rec.Visible() < need {
							res.Problem = fmt.Sprintf("client: response stream ended before response %d arrived (visible %d, need %d)", i, rec.Visible(), need)
							return
						}
						if stage == 0 {
							env := rec.BodyBytes.Bytes()[consumed : consumed+5]
							need = consumed + 5 + int(binary.BigEndian.Uint32(env[1:]))
						}
					}
					frame := rec.BodyBytes.Bytes()[consumed:need]
					payload := append([]byte(nil), frame[5:]...)
					if frame[0]&0x82 != 0 {
						res.Problem = fmt.Sprintf("client: got end-of-stream frame instead of response %d", i)
						return
					}
					if frame[0]&1 != 0 {
						respComp := wire.CompByName(rec.Snapshot.Get(map[wire.Form]string{wire.GRPC: "Grpc-Encoding", wire.GRPCWeb: "Grpc-Encoding", wire.ConnectStream: "Connect-Content-Encoding"}[k.Client]))
						if respComp == nil {
							res.Problem = "client: compressed frame without declared encoding"
							return
						}
						var err error
						if payload, err = respComp.Decompress(payload); err != nil {
							res.Problem = fmt.Sprintf("client: response %d does not decompress: %v", i, err)
							return
						}
					}
					res.ClientGot = append(res.ClientGot, canonMsg(k.ClientCod, world.MsgDesc(), payload))
					consumed = need
				}
			}
			h.Point("client.close", body)
			body.Open = false
			h.Block("client.finish", rec, func() bool { return rec.Finished })
			res.ClientDone = true
		})
	})
	return run, res
}

func c16Configs(tier string) []c16Config {
	var out []c16Config
	forms := []wire.Form{wire.GRPC, wire.GRPCWeb, wire.ConnectStream}
	type comp struct {
		c string
		t []string
	}
	comps := []comp{{"", nil}, {"gzip", []string{"gzip"}}, {"gzip", nil}}
	rounds := []int{1, 2, 3}
	sizes := []int{-1, 0, 300}
	if tier == "thorough" {
		rounds = []int{1, 2, 3, 5}
		sizes = []int{-1, 0, 1, 300, 5000}
	}
	for _, cf := range forms {
		for _, tf := range forms {
			for _, codecs := range [][2]string{{"proto", "proto"}, {"json", "proto"}, {"proto", "json"}} {
				if cf == tf && codecs[0] == codecs[1] {
					continue // pass-through (same compression) or compression-only; covered by the json/proto rows
				}
				for cpi, cp := range comps {
					if tier != "thorough" && cpi == 2 && codecs[0] != codecs[1] {
						continue
					}
					for _, n := range rounds {
						for _, sz := range sizes {
							for rs := 0; rs < 4; rs++ {
								for fl := 0; fl < 2; fl++ {
									for sp := 0; sp < 2; sp++ {
										if tier != "thorough" && ((rs == 2 || rs == 3) && sp == 1 || n == 3 && sz == 300 && rs == 1) {
											continue
										}
										out = append(out, c16Config{Client: cf, Target: tf, ClientCod: codecs[0], TargetCod: codecs[1], ClientComp: cp.c, TargetComp: cp.t,
											Rounds: n, Size: sz, ReadStyle: rs, HandlerFl: fl == 1, SplitWrite: sp == 1})
										if rs == 0 && sp == 0 && sz == 300 {
											out = append(out, c16Config{Client: cf, Target: tf, ClientCod: codecs[0], TargetCod: codecs[1], ClientComp: cp.c, TargetComp: cp.t,
												Rounds: n, Size: sz, ReadStyle: rs, HandlerFl: fl == 1, SplitWrite: false, Wrapped: true})
										}
									}
								}
							}
						}
					}
				}
			}
		}
	}
	// two responses per request, handed to the transcoder in one Write (appended last: the
	// indices of the configurations above are stable)
	for _, cf := range forms {
		for _, tf := range forms {
			for _, codecs := range [][2]string{{"proto", "proto"}, {"json", "proto"}, {"proto", "json"}} {
				if cf == tf && codecs[0] == codecs[1] {
					continue
				}
				for _, cp := range comps[:2] {
					for _, n := range []int{1, 2} {
						for _, sz := range []int{0, 300} {
							for fl := 0; fl < 2; fl++ {
								for sp := 0; sp < 2; sp++ {
									out = append(out, c16Config{Client: cf, Target: tf, ClientCod: codecs[0], TargetCod: codecs[1], ClientComp: cp.c, TargetComp: cp.t,
										Rounds: n, Size: sz, HandlerFl: fl == 1, SplitWrite: sp == 1, Double: true})
									out = append(out, c16Config{Client: cf, Target: tf, ClientCod: codecs[0], TargetCod: codecs[1], ClientComp: cp.c, TargetComp: cp.t,
										Rounds: n, Size: sz, HandlerFl: fl == 1, SplitWrite: sp == 1, Greeting: true})
									out = append(out, c16Config{Client: cf, Target: tf, ClientCod: codecs[0], TargetCod: codecs[1], ClientComp: cp.c, TargetComp: cp.t,
										Rounds: n + 1, Size: sz, HandlerFl: fl == 1, SplitWrite: sp == 1, ClientStream: true})
								}
							}
						}
					}
				}
			}
		}
	}
	// methods that take one request message, client half-closing only after the response
	for _, cf := range forms {
		for _, tf := range forms {
			for _, codecs := range [][2]string{{"proto", "proto"}, {"json", "proto"}, {"proto", "json"}} {
				if cf == tf && codecs[0] == codecs[1] {
					continue
				}
				for _, cp := range comps[:2] {
					for _, m := range []string{"SStream", "Unary"} {
						if m == "Unary" && (cf == wire.ConnectStream || tf == wire.ConnectStream) {
							continue // (Connect's streaming form is not used for unary methods, on either leg)
						}
						for _, sz := range []int{0, 300} {
							for rs := 0; rs < 4; rs++ {
								out = append(out, c16Config{Client: cf, Target: tf, ClientCod: codecs[0], TargetCod: codecs[1], ClientComp: cp.c, TargetComp: cp.t,
									Rounds: 1, Size: sz, ReadStyle: rs, HandlerFl: rs%2 == 0, SplitWrite: rs >= 2, Method: m})
							}
						}
					}
				}
			}
		}
	}
	return out
}

func init() {
	Register(&Check{
		ID:    "C16",
		Level: "model_checking",
		Rule: "Strict ping-pong of n rounds between a client thread and a handler thread over the stream-mode transport (response bytes visible only when flushed, request frames only once written), for every pairing of streaming client form x streaming target x codec relation x compression relation " +
			"x rounds x message size (0, 1, 300, 5000 bytes) x handler read style (exact ReadFull, byte-wise, 32 KiB buffer, buffered reader) x handler flushing or not x envelope+payload in one or two writes; a subset also with ServeHTTP handed a buffering middleware writer that offers Unwrap(). All schedules of the two threads are explored (DFS, no preemption bound; scheduling points at every body read, write, flush, pool and mutex operation). " +
			"Further configurations: the handler answers each request with two messages in one Write; the handler speaks first; a client-streaming method answered after the first request while the client waits for the answer; server-streaming and unary methods called by a client that half-closes only after it has seen the response. " +
			"A state is a scheduling decision point; a trace is one complete schedule of the real implementation. Non-trivial = distinct configuration that completed at least two rounds.",
		Assume:  []string{"stream-mode transport never flushes on its own (real HTTP/2 flushes a full buffer; a lost flush leaves the tail of a message invisible in both)", "every explored trace is an execution of the implementation itself (no separate model)"},
		Custom:  c16Custom,
		Sharded: true,
	})
}

func c16Custom(rc *RunCtx, rep *Report) {
	cfgs := c16Configs(rc.Tier)
	start := time.Now()
	for ci, k := range cfgs {
		if rc.NShards > 0 && ci%rc.NShards != rc.Shard {
			continue
		}
		if !rc.Deadline.IsZero() && time.Now().After(rc.Deadline) {
			rep.Exhaustive = false
			break
		}
		k := k
		var lastRes *c16Result
		ex := &sched.Explorer{Bound: -1, MaxRuns: 50000, Prune: true}
		ex.Exec = func(prefix []int) *sched.Run {
			run, res := c16Exec(k, prefix)
			lastRes = res
			return run
		}
		ex.Check = func(run *sched.Run) bool {
			res := lastRes
			rep.Executions++
			rep.TracesImpl++
			rep.States += int64(len(run.Points))
			attrs := map[string]string{"client": k.Client.String(), "target": k.Target.String(), "codecs": k.ClientCod + ">" + k.TargetCod, "size0": fmt.Sprint(k.Size == 0), "~config": k.String()}
			fail := func(clause, format string, args ...any) {
				rep.Violations = append(rep.Violations, Found{Scenario: "custom", V: xplorViolation(clause, fmt.Sprintf(format, args...)+"\nconfig: "+k.String()+fmt.Sprintf("\nschedule: %v", run.Trace), attrs, run.Choices(), []string{fmt.Sprintf("config=%d", ci)})})
			}
			fails := c16Judge(k, run, res)
			for _, f := range fails {
				fail(f[0], "%s", f[1])
			}
			if len(fails) == 0 {
				if k.Rounds >= 2 {
					rep.Nontrivial[k.String()] = struct{}{}
				}
				rep.Outcomes[fmt.Sprintf("completed-%d-rounds", k.Rounds)]++
			}
			if len(rep.Samples) < 4 && k.Rounds == 2 && ci%97 == 0 {
				rep.Samples = append(rep.Samples, map[string]any{"config": k.String(), "schedule": run.Trace, "choices": run.Choices()})
			}
			return len(rep.Violations) < 200
		}
		ex.Explore()
		if rc.Verbose && ci == 0 {
			run, _ := c16Exec(k, nil)
			fmt.Fprintf(os.Stderr, "[C16] default schedule of config 0: %v\n", run.TraceKinds)
		}
		if rc.Verbose {
			fmt.Fprintf(os.Stderr, "[C16] config %d/%d %s: runs=%d transitions=%d exhaustive=%v\n", ci, len(cfgs), k.String(), ex.Runs, ex.Transitions, ex.Exhaustive)
		}
		rep.Transitions += int64(ex.Transitions)
		if !ex.Exhaustive {
			rep.Exhaustive = false
		}
	}
	rep.Extra["configurations"] = len(cfgs)
	rep.Extra["schedule_bound"] = "none (all schedules)"
	rep.Notes["wall_ms"] = time.Since(start).Milliseconds()
	if len(rep.Outcomes) < 2 {
		rep.Outcomes["(single outcome class: every schedule completed)"] = 0
	}
}

// c16Judge is the oracle for one finished schedule of a ping-pong configuration.
func c16Judge(k c16Config, run *sched.Run, res *c16Result) [][2]string {
	var fails [][2]string
	fail := func(clause, format string, args ...any) {
		fails = append(fails, [2]string{clause, fmt.Sprintf(format, args...)})
	}
	perRound, greet := 1, 0
	if k.Double {
		perRound = 2
	}
	if k.Greeting {
		greet = 1
	}
	wantResponses := (k.Rounds + greet) * perRound
	if k.ClientStream {
		wantResponses = 1
	}
	switch {
	case run.Deadlock:
		fail("C16.deadlock", "client and handler are both blocked (%v) after %d client responses / %d handler requests: a message was not forwarded when complete", run.Blocked, len(res.ClientGot), len(res.HandlerGot))
	case res.Panic != nil:
		fail("C16.panic", "ServeHTTP panicked: %s\n%s", res.Panic.Value, stackTop(res.Panic.Stack))
	case run.Livelock:
		fail("C16.livelock", "step horizon reached")
	case res.Problem != "":
		fail("C16.exchange-broken", "%s", res.Problem)
	case !res.ClientDone || !res.HandlerDone || len(res.ClientGot) != wantResponses || len(res.HandlerGot) != k.Rounds:
		fail("C16.exchange-incomplete", "client done=%v handler done=%v responses=%d requests=%d", res.ClientDone, res.HandlerDone, len(res.ClientGot), len(res.HandlerGot))
	default:
		for i := 0; i < k.Rounds; i++ {
			if k.ClientStream && i > 0 {
				if want := canonMsg("proto", world.MsgDesc(), Enc("proto", c16Msg(i+1, k.Size))); res.HandlerGot[i] != want {
					fail("C16.wrong-message", "request %d: got %s", i+1, short(res.HandlerGot[i]))
				}
				continue
			}
			if want := canonMsg("proto", world.MsgDesc(), Enc("proto", c16Msg(100+i+1, k.Size))); res.ClientGot[(i+greet)*perRound] != want {
				fail("C16.wrong-message", "response %d: got %s", i+1, short(res.ClientGot[(i+greet)*perRound]))
			}
			if k.Double {
				if want := canonMsg("proto", world.MsgDesc(), Enc("proto", c16Msg(200+i+1, k.Size))); res.ClientGot[(i+greet)*2+1] != want {
					fail("C16.wrong-message", "second response to request %d: got %s", i+1, short(res.ClientGot[(i+greet)*2+1]))
				}
			}
			if want := canonMsg("proto", world.MsgDesc(), Enc("proto", c16Msg(i+1, k.Size))); res.HandlerGot[i] != want {
				fail("C16.wrong-message", "request %d: got %s", i+1, short(res.HandlerGot[i]))
			}
		}
	}
	return fails
}

func init() {
	replayCustom["C16/custom"] = func(rf *ReplayFile, path string) int {
		ci, ok := replayLabel(rf, "config")
		cfgs := c16Configs(rf.Tier)
		if !ok || ci >= len(cfgs) {
			fmt.Println("replay: the file does not name a configuration of this tier")
			return 2
		}
		k := cfgs[ci]
		return replayReport(rf, path, func() ([][2]string, string) {
			run, res := c16Exec(k, rf.Choices)
			if run.Diverged != "" {
				return [][2]string{{"harness.replay-diverged", run.Diverged}}, ""
			}
			return c16Judge(k, run, res), fmt.Sprint(res.ClientGot, res.HandlerGot, run.Trace)
		})
	}
}
