package props

import (
	"bytes"
	"encoding/base64"
	"encoding/binary"
	"errors"
	"fmt"
	"io"
	"net/http"
	"os"
	"strings"

	"connectrpc.com/connect"
	"connectrpc.com/vanguard"
	"google.golang.org/protobuf/proto"
	"google.golang.org/protobuf/reflect/protoreflect"

	"connectrpc.com/vanguard/verifharness/drive"
	"connectrpc.com/vanguard/verifharness/wire"
	"connectrpc.com/vanguard/verifharness/world"
	"connectrpc.com/vanguard/verifharness/xplor"
)

// C10 — the message-size limit bounds buffering on every path.
//
// The transcoder's environment is instrumented at three seams it cannot avoid when it
// holds a message: the decompressor it pulls bytes from, the codec it hands bytes to /
// receives bytes from, and the pooled buffers it stores them in. The oracle is stated on
// those observations plus the sizes the harness itself constructed.

type c10Acct struct {
	*c10Stats          // statistics of the current phase
	req, resp c10Stats // request direction (until the backend has read the request) / response direction
}

func newC10Acct() *c10Acct {
	a := &c10Acct{}
	a.c10Stats = &a.req
	return a
}

type c10Stats struct {
	maxPulled    int // most bytes pulled out of one decompressor between two Resets
	unmarshalMax int // largest payload handed to a codec for decoding
	marshalMax   int // largest payload a codec produced
	compInMax    int // largest input fed to one compressor between two Resets
	compOutMax   int
	marshals     int
	unmarshals   int
	decompresses int
}

// accounting compression: "rle" and "rev" re-implemented as streaming (lazy) connect
// compressors so that a bounded reader pulls only what it asks for.

type c10Compressor struct {
	acct *c10Acct
	alg  string
	w    io.Writer
	buf  bytes.Buffer
}

func (c *c10Compressor) Write(p []byte) (int, error) {
	c.buf.Write(p)
	if c.buf.Len() > c.acct.compInMax {
		c.acct.compInMax = c.buf.Len()
	}
	return len(p), nil
}
func (c *c10Compressor) Close() error {
	out := wire.CompByName(c.alg).Compress(c.buf.Bytes())
	if len(out) > c.acct.compOutMax {
		c.acct.compOutMax = len(out)
	}
	c.buf.Reset()
	_, err := c.w.Write(out)
	return err
}
func (c *c10Compressor) Reset(w io.Writer) { c.w = w; c.buf.Reset() }

type c10Decompressor struct {
	acct   *c10Acct
	alg    string
	src    []byte
	err    error
	pulled int
	// rle state
	run  uint64
	char byte
	// rev state
	revPos int
}

func (d *c10Decompressor) Reset(src io.Reader) error {
	d.acct.decompresses++
	raw, err := io.ReadAll(src)
	if err != nil {
		return err
	}
	d.src, d.err, d.pulled, d.run = raw, nil, 0, 0
	switch d.alg {
	case "rle":
		if len(raw) < 2 || raw[0] != 'R' || raw[1] != 'L' {
			d.err = errors.New("rle: bad magic")
			return nil
		}
		d.src = raw[2:]
	case "rev":
		if _, err := wire.RevDecompress(raw); err != nil {
			d.err = err
			return nil
		}
		d.src = raw[2 : len(raw)-1]
		d.revPos = len(d.src)
	}
	return nil
}

func (d *c10Decompressor) Read(p []byte) (int, error) {
	if d.err != nil {
		return 0, d.err
	}
	n := 0
	switch d.alg {
	case "rle":
		for n < len(p) {
			if d.run == 0 {
				if len(d.src) == 0 {
					break
				}
				r, k := uvarint(d.src)
				if k <= 0 || k >= len(d.src) || r == 0 {
					d.err = errors.New("rle: bad run")
					break
				}
				d.run, d.char = r, d.src[k]
				d.src = d.src[k+1:]
			}
			m := len(p) - n
			if uint64(m) > d.run {
				m = int(d.run)
			}
			for i := 0; i < m; i++ {
				p[n+i] = d.char
			}
			n += m
			d.run -= uint64(m)
		}
	case "rev":
		for n < len(p) && d.revPos > 0 {
			d.revPos--
			p[n] = d.src[d.revPos]
			n++
		}
	}
	d.pulled += n
	if d.pulled > d.acct.maxPulled {
		d.acct.maxPulled = d.pulled
	}
	if n == 0 {
		if d.err != nil {
			return 0, d.err
		}
		return 0, io.EOF
	}
	return n, nil
}
func (d *c10Decompressor) Close() error { return nil }

// WriteTo makes the decompressor an io.WriterTo, as some real ones are (klauspost's zstd decoder):
// an implementation that prefers WriteTo over bounded Reads inflates without any bound. Every byte
// still goes through Read, i.e. through the accounting; the transfer stops at 64 MiB.
func (d *c10Decompressor) WriteTo(w io.Writer) (int64, error) {
	var total int64
	buf := make([]byte, 32<<10)
	for total < 64<<20 {
		n, err := d.Read(buf)
		if n > 0 {
			if _, werr := w.Write(buf[:n]); werr != nil {
				return total, werr
			}
			total += int64(n)
		}
		if err == io.EOF {
			return total, nil
		}
		if err != nil {
			return total, err
		}
	}
	return total, errors.New("c10: decompressor drained without bound (64 MiB)")
}

func uvarint(b []byte) (uint64, int) {
	var x uint64
	var s uint
	for i, c := range b {
		if i == 10 {
			return 0, -1
		}
		if c < 0x80 {
			return x | uint64(c)<<s, i + 1
		}
		x |= uint64(c&0x7f) << s
		s += 7
	}
	return 0, 0
}

// accounting codecs: vanguard's own JSON / proto codecs wrapped so that every payload
// that crosses the codec boundary is measured.

type c10JSON struct {
	*vanguard.JSONCodec
	acct *c10Acct
}

func (c c10JSON) out(base, b []byte, err error) ([]byte, error) {
	c.acct.marshals++
	if n := len(b) - len(base); n > c.acct.marshalMax {
		c.acct.marshalMax = n
	}
	return b, err
}
func (c c10JSON) in(b []byte) {
	c.acct.unmarshals++
	if len(b) > c.acct.unmarshalMax {
		c.acct.unmarshalMax = len(b)
	}
}
func (c c10JSON) MarshalAppend(base []byte, msg proto.Message) ([]byte, error) {
	b, err := c.JSONCodec.MarshalAppend(base, msg)
	return c.out(base, b, err)
}
func (c c10JSON) MarshalAppendStable(base []byte, msg proto.Message) ([]byte, error) {
	b, err := c.JSONCodec.MarshalAppendStable(base, msg)
	return c.out(base, b, err)
}
func (c c10JSON) MarshalAppendField(base []byte, msg proto.Message, field protoreflect.FieldDescriptor) ([]byte, error) {
	b, err := c.JSONCodec.MarshalAppendField(base, msg, field)
	return c.out(base, b, err)
}
func (c c10JSON) UnmarshalField(data []byte, msg proto.Message, field protoreflect.FieldDescriptor) error {
	c.in(data)
	return c.JSONCodec.UnmarshalField(data, msg, field)
}
func (c c10JSON) Unmarshal(data []byte, msg proto.Message) error {
	c.in(data)
	return c.JSONCodec.Unmarshal(data, msg)
}

type c10Proto struct {
	*vanguard.ProtoCodec
	acct *c10Acct
}

func (c c10Proto) MarshalAppend(base []byte, msg proto.Message) ([]byte, error) {
	b, err := c.ProtoCodec.MarshalAppend(base, msg)
	c.acct.marshals++
	if n := len(b) - len(base); n > c.acct.marshalMax {
		c.acct.marshalMax = n
	}
	return b, err
}
func (c c10Proto) MarshalAppendStable(base []byte, msg proto.Message) ([]byte, error) {
	b, err := c.ProtoCodec.MarshalAppendStable(base, msg)
	c.acct.marshals++
	if n := len(b) - len(base); n > c.acct.marshalMax {
		c.acct.marshalMax = n
	}
	return b, err
}
func (c c10Proto) Unmarshal(data []byte, msg proto.Message) error {
	c.acct.unmarshals++
	if len(data) > c.acct.unmarshalMax {
		c.acct.unmarshalMax = len(data)
	}
	return c.ProtoCodec.Unmarshal(data, msg)
}

func c10Options(a *c10Acct) []vanguard.TranscoderOption {
	mk := func(alg string) vanguard.TranscoderOption {
		return vanguard.WithCompression(alg,
			func() connect.Compressor { return &c10Compressor{acct: a, alg: alg} },
			func() connect.Decompressor { return &c10Decompressor{acct: a, alg: alg} })
	}
	return []vanguard.TranscoderOption{
		mk("rle"), mk("rev"),
		vanguard.WithCodec(func(res vanguard.TypeResolver) vanguard.Codec {
			return c10JSON{JSONCodec: vanguard.NewJSONCodec(res), acct: a}
		}),
		vanguard.WithCodec(func(res vanguard.TypeResolver) vanguard.Codec {
			return c10Proto{ProtoCodec: vanguard.NewProtoCodec(res), acct: a}
		}),
	}
}

// ---------------------------------------------------------------------------------

type c10Path struct {
	name   string
	client wire.Form
	ccodec string
	ccomp  bool // client compresses its request (and accepts compressed responses)
	target wire.Form
	tcodec string
	tcomp  string // "": none, "same": the client's algorithm, "other": the other one
	cl     bool   // flat request declares Content-Length
	rest   bool   // REST client
}

func c10Paths() []c10Path {
	return []c10Path{
		{name: "reframe grpc>grpcweb", client: wire.GRPC, ccodec: "proto", target: wire.GRPCWeb, tcodec: "proto"},
		{name: "reframe+same-compression grpc>grpcweb", client: wire.GRPC, ccodec: "proto", ccomp: true, target: wire.GRPCWeb, tcodec: "proto", tcomp: "same"},
		{name: "decompress-only grpcweb>grpc", client: wire.GRPCWeb, ccodec: "proto", ccomp: true, target: wire.GRPC, tcodec: "proto"},
		{name: "recompress connect>grpc", client: wire.ConnectStream, ccodec: "proto", ccomp: true, target: wire.GRPC, tcodec: "proto", tcomp: "other"},
		{name: "re-encode grpc.json>grpcweb.proto", client: wire.GRPC, ccodec: "json", target: wire.GRPCWeb, tcodec: "proto"},
		{name: "re-encode grpcweb.proto>connect.json", client: wire.GRPCWeb, ccodec: "proto", target: wire.ConnectStream, tcodec: "json"},
		{name: "re-encode+compression connect.proto>grpc.json", client: wire.ConnectStream, ccodec: "proto", ccomp: true, target: wire.GRPC, tcodec: "json", tcomp: "same"},
		{name: "buffer-to-measure cunary>grpc nocl", client: wire.ConnectUnary, ccodec: "proto", target: wire.GRPC, tcodec: "proto"},
		{name: "buffer-to-measure cunary>grpc cl", client: wire.ConnectUnary, ccodec: "proto", target: wire.GRPC, tcodec: "proto", cl: true},
		{name: "buffer-to-measure+compression cunary>grpc", client: wire.ConnectUnary, ccodec: "proto", ccomp: true, target: wire.GRPC, tcodec: "proto", tcomp: "same"},
		{name: "unary re-encode cunary.json>grpc.proto compressed", client: wire.ConnectUnary, ccodec: "json", ccomp: true, target: wire.GRPC, tcodec: "proto", tcomp: "same", cl: true},
		{name: "unary decompress cunary>grpcweb", client: wire.ConnectUnary, ccodec: "proto", ccomp: true, target: wire.GRPCWeb, tcodec: "proto"},
		{name: "enveloped>flat grpc>cunary", client: wire.GRPC, ccodec: "proto", target: wire.ConnectUnary, tcodec: "proto"},
		{name: "enveloped>flat re-encode grpc.json>cunary.proto compressed", client: wire.GRPC, ccodec: "json", ccomp: true, target: wire.ConnectUnary, tcodec: "proto", tcomp: "other"},
		{name: "rest>grpc", client: wire.REST, rest: true, ccodec: "json", target: wire.GRPC, tcodec: "proto"},
		{name: "rest compressed>connect.proto", client: wire.REST, rest: true, ccodec: "json", ccomp: true, target: wire.ConnectUnary, tcodec: "proto", cl: true},
		{name: "grpc>rest", client: wire.GRPC, ccodec: "proto", target: wire.REST, tcodec: "json"},
		{name: "grpcweb compressed>rest compressed", client: wire.GRPCWeb, ccodec: "proto", ccomp: true, target: wire.REST, tcodec: "json", tcomp: "same"},
		{name: "buffer-to-measure response rest>grpcweb same codec", client: wire.GRPCWeb, ccodec: "json", target: wire.REST, tcodec: "json"},
		{name: "cget compressed>grpc", client: wire.ConnectGet, ccodec: "proto", ccomp: true, target: wire.GRPC, tcodec: "proto"},
	}
}

// c10Gen builds a message of a shape; all representations grow with k (coarse, in steps of
// 1, 6 or 10 bytes depending on shape and codec) and with pad (fine, one byte per step).
func c10Gen(shape string, run, k, pad int) proto.Message {
	var sb strings.Builder
	switch shape {
	case "plain":
		sb.WriteString(`{"name":"`)
		for i := 0; i < k; i++ {
			sb.WriteByte("ab"[(i/run)%2])
		}
		sb.WriteString(`"`)
	case "ctl":
		sb.WriteString(`{"name":"`)
		for i := 0; i < k; i++ {
			sb.WriteString(`\u0001`)
		}
		sb.WriteString(`"`)
	case "nums":
		sb.WriteString(`{"nums":[`)
		for i := 0; i < k; i++ {
			if i > 0 {
				sb.WriteByte(',')
			}
			sb.WriteString("-1")
		}
		sb.WriteString(`]`)
	}
	if pad > 0 {
		sb.WriteString(`,"extraText":"`)
		for i := 0; i < pad; i++ {
			sb.WriteByte("cd"[i%2])
		}
		sb.WriteString(`"`)
	}
	sb.WriteString("}")
	return MkMsg(sb.String())
}

type c10Sizes struct{ wire, dec, reenc int }

func (s c10Sizes) max() int {
	m := s.wire
	if s.dec > m {
		m = s.dec
	}
	if s.reenc > m {
		m = s.reenc
	}
	return m
}

// c10Find returns the message of the shape whose measured representation is the closest
// to target from below (floor) or from above; nil if the representation never gets there.
func c10Find(shape string, run int, size func(proto.Message) int, target int, floor bool, maxK int) proto.Message {
	if !floor {
		// the closest from above is one step beyond the closest from below of target-1
		k, pad, ok := c10Floor(shape, run, size, target-1, maxK)
		if !ok {
			return nil
		}
		if shape != "plain" {
			for p := pad + 1; p <= pad+24; p++ {
				if cand := c10Gen(shape, run, k, p); size(cand) >= target {
					return cand
				}
			}
		}
		for kk := k + 1; ; kk++ {
			if cand := c10Gen(shape, run, kk, 0); size(cand) >= target {
				return cand
			}
			if kk > k+64 {
				return nil
			}
		}
	}
	k, pad, ok := c10Floor(shape, run, size, target, maxK)
	if !ok {
		return nil
	}
	return c10Gen(shape, run, k, pad)
}

func c10Floor(shape string, run int, size func(proto.Message) int, target, maxK int) (int, int, bool) {
	if shape == "plain" && target > 1<<16 {
		// sizes of the plain shape are linear in k once k is large (one byte per character
		// in both codecs): measure the constant once instead of generating huge messages
		// at every probe of the search
		base := size(c10Gen(shape, run, 1<<14, 0)) - 1<<14
		if base >= 0 && base < 64 && size(c10Gen(shape, run, 1<<15, 0))-1<<15 == base {
			k := target - base - 2 // the length prefix may still grow by a byte or two
			for k > 0 && size(c10Gen(shape, run, k, 0)) > target {
				k--
			}
			if k > maxK {
				return 0, 0, false
			}
			for size(c10Gen(shape, run, k+1, 0)) <= target {
				k++
			}
			return k, 0, true
		}
	}
	lo, hi := 0, 1
	for size(c10Gen(shape, run, hi, 0)) <= target {
		hi *= 2
		if hi > maxK {
			return 0, 0, false // this representation of this shape never gets that large (compressible)
		}
	}
	// largest k with size <= target
	for lo < hi {
		mid := (lo + hi + 1) / 2
		if size(c10Gen(shape, run, mid, 0)) <= target {
			lo = mid
		} else {
			hi = mid - 1
		}
	}
	k, pad := lo, 0
	if shape != "plain" {
		for pad < 24 && size(c10Gen(shape, run, k, pad+1)) <= target {
			pad++
		}
	}
	return k, pad, true
}

// c10Slack is the additive part of the memory bounds: one ordinary I/O buffer.
const c10Slack = 64 << 10

const (
	c10Small = `{"name":"s"}`
)

func c10Compress(alg string, b []byte) []byte {
	if alg == "" {
		return b
	}
	return wire.CompByName(alg).Compress(b)
}

func c10Scenario(thorough bool) func(c *xplor.Ctx) {
	paths := c10Paths()
	limits := []int{512, 2048}
	if thorough {
		limits = append(limits, 100<<10)
	}
	shapes := []string{"plain", "ctl", "nums"}
	measures := []string{"wire", "decompressed", "re-encoded"}
	type tgt struct {
		name  string
		mul   int
		add   int
		floor bool
	}
	targets := []tgt{{"L-1", 1, -1, true}, {"L", 1, 0, true}, {"L+1", 1, 1, false}, {"2L", 2, 0, false}, {"8L", 8, 0, false}, {"50L", 50, 0, false}, {"1000L", 1000, 0, false}}
	return func(c *xplor.Ctx) {
		p := paths[c.Free("path", len(paths))]
		dir := []string{"request", "response"}[c.Free("direction", 2)]
		L := limits[c.Free("limit", len(limits))]
		shape := shapes[c.Free("shape", len(shapes))]
		measure := measures[c.Free("measure", len(measures))]
		t := targets[c.Free("size", len(targets))]
		alg := ""
		run := 1
		if p.ccomp {
			alg = []string{"rev", "rle"}[c.Free("algorithm", 2)]
			if alg == "rle" {
				run = []int{1, 100, 4000}[c.Free("run", 3)]
			}
		}
		c.Attr("path", p.name)
		c.Attr("direction", dir)
		c.Attr("~limit", fmt.Sprint(L))
		c.Attr("~shape", shape)
		c.Attr("~measure", measure)
		c.Attr("size", t.name)
		c.Attr("~alg", fmt.Sprintf("%s/run%d", alg, run))
		if p.client == wire.ConnectGet && dir == "request" && shape != "plain" {
			// the GET message travels in the URL; one shape suffices
			c.Skip()
			return
		}
		if t.mul >= 50 && (shape != "plain" || measure != "decompressed") {
			c.Skip() // the large sizes are the compression-bomb / huge-body cases
			return
		}
		if t.mul == 1000 && L > 1024 && !(alg == "rle" && run == 4000) {
			c.Skip()
			return
		}
		other := ""
		if alg != "" {
			other = map[string]string{"rev": "rle", "rle": "rev"}[alg]
		}
		tcomp := ""
		switch p.tcomp {
		case "same":
			tcomp = alg
		case "other":
			tcomp = other
		}
		// source / destination legs of the direction under test
		srcCodec, dstCodec, srcAlg := p.ccodec, p.tcodec, alg
		srcFlat, dstFlat := !p.client.Enveloped(), !p.target.Enveloped()
		if dir == "response" {
			// the backend answers in its own codec with a compression the request it received
			// advertised: the transcoder advertises the target compression
			srcCodec, dstCodec, srcAlg = p.tcodec, p.ccodec, tcomp
			srcFlat, dstFlat = dstFlat, srcFlat
		}
		encSrc := func(m proto.Message) []byte { return Enc(srcCodec, m) }
		size := func(m proto.Message) int {
			switch measure {
			case "wire":
				return len(c10Compress(srcAlg, encSrc(m)))
			case "decompressed":
				return len(encSrc(m))
			}
			return len(Enc(dstCodec, m))
		}
		maxK := 40 * L // larger messages only as the explicit bomb / huge-body sizes
		if measure == "decompressed" {
			maxK = 1100 * L
		}
		big := c10Find(shape, run, size, t.mul*L+t.add, t.floor, maxK)
		if big == nil {
			c.Skip()
			return
		}
		known := c10Sizes{dec: len(encSrc(big))}
		known.wire = len(c10Compress(srcAlg, encSrc(big)))
		c.Attr("~sizes", fmt.Sprintf("src-wire=%d src-decompressed=%d dst-estimate=%d", known.wire, known.dec, len(Enc(dstCodec, big))))

		acct := newC10Acct()
		small := MkMsg(c10Small)
		reqMsg, respMsg := small, small
		if dir == "request" {
			reqMsg = big
		} else {
			respMsg = big
		}
		respCL := 0
		if !p.target.Enveloped() {
			respCL = c.Free("response-content-length", 3)
			c.Attr("~response-content-length", []string{"none", "true", "1000L (lie)"}[respCL])
		}
		be := &world.Backend{}
		usedRespComp := ""
		be.Respond = func(b *world.Backend, r *http.Request) *world.Reply {
			req := b.Parsed
			acct.c10Stats = &acct.resp // the request has been read completely
			comp := ""
			if tcomp != "" {
				comp = world.PickAccepted(req, tcomp)
			}
			usedRespComp = comp
			rep := world.EchoReply(req, [][]byte{Enc(req.Codec, respMsg)}, comp, nil)
			switch respCL {
			case 1: // the backend declares the length of its flat body (what most servers do)
				rep.HasCL, rep.ContentLength = true, int64(len(rep.Out.Body))
			case 2: // ... or declares a huge one (a broken or hostile backend): nothing may be sized by it
				rep.HasCL, rep.ContentLength = true, int64(1000*L)
			}
			return rep
		}
		cfg := world.Config{Protocols: []vanguard.Protocol{world.FormToProtocol(p.target)}, Codecs: []string{p.tcodec}, MaxMsg: uint32(L), TOpts: c10Options(acct)}
		if tcomp == "" {
			cfg.NoCompress = true
		} else {
			cfg.Compression = []string{tcomp}
		}
		tc, err := world.Build(cfg, be)
		if err != nil {
			c.Fail("harness.setup", "%v", err)
			return
		}
		// the client's request
		var spec *drive.ReqSpec
		var accept []string
		if alg != "" {
			accept = []string{alg}
			if p.tcomp == "other" {
				accept = []string{alg, other} // lets the backend answer in the other algorithm
			}
		}
		if p.rest {
			body := c10Compress(alg, Enc("json", reqMsg))
			spec = &drive.ReqSpec{Method: "POST", Target: "/v1/unary", Header: http.Header{"Content-Type": {"application/json"}}, ContentLength: -1, ProtoMajor: 1, Body: drive.NewBody(body)}
			if alg != "" {
				spec.Header.Set("Content-Encoding", alg)
				spec.Header.Set("Accept-Encoding", alg)
			}
		} else {
			method := "Unary"
			if p.client == wire.ConnectGet {
				method = "Pure"
			}
			if p.client == wire.ConnectStream || p.target == wire.ConnectStream {
				method = "Bidi"
			}
			cr := &wire.ClientReq{Form: p.client, Path: world.SvcPath + method, Codec: p.ccodec, Compression: alg, Accept: accept, Msgs: [][]byte{Enc(p.ccodec, reqMsg)}}
			spec = world.SpecFromClient(cr)
		}
		if spec.Body != nil && (p.cl || c.Free("declared-length", 2) == 1) {
			spec.ContentLength = -2 // the client declares the length of its (whole) body
			c.Attr("~declared-length", "true")
		}
		ex, err := world.Do(tc, spec)
		if err != nil {
			if p.client == wire.ConnectGet {
				c.Skip() // URL too long for the request constructor
				return
			}
			c.Fail("harness.setup", "%v", err)
			return
		}
		if ex.Panic != nil {
			c.Fail("C10.panic", "%s %s", ex.Panic.Value, stackTop(ex.Panic.Stack))
			return
		}
		if dir == "response" && usedRespComp != srcAlg {
			// the backend could not use the compression (the request did not advertise it)
			known.wire = len(c10Compress(usedRespComp, encSrc(big)))
			c.Attr("~sizes", fmt.Sprintf("src-wire=%d src-decompressed=%d dst-estimate=%d (response sent with compression %q)", known.wire, known.dec, len(Enc(dstCodec, big)), usedRespComp))
		}
		cform := p.client
		if cform == wire.ConnectGet {
			cform = wire.ConnectUnary
		}
		pr := wire.ParseClientResponse(cform, ex.Rec.Status, ex.Rec.HeadHeaders(), ex.Rec.BodyBytes.Bytes(), ex.Rec.Trailers)
		ok := pr.OK()
		pool := vanguard.VerifBufferPool(tc).Stats()
		all := acct
		st := &all.req // the direction that carries the big message
		oth := &all.resp
		if dir == "response" {
			st, oth = oth, st
		}
		c.Attr("~seams", fmt.Sprintf("pulled=%d unmarshal=%d marshal=%d compress-in=%d compress-out=%d pool-cap=%d client=%d/%q status=%d backend-calls=%d",
			st.maxPulled, st.unmarshalMax, st.marshalMax, st.compInMax, st.compOutMax, pool.MaxCapSeen, pr.End.Code, short(pr.End.Message), ex.Rec.Status, be.Calls))

		if os.Getenv("VERIF_DEBUG") != "" {
			fmt.Fprintf(os.Stderr, "DBG req: %s %s %v body=%d\n", spec.Method, spec.Target, spec.Header, func() int {
				if spec.Body != nil {
					return len(spec.Body.Data)
				}
				return -1
			}())
			if be.Seen != nil {
				fmt.Fprintf(os.Stderr, "DBG backend saw: %s %v body=%d readerr=%q werrs=%v\n", be.Seen.URL, be.Seen.Header, len(be.Seen.Body), be.Seen.ReadErr, be.WriteErrs)
			}
			fmt.Fprintf(os.Stderr, "DBG client got: %d %v body=%q trailers=%v complaints=%v\n", ex.Rec.Status, ex.Rec.HeadHeaders(), short(string(ex.Rec.BodyBytes.Bytes())), ex.Rec.Trailers, pr.Complaints)
		}
		// was the big message delivered (complete and decodable) to the other peer?
		delivered := false
		isBig := func(codec string, payload []byte) bool {
			m, err := wire.Unmarshal(codec, world.MsgDesc(), payload)
			return err == nil && MsgEqual(m, big)
		}
		if dir == "request" {
			if be.Calls > 0 && be.Parsed != nil {
				for i, m := range be.Parsed.Msgs {
					if (i >= len(be.Parsed.MsgBad) || !be.Parsed.MsgBad[i]) && isBig(be.Parsed.Codec, m) {
						delivered = true
					}
				}
			}
		} else if !pr.BareHTTP {
			for i, m := range pr.Msgs {
				if (i >= len(pr.MsgBad) || !pr.MsgBad[i]) && isBig(pr.Codec, m) {
					delivered = true
				}
			}
		}
		c.AddEvaluations(1)

		// whatever happens, what the client receives is well-formed in its protocol: exactly
		// one end, nothing after it
		if len(pr.Complaints) > 0 {
			c.Fail("C10.malformed-response", "the client's response is not well-formed: %v", pr.Complaints)
		}
		// (a) the memory bound, on the three seams
		if st.maxPulled > 4*L+c10Slack {
			c.Fail("C10.inflated-beyond-limit", "%d bytes were pulled out of one decompressor under a limit of %d", st.maxPulled, L)
		}
		if pool.MaxCapSeen > 16*L+c10Slack {
			c.Fail("C10.buffer-beyond-limit", "a pooled message buffer of capacity %d was used under a limit of %d", pool.MaxCapSeen, L)
		}
		if st.unmarshalMax > L {
			c.Fail("C10.decoded-oversized", "a payload of %d bytes was held and handed to the codec for decoding under a limit of %d", st.unmarshalMax, L)
		}
		if st.compInMax > L {
			c.Fail("C10.compressed-oversized", "a payload of %d bytes was held and handed to a compressor under a limit of %d", st.compInMax, L)
		}
		if respCL == 2 {
			// the response is broken by construction (body shorter than declared): only the
			// memory bounds above are judged, and that it is not taken for a success
			if ok && dir == "response" {
				c.Fail("C10.lost", "a response whose body is shorter than its declared Content-Length was relayed as success")
			}
			c.Outcome(dir + " lying-content-length")
			return
		}
		// (b) an oversized message is not delivered
		if delivered {
			if st.marshalMax > L {
				c.Fail("C10.oversized-delivered", "the re-encoded message has %d bytes (limit %d) and was delivered", st.marshalMax, L)
			}
			if st.maxPulled > L {
				c.Fail("C10.oversized-delivered", "the decompressed message has %d bytes (limit %d) and was delivered", st.maxPulled, L)
			}
			if !dstFlat && st.compOutMax > L {
				c.Fail("C10.oversized-delivered", "the re-compressed message has %d bytes (limit %d), had to be buffered to be measured for its envelope, and was delivered", st.compOutMax, L)
			}
			if srcFlat && !dstFlat && known.wire > L && !(p.client == wire.ConnectGet && dir == "request") {
				c.Fail("C10.oversized-delivered", "a flat body of %d bytes (limit %d) had to be buffered to be measured for its envelope and was delivered", known.wire, L)
			}
		}
		// (c) failures are resource_exhausted, justified by some representation > L
		biggest := known.max()
		for _, v := range []int{st.marshalMax, st.compOutMax, st.maxPulled, oth.marshalMax, oth.compOutMax, oth.maxPulled, oth.unmarshalMax} {
			if v > biggest {
				biggest = v
			}
		}
		switch {
		case !ok:
			if pr.End.Code != 8 {
				c.Fail("C10.size-failure-wrong-code", "the RPC failed with code %d %q (HTTP %d), not resource_exhausted", pr.End.Code, short(pr.End.Message), ex.Rec.Status)
			}
			if biggest <= L {
				c.Fail("C10.rejected-although-fits", "the RPC failed (%d %q) although every representation of the message fits the limit %d: %s", pr.End.Code, short(pr.End.Message), L, c.Attrs["~sizes"])
			}
			if dir == "request" && delivered {
				c.Fail("C10.oversized-delivered", "the request failed for size but the backend received the message")
			}
		default:
			if !delivered {
				c.Fail("C10.lost", "the RPC succeeded but the message was not delivered")
			}
		}
		near := ""
		for _, v := range []int{known.wire, known.dec, st.marshalMax, st.maxPulled} {
			if v >= L-1 && v <= L+1 {
				near = "boundary"
			}
		}
		if t.mul >= 50 {
			near = "bomb"
		}
		if near != "" {
			c.Nontrivial(fmt.Sprintf("%s|%s|%d|%s|%s|%s|%s", p.name, dir, L, shape, measure, t.name, near))
		}
		c.Outcome(fmt.Sprintf("%s ok=%v delivered=%v", dir, ok, delivered))
	}
}

// c10Errors: the backend ends the RPC with an error whose encoding (error body, end-of-stream
// frame, trailer frame) is sized around the limit or is a compression bomb.
func c10Errors(c *xplor.Ctx) {
	targets := []wire.Form{wire.ConnectUnary, wire.ConnectStream, wire.GRPCWeb, wire.REST}
	clients := []wire.Form{wire.GRPC, wire.ConnectUnary, wire.ConnectStream}
	tgt := targets[c.Free("target", len(targets))]
	cl := clients[c.Free("client", len(clients))]
	L := []int{512, 2048}[c.Free("limit", 2)]
	alg := []string{"", "rev", "rle"}[c.Free("compression", 3)]
	type sz struct {
		name     string
		mul, add int
	}
	sizes := []sz{{"small", 0, 40}, {"L-1", 1, -1}, {"L", 1, 0}, {"L+1", 1, 1}, {"8L", 8, 0}, {"1000L", 1000, 0}, {"announced-64MiB", 0, 40}}
	t := sizes[c.Free("size", len(sizes))]
	// the last size: the frame that carries the error ANNOUNCES 64 MiB in its envelope and then
	// brings 40 bytes before the response ends - the announcement alone must be refused
	announced := t.name == "announced-64MiB"
	withMsg := c.Free("after-a-message", 2) == 1
	c.Attr("target", tgt.String())
	c.Attr("client", cl.String())
	c.Attr("~limit", fmt.Sprint(L))
	c.Attr("compression", alg)
	c.Attr("size", t.name)
	if t.mul == 1000 && alg != "rle" {
		c.Skip()
		return
	}
	if (withMsg || announced) && tgt != wire.ConnectStream && tgt != wire.GRPCWeb {
		c.Skip() // a flat error body cannot follow a message (and has no envelope)
		return
	}
	if cl.Family() == tgt.Family() {
		c.Skip() // same protocol and codec on both sides: the exchange is passed through untouched
		return
	}
	method := "Unary"
	if cl == wire.ConnectStream || tgt == wire.ConnectStream {
		method = "Bidi"
		if cl == wire.ConnectUnary || tgt == wire.REST {
			c.Skip() // Connect unary clients cannot call streaming methods; Bidi has no REST binding
			return
		}
	}
	want := t.mul*L + t.add
	acct := newC10Acct()
	var bodyLen, rawLen int
	be := &world.Backend{}
	be.Respond = func(b *world.Backend, r *http.Request) *world.Reply {
		req := b.Parsed
		acct.c10Stats = &acct.resp
		comp := ""
		if alg != "" {
			comp = world.PickAccepted(req, alg)
		}
		build := func(n int) *world.Reply {
			end := &wire.End{Code: 10, Message: strings.Repeat("m", n)}
			var msgs [][]byte
			if withMsg {
				msgs = [][]byte{Enc(req.Codec, MkMsg(c10Small))}
			}
			sr := &wire.ServerResp{Form: world.ServerFormFor(req.Form), Codec: req.Codec, Compression: comp, Msgs: msgs, End: end, CompressEnd: comp != ""}
			if len(msgs) == 0 && sr.Form == wire.GRPCWeb {
				sr.TrailersOnly = false // keep the status in a trailer frame: that is the path under test
			}
			return &world.Reply{Out: sr.Encode(), ContentLength: -1, ReturnAfter: -1}
		}
		// size the uncompressed encoding of the error: overhead is what n=0 costs
		probe := func(n int) int {
			sr := &wire.ServerResp{Form: world.ServerFormFor(req.Form), Codec: req.Codec, End: &wire.End{Code: 10, Message: strings.Repeat("m", n)}}
			out := sr.Encode()
			if sr.Form.Enveloped() {
				return len(out.Body) - 5
			}
			return len(out.Body)
		}
		n := want - probe(1) + 1
		if n < 1 {
			n = 1
		}
		rawLen = probe(n)
		rep := build(n)
		bodyLen = len(rep.Out.Body)
		if announced {
			offs := frameOffsets(rep.Out.Body)
			binary.BigEndian.PutUint32(rep.Out.Body[offs[len(offs)-1]+1:], 64<<20)
			rawLen = 64 << 20
		}
		return rep
	}
	cfg := world.Config{Protocols: []vanguard.Protocol{world.FormToProtocol(tgt)}, Codecs: []string{"proto"}, MaxMsg: uint32(L), TOpts: c10Options(acct)}
	if tgt == wire.REST {
		cfg.Codecs = []string{"json"}
	}
	if alg == "" {
		cfg.NoCompress = true
	} else {
		cfg.Compression = []string{alg}
	}
	tc, err := world.Build(cfg, be)
	if err != nil {
		c.Fail("harness.setup", "%v", err)
		return
	}
	var accept []string
	if alg != "" {
		accept = []string{alg}
	}
	cr := &wire.ClientReq{Form: cl, Path: world.SvcPath + method, Codec: "proto", Accept: accept, Msgs: [][]byte{Enc("proto", MkMsg(c10Small))}}
	ex, err := world.Do(tc, world.SpecFromClient(cr))
	if err != nil {
		c.Fail("harness.setup", "%v", err)
		return
	}
	if ex.Panic != nil {
		c.Fail("C10.panic", "%s %s", ex.Panic.Value, stackTop(ex.Panic.Stack))
		return
	}
	if be.Calls == 0 {
		c.Fail("harness.setup", "backend not reached: HTTP %d %s", ex.Rec.Status, short(ex.Rec.BodyBytes.String()))
		return
	}
	pr := wire.ParseClientResponse(cl, ex.Rec.Status, ex.Rec.HeadHeaders(), ex.Rec.BodyBytes.Bytes(), ex.Rec.Trailers)
	pool := vanguard.VerifBufferPool(tc).Stats()
	st := &acct.resp
	c.Attr("~seams", fmt.Sprintf("error-encoding=%d on-the-wire=%d pulled=%d pool-cap=%d client=%d/%q status=%d complaints=%v", rawLen, bodyLen, st.maxPulled, pool.MaxCapSeen, pr.End.Code, short(pr.End.Message), ex.Rec.Status, pr.Complaints))
	c.AddEvaluations(1)
	if st.maxPulled > 4*L+c10Slack {
		c.Fail("C10.inflated-beyond-limit", "%d bytes were pulled out of one decompressor for the backend's error under a limit of %d", st.maxPulled, L)
	}
	if pool.MaxCapSeen > 16*L+c10Slack {
		c.Fail("C10.buffer-beyond-limit", "a pooled buffer of capacity %d was used for the backend's error under a limit of %d", pool.MaxCapSeen, L)
	}
	if pr.OK() {
		c.Fail("C10.error-became-success", "the backend ended the RPC with an error of %d bytes; the client saw success", rawLen)
	}
	if pr.BareHTTP || pr.EndSeen == 0 {
		c.Fail("C10.error-not-in-protocol", "the client did not receive a well-formed end of the RPC (HTTP %d, complaints %v)", ex.Rec.Status, pr.Complaints)
	}
	if rawLen > L {
		if pr.End.Code == 10 && len(pr.End.Message) > L {
			c.Fail("C10.oversized-delivered", "the backend's error of %d bytes (limit %d) was buffered and delivered", rawLen, L)
		}
		if pr.End.Code != 10 && pr.End.Code != 8 && !(tgt == wire.REST && alg != "") {
			// (a REST backend's compressed error body is not inflated at all: the RPC ends
			// with the code of the HTTP status, which is C04's business)
			c.Fail("C10.size-failure-wrong-code", "the backend's oversized error ended the RPC with code %d %q, not resource_exhausted", pr.End.Code, short(pr.End.Message))
		}
	} else if bodyLen <= L && rawLen+256 <= L && pr.End.Code == 8 {
		// (the end of the RPC is re-encoded for the client, e.g. trailers into an end-of-stream
		// JSON object; within 256 bytes of the limit that form may legitimately exceed it)
		c.Fail("C10.rejected-although-fits", "the backend's error (%d bytes, %d on the wire, limit %d) was rejected for size", rawLen, bodyLen, L)
	}
	if t.mul == 1000 || (rawLen >= L-1 && rawLen <= L+1) {
		c.Nontrivial(fmt.Sprintf("err|%s|%s|%d|%s|%s|%v", tgt, cl, L, alg, t.name, withMsg))
	}
	c.Outcome(fmt.Sprintf("error code=%d", pr.End.Code))
}

// c10Streams: several messages that each fit the limit, in one request / response whose total
// size (and declared Content-Length) exceeds it: the limit is per message, never per body.
func c10Streams(c *xplor.Ctx) {
	clients := []wire.Form{wire.GRPC, wire.GRPCWeb, wire.ConnectStream}
	targets := []wire.Form{wire.GRPC, wire.GRPCWeb, wire.ConnectStream}
	cl := clients[c.Free("client", len(clients))]
	tg := targets[c.Free("target", len(targets))]
	ccodec := []string{"proto", "json"}[c.Free("client-codec", 2)]
	tcodec := []string{"proto", "json"}[c.Free("target-codec", 2)]
	L := []int{512, 2048}[c.Free("limit", 2)]
	declared := c.Free("declared-length", 2) == 1
	frac := []int{60, 100}[c.Free("message-size-percent", 2)] // of the limit, in the larger of the two codecs
	c.Attr("client", cl.String()+"/"+ccodec)
	c.Attr("target", tg.String()+"/"+tcodec)
	c.Attr("~limit", fmt.Sprint(L))
	c.Attr("~declared-length", fmt.Sprint(declared))
	if cl.Family() == tg.Family() && ccodec == tcodec {
		c.Skip() // passed through untouched
		return
	}
	acct := newC10Acct()
	size := func(m proto.Message) int {
		a, b := len(Enc(ccodec, m)), len(Enc(tcodec, m))
		if ccodec == "json" || tcodec == "json" {
			// vanguard's JSON codec emits unpopulated fields: measure with the real codec
			j, _ := vanguard.NewJSONCodec(nil).MarshalAppend(nil, m)
			if len(j) > a {
				a = len(j)
			}
		}
		if b > a {
			return b
		}
		return a
	}
	msg := c10Find("plain", 1, size, L*frac/100, true, 40*L)
	if msg == nil {
		c.Skip()
		return
	}
	const n = 3
	be := &world.Backend{}
	be.Respond = func(b *world.Backend, r *http.Request) *world.Reply {
		acct.c10Stats = &acct.resp
		var out [][]byte
		for i := 0; i < n; i++ {
			out = append(out, Enc(b.Parsed.Codec, msg))
		}
		return world.EchoReply(b.Parsed, out, "", nil)
	}
	tc, err := world.Build(world.Config{Protocols: []vanguard.Protocol{world.FormToProtocol(tg)}, Codecs: []string{tcodec}, NoCompress: true, MaxMsg: uint32(L), TOpts: c10Options(acct)}, be)
	if err != nil {
		c.Fail("harness.setup", "%v", err)
		return
	}
	cr := &wire.ClientReq{Form: cl, Path: world.SvcPath + "Bidi", Codec: ccodec}
	for i := 0; i < n; i++ {
		cr.Msgs = append(cr.Msgs, Enc(ccodec, msg))
	}
	spec := world.SpecFromClient(cr)
	if declared {
		spec.ContentLength = -2
	}
	ex, err := world.Do(tc, spec)
	if err != nil {
		c.Fail("harness.setup", "%v", err)
		return
	}
	if ex.Panic != nil {
		c.Fail("C10.panic", "%s %s", ex.Panic.Value, stackTop(ex.Panic.Stack))
		return
	}
	pr := wire.ParseClientResponse(cl, ex.Rec.Status, ex.Rec.HeadHeaders(), ex.Rec.BodyBytes.Bytes(), ex.Rec.Trailers)
	biggest := 0
	for _, v := range []int{acct.req.marshalMax, acct.req.unmarshalMax, acct.resp.marshalMax, acct.resp.unmarshalMax, len(Enc(ccodec, msg)), len(Enc(tcodec, msg))} {
		if v > biggest {
			biggest = v
		}
	}
	c.Attr("~seams", fmt.Sprintf("messages=%d each<=%d body=%d client=%d/%q backend-messages=%d", n, biggest, len(spec.Body.Data), pr.End.Code, short(pr.End.Message), func() int {
		if be.Parsed == nil {
			return 0
		}
		return len(be.Parsed.Msgs)
	}()))
	c.AddEvaluations(1)
	if biggest <= L {
		c.Nontrivial(fmt.Sprintf("stream|%s|%s|%s|%s|%d|%v|%d", cl, ccodec, tg, tcodec, L, declared, frac))
		if !pr.OK() {
			c.Fail("C10.rejected-although-fits", "a stream of %d messages of at most %d bytes each (limit %d; body of %d bytes, length declared: %v) failed with code %d %q", n, biggest, L, len(spec.Body.Data), declared, pr.End.Code, short(pr.End.Message))
		} else if be.Parsed == nil || len(be.Parsed.Msgs) != n || len(pr.Msgs) != n {
			c.Fail("C10.lost", "the stream succeeded but %d request and %d response messages arrived instead of %d each", len(be.Parsed.Msgs), len(pr.Msgs), n)
		}
	} else if !pr.OK() && pr.End.Code != 8 {
		c.Fail("C10.size-failure-wrong-code", "code %d %q", pr.End.Code, short(pr.End.Message))
	}
	c.Outcome(fmt.Sprintf("stream ok=%v", pr.OK()))
}

// c10RestDownload: a REST client of a server-streaming method whose responses are
// google.api.HttpBody chunks (response_body names the field): every chunk fits the limit in
// every representation, their sum does not. The limit is per message.
func c10RestDownload(c *xplor.Ctx) {
	targets := []wire.Form{wire.GRPC, wire.GRPCWeb, wire.ConnectStream}
	tg := targets[c.Free("target", len(targets))]
	tcodec := []string{"proto", "json"}[c.Free("target-codec", 2)]
	L := []int{512, 2048}[c.Free("limit", 2)]
	n := []int{1, 3, 6}[c.Free("chunks", 3)]
	c.Attr("client", "rest")
	c.Attr("class", "rest-download-of-several-chunks")
	c.Attr("target", tg.String()+"/"+tcodec)
	c.Attr("~limit", fmt.Sprint(L))
	chunk := bytes.Repeat([]byte("0123456789abcdef"), L*2/5/16) // 40% of L: its JSON form (base64) stays below L
	acct := newC10Acct()
	be := &world.Backend{}
	be.Respond = func(b *world.Backend, r *http.Request) *world.Reply {
		acct.c10Stats = &acct.resp
		var out [][]byte
		for i := 0; i < n; i++ {
			out = append(out, Enc(b.Parsed.Codec, MkMsg(`{"body":{"contentType":"application/octet-stream","data":"`+base64.StdEncoding.EncodeToString(chunk)+`"}}`)))
		}
		return world.EchoReply(b.Parsed, out, "", nil)
	}
	tc, err := world.Build(world.Config{Protocols: []vanguard.Protocol{world.FormToProtocol(tg)}, Codecs: []string{tcodec}, NoCompress: true, MaxMsg: uint32(L), TOpts: c10Options(acct)}, be)
	if err != nil {
		c.Fail("harness.setup", "%v", err)
		return
	}
	ex, err := world.Do(tc, &drive.ReqSpec{Method: "GET", Target: "/v1/down/d1", Header: http.Header{}, ContentLength: -1, NoBody: true})
	if err != nil {
		c.Fail("harness.setup", "%v", err)
		return
	}
	if ex.Panic != nil {
		c.Fail("C10.panic", "%s %s", ex.Panic.Value, stackTop(ex.Panic.Stack))
		return
	}
	biggest := acct.resp.marshalMax
	if acct.resp.unmarshalMax > biggest {
		biggest = acct.resp.unmarshalMax
	}
	c.Attr("~seams", fmt.Sprintf("chunks=%d of %d bytes, largest representation seen=%d, client status=%d body=%d bytes", n, len(chunk), biggest, ex.Rec.Status, ex.Rec.BodyBytes.Len()))
	c.AddEvaluations(1)
	c.Nontrivial(fmt.Sprintf("download|%s|%s|%d|%d", tg, tcodec, L, n))
	if biggest > L {
		c.Fail("harness.setup", "a chunk has a representation of %d bytes, above the limit %d", biggest, L)
		return
	}
	if ex.Rec.Status != 200 {
		c.Fail("C10.rejected-although-fits", "a download of %d chunks of %d bytes each (every representation <= %d, limit %d) failed: HTTP %d %s", n, len(chunk), biggest, L, ex.Rec.Status, short(ex.Rec.BodyBytes.String()))
	} else if !bytes.Equal(ex.Rec.BodyBytes.Bytes(), bytes.Repeat(chunk, n)) {
		c.Fail("C10.lost", "the download succeeded but the client received %d bytes instead of the %d chunks of %d bytes", ex.Rec.BodyBytes.Len(), n, len(chunk))
	}
	c.Outcome(fmt.Sprintf("download status=%d", ex.Rec.Status))
}

func init() {
	Register(&Check{
		ID:    "C10",
		Level: "fault_enumeration",
		Rule: "Every combination of 20 adapter paths (re-frame, same-compression pass-through, decompress-only, re-compress, re-encode in both directions, buffer-to-measure with and without Content-Length, unary buffering, enveloped-to-flat, REST in and out, Connect GET) x direction (request / response) x limit L in {512, 2048} (+100 KiB thorough) x message shape (plain, 6x proto->JSON expansion, 3x JSON->proto expansion) x measured representation (wire, decompressed, re-encoded) x size (closest to L-1, L, L+1, 2L, 8L; 50L and 1000L as compression bombs / huge bodies) x compression (1:1 'rev', run-length 'rle' at ratio 0.5, 50:1, 1000:1) is sent through the real ServeHTTP. " +
			"Seams the transcoder cannot avoid are instrumented: bytes pulled from a decompressor per message (<= 4L+64 KiB), payload sizes handed to / produced by the codecs (decode input and compressor input <= L), capacity of pooled message buffers (<= 16L+64 KiB). Oracle: bounds hold; a message whose decompressed / re-encoded / must-be-buffered flat representation exceeds L is never delivered; every failure is resource_exhausted and is justified by some representation > L (so messages whose every representation fits are never rejected).",
		Assume: []string{"sizes are those constructed by the harness and those observed at the codec / compressor seams (exact, no slack)", "the pooled-buffer bound is checked for buffers <= 8 MiB (larger ones are not recycled by bufferPool.Put and are covered by the decompressor seam)"},
		Scenarios: []Scenario{
			{Name: "limit", Fn: c10Scenario(false), QuickBound: 0, ThoroughBound: -1},
			{Name: "limit-thorough", Fn: c10Scenario(true), QuickBound: -1, ThoroughBound: 0},
			{Name: "errors", Fn: c10Errors, QuickBound: 0, ThoroughBound: 0},
			{Name: "streams", Fn: c10Streams, QuickBound: 0, ThoroughBound: 0},
			{Name: "rest-download", Fn: c10RestDownload, QuickBound: 0, ThoroughBound: 0},
		},
	})
}
