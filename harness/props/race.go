package props

import (
	"context"
	"fmt"
	"io"
	"net/http"
	"runtime"
	"sync"

	"connectrpc.com/vanguard"
	"connectrpc.com/vanguard/internal/verifsync"

	"connectrpc.com/vanguard/verifharness/drive"
	"connectrpc.com/vanguard/verifharness/wire"
	"connectrpc.com/vanguard/verifharness/world"
)

// RacePass runs the bodies of C14's harnesses free-running: real goroutines, the real
// sync.Mutex (the shim's Mutex without hooks is the real one), no scheduler. It is an
// auxiliary pass for the race detector (build with -race): the cooperative scheduler's
// hand-offs are happens-before edges, so unsynchronised accesses between scheduling
// points are invisible to the model-checking runs. This pass samples schedules; it
// decides nothing by itself, it only reports data races the runtime detects.
func RacePass(iter int) (runs int, problems []string) {
	verifsync.SetHooks(nil)
	verifsync.SetRegistry(false)
	verifsync.SetPoison(false)
	var pmu sync.Mutex
	problem := func(format string, args ...any) {
		pmu.Lock()
		if len(problems) < 20 {
			problems = append(problems, fmt.Sprintf(format, args...))
		}
		pmu.Unlock()
	}
	// ---- harness A: complete RPCs sharing one Transcoder (pairs and triples)
	for _, w := range c14Worlds() {
		var backends sync.Map
		handler := http.HandlerFunc(func(rw http.ResponseWriter, rq *http.Request) {
			v, ok := backends.Load(rq.Header.Get("X-Rpc"))
			if !ok {
				problem("handler got a request without its X-Rpc id")
				return
			}
			e := v.(*raceEntry)
			e.be.ServeHTTP(rw, rq)
			if e.closeBody {
				_ = rq.Body.Close()
			}
		})
		tc, err := world.Build(w.cfg, handler)
		if err != nil {
			problem("setup: %v", err)
			continue
		}
		n := len(w.rpcs)
		var combos [][]int
		for a := 0; a < n; a++ {
			for b := a; b < n; b++ {
				combos = append(combos, []int{a, b})
				for c := b; c < n; c++ {
					combos = append(combos, []int{a, b, c})
				}
			}
		}
		seq := 0
		for _, idx := range combos {
			for it := 0; it < iter; it++ {
				var wg sync.WaitGroup
				start := make(chan struct{})
				for k, i := range idx {
					rpc := w.rpcs[i]
					seq++
					id := fmt.Sprintf("%s#%d", rpc.name, seq)
					backends.Store(id, &raceEntry{be: &world.Backend{Respond: rpc.respond, ReadSizes: rpc.readSizes}, closeBody: rpc.closeBody})
					spec := rpc.spec()
					spec.Header.Set("X-Rpc", id)
					req, err := spec.Build(context.Background())
					if err != nil {
						problem("setup: %v", err)
						continue
					}
					rec := drive.NewRecorder()
					wg.Add(1)
					go func(k int) {
						defer wg.Done()
						<-start
						for y := 0; y < (it+k)%3; y++ {
							runtime.Gosched()
						}
						if pi := drive.Serve(tc, rec, rec, req, spec.Body); pi != nil && world.IsVanguardPanic(pi) {
							problem("panic in %s: %s %s", rpc.name, pi.Value, stackTop(pi.Stack))
						}
						backends.Delete(id)
					}(k)
				}
				close(start)
				wg.Wait()
				runs++
			}
		}
	}
	// ---- harness B: one bidi stream whose handler reads and writes on two goroutines
	for _, k := range c14bConfigs() {
		if k.HdrLate {
			continue // the handler itself would race on its header map (net/http forbids that)
		}
		for it := 0; it < iter; it++ {
			raceStream(k, problem)
			runs++
		}
	}
	return runs, problems
}

type raceEntry struct {
	be        *world.Backend
	closeBody bool
}

func raceStream(k c14bConfig, problem func(string, ...any)) {
	cfg := world.Config{Protocols: []vanguard.Protocol{vanguard.ProtocolGRPC}, Codecs: []string{k.TargetCod}, MaxMsg: 4000}
	compName := ""
	if k.Comp {
		compName = "gzip"
		cfg.Compression = []string{"gzip"}
	} else {
		cfg.NoCompress = true
	}
	msgs := []string{`{"name":"req0","extraText":"aaaaaaaaaaaaaaaaaaaaaaaaaaaa"}`, `{"name":"req1","extraText":"bbbbbbbbbbbbbbbbbbbbbbbbbbbb"}`, `{"name":"req2"}`}
	cr := &wire.ClientReq{Form: k.Client, Path: world.SvcPath + "Bidi", Codec: k.ClientCod, Compression: compName, Accept: []string{"gzip"}}
	for _, m := range msgs {
		cr.Msgs = append(cr.Msgs, Enc(k.ClientCod, MkMsg(m)))
	}
	spec := world.SpecFromClient(cr)
	offs := frameOffsets(spec.Body.Data)
	o := offs[k.FaultAt]
	d := append([]byte(nil), spec.Body.Data...)
	switch k.Fault {
	case 1:
		d[o] = 0x44
	case 2:
		d[o+1], d[o+2] = 0x7f, 0xff
	case 3:
		spec.Body.FailAt, spec.Body.FailErr = o+7, io.ErrUnexpectedEOF
	case 4:
		d[o+5+12] ^= 0x5a
	}
	spec.Body.Data = d
	handler := http.HandlerFunc(func(w http.ResponseWriter, rq *http.Request) {
		w.Header().Set("Content-Type", "application/grpc+"+k.TargetCod)
		if k.Comp {
			w.Header().Set("Grpc-Encoding", "gzip")
		}
		var wg sync.WaitGroup
		wg.Add(2)
		go func() {
			defer wg.Done()
			buf := make([]byte, 64)
			for i := 0; i < 10000; i++ {
				if _, err := rq.Body.Read(buf); err != nil {
					return
				}
			}
		}()
		go func() {
			defer wg.Done()
			w.WriteHeader(200)
			for i := 0; i < 2; i++ {
				p := Enc(k.TargetCod, MkMsg(fmt.Sprintf(`{"name":"resp%d","extraText":"cccccccccccccccccccccccccccccccc"}`, i)))
				fl := byte(0)
				if k.Comp {
					p, fl = wire.GzipCompress(p), 1
				}
				frame := wire.AppendFrame(nil, fl, p)
				if k.Split {
					_, _ = w.Write(frame[:5])
					_, _ = w.Write(frame[5:])
				} else {
					_, _ = w.Write(frame)
				}
			}
		}()
		wg.Wait()
		w.Header().Set(http.TrailerPrefix+"Grpc-Status", "0")
	})
	tc, err := world.Build(cfg, handler)
	if err != nil {
		problem("setup: %v", err)
		return
	}
	req, err := spec.Build(context.Background())
	if err != nil {
		problem("setup: %v", err)
		return
	}
	rec := drive.NewRecorder()
	if pi := drive.Serve(tc, rec, rec, req, spec.Body); pi != nil && world.IsVanguardPanic(pi) {
		problem("panic in stream %s: %s %s", k.String(), pi.Value, stackTop(pi.Stack))
	}
}
