package props

import (
	"fmt"
	"net/http"
	"os"
	"strings"

	"connectrpc.com/vanguard"
	"google.golang.org/protobuf/proto"

	"connectrpc.com/vanguard/verifharness/drive"
	"connectrpc.com/vanguard/verifharness/wire"
	"connectrpc.com/vanguard/verifharness/world"
	"connectrpc.com/vanguard/verifharness/xplor"
)

// C03 — the client gets a valid response in its own protocol with exactly one outcome.

type c03Behaviour struct {
	name  string
	apply func(call *mxCall, shape string)
}

func rawStatus(status int, ct string, body []byte) func(b *world.Backend, r *http.Request) *world.Reply {
	return func(b *world.Backend, r *http.Request) *world.Reply {
		h := http.Header{}
		if ct != "" {
			h.Set("Content-Type", ct)
		}
		return &world.Reply{Out: &wire.ServerOut{Status: status, Header: h, Body: body}, ContentLength: -1, ReturnAfter: -1}
	}
}

func c03Behaviours() []c03Behaviour {
	errEnd := &wire.End{Code: 5, Message: "no such thing"}
	bs := []c03Behaviour{
		{"ok", func(*mxCall, string) {}},
		{"ok-zero-messages", func(c *mxCall, shape string) {
			if shape == "server" || shape == "bidi" {
				c.RespMsgs = nil
			}
		}},
		{"ok-three-messages", func(c *mxCall, shape string) {
			if shape == "server" || shape == "bidi" {
				c.RespMsgs = append(c.RespMsgs, c.RespMsgs[0])
			}
		}},
		{"ok-two-messages-where-one-is-due", func(c *mxCall, shape string) {
			// a backend that (wrongly) answers a method with a single response with two messages
			if shape == "unary" || shape == "client" {
				c.RespMsgs = append(c.RespMsgs, MkMsg(`{"name":"second","num":2}`))
			}
		}},
		{"resp-compressed-though-nothing-accepted", func(c *mxCall, _ string) {
			// the client advertises no response compression; the backend compresses anyway (in HTTP
			// "no Accept-Encoding" allows any coding, so a REST or Connect backend legitimately may)
			c.Accept = nil
			c.Mutate = func(sr *wire.ServerResp, rep *world.Reply) {
				if sr != nil {
					sr.Compression = "gzip"
				}
			}
		}},
		{"error-before-messages", func(c *mxCall, _ string) { c.RespMsgs, c.End = nil, errEnd }},
		{"error-trailers-only", func(c *mxCall, _ string) { c.RespMsgs, c.End, c.TrailersOnly = nil, errEnd, true }},
		{"error-after-messages", func(c *mxCall, shape string) {
			if shape == "server" || shape == "bidi" {
				c.End = errEnd
			} else {
				c.RespMsgs, c.End = nil, errEnd
			}
		}},
		{"error-flush-after-header", func(c *mxCall, _ string) {
			c.RespMsgs, c.End = nil, errEnd
			c.Mutate = func(sr *wire.ServerResp, rep *world.Reply) { rep.FlushAfterHeader = true }
		}},
		{"ok-flush-after-header", func(c *mxCall, _ string) {
			c.Mutate = func(sr *wire.ServerResp, rep *world.Reply) { rep.FlushAfterHeader = true }
		}},
		{"ok-trailers-only-status0", func(c *mxCall, _ string) { c.RespMsgs, c.TrailersOnly = nil, true }},
		{"resp-uncompressed-frame0", func(c *mxCall, _ string) {
			c.RespFlags = make([]bool, len(c.RespMsgs))
			for i := range c.RespFlags {
				c.RespFlags[i] = i != 0
			}
		}},
		{"resp-uncompressed-last", func(c *mxCall, _ string) {
			c.RespFlags = make([]bool, len(c.RespMsgs))
			for i := range c.RespFlags {
				c.RespFlags[i] = i != len(c.RespFlags)-1
			}
		}},
		{"resp-no-compression", func(c *mxCall, _ string) { c.RespComp = "" }},
		{"compressed-end-frame", func(c *mxCall, _ string) { c.CompressEnd = true }},
		{"error-with-compressed-end", func(c *mxCall, _ string) { c.CompressEnd, c.End, c.RespMsgs = true, errEnd, nil }},
		{"empty-response-message", func(c *mxCall, _ string) { c.RespMsgs[0] = MkMsg(`{}`) }},
		{"big-response-message", func(c *mxCall, _ string) { c.RespMsgs[0] = MkMsg(msgAlphabet[24]) }},
		{"response-headers+trailers", func(c *mxCall, _ string) {
			c.RespHeader = http.Header{"X-H": {"1"}}
			c.RespTrailer = http.Header{"X-T": {"2"}}
		}},
		{"declared-trailers", func(c *mxCall, _ string) { c.RespTrailer, c.DeclTrailers = http.Header{"X-T": {"2"}}, true }},
	}
	for _, cl := range []int{0} { // declared Content-Length: exact (mis-stated lengths are fault points of C09)
		cl := cl
		bs = append(bs, c03Behaviour{fmt.Sprintf("content-length-variant%d", cl), func(c *mxCall, _ string) {
			c.Mutate = func(sr *wire.ServerResp, rep *world.Reply) {
				if sr != nil {
					return
				}
				rep.HasCL = true
				switch cl {
				case 2:
					rep.ContentLength = 0
				default:
					rep.ContentLength = int64(len(rep.Out.Body) + cl)
				}
			}
		}})
	}
	for _, st := range []int{204, 302, 400, 401, 403, 404, 408, 429, 500, 502, 503, 504} {
		st := st
		bs = append(bs, c03Behaviour{fmt.Sprintf("bare-http-%d", st), func(c *mxCall, _ string) { c.RawReply = rawStatus(st, "text/plain", []byte("nope")) }})
	}
	// failure statuses without any body (what a proxy or a panicking server produces), and with a
	// body that is declared compressed and inflates to nothing
	for _, st := range []int{304, 401, 502, 503} {
		st := st
		bs = append(bs, c03Behaviour{fmt.Sprintf("bare-http-%d-no-body", st), func(c *mxCall, _ string) { c.RawReply = rawStatus(st, "", nil) }})
	}
	bs = append(bs, c03Behaviour{"bare-http-503-gzip-of-nothing", func(c *mxCall, _ string) {
		c.RawReply = func(b *world.Backend, r *http.Request) *world.Reply {
			rep := rawStatus(503, "application/json", wire.GzipCompress(nil))(b, r)
			rep.Out.Header.Set("Content-Encoding", "gzip")
			return rep
		}
	}})
	for _, ct := range []string{"", "text/html", "application/", "application/x-unknown", "application/json"} {
		ct := ct
		bs = append(bs, c03Behaviour{"wrong-content-type-" + ct, func(c *mxCall, _ string) {
			c.Mutate = func(sr *wire.ServerResp, rep *world.Reply) {
				if sr != nil {
					return
				}
				if ct == "" {
					rep.Out.Header.Del("Content-Type")
				} else {
					rep.Out.Header.Set("Content-Type", ct)
				}
			}
		}})
	}
	bs = append(bs,
		c03Behaviour{"missing-end", func(c *mxCall, _ string) {
			c.Mutate = func(sr *wire.ServerResp, rep *world.Reply) {
				if sr != nil {
					return
				}
				rep.Out.Trailer = nil
				if n := len(rep.Out.FrameEnds); n >= 1 && (strings.Contains(rep.Out.Header.Get("Content-Type"), "grpc-web") || strings.Contains(rep.Out.Header.Get("Content-Type"), "connect+")) {
					cut := 0
					if n >= 2 {
						cut = rep.Out.FrameEnds[n-2]
					}
					rep.Out.Body = rep.Out.Body[:cut]
				}
			}
		}},
		c03Behaviour{"end-twice", func(c *mxCall, _ string) {
			c.Mutate = func(sr *wire.ServerResp, rep *world.Reply) {
				if sr != nil {
					return
				}
				if n := len(rep.Out.FrameEnds); n >= 1 && (strings.Contains(rep.Out.Header.Get("Content-Type"), "grpc-web") || strings.Contains(rep.Out.Header.Get("Content-Type"), "connect+")) {
					start := 0
					if n >= 2 {
						start = rep.Out.FrameEnds[n-2]
					}
					rep.Out.Body = append(append([]byte(nil), rep.Out.Body...), rep.Out.Body[start:]...)
				}
			}
		}},
		c03Behaviour{"data-after-end", func(c *mxCall, _ string) {
			c.Mutate = func(sr *wire.ServerResp, rep *world.Reply) {
				if sr != nil {
					return
				}
				if n := len(rep.Out.FrameEnds); n >= 2 {
					rep.Out.Body = append(append([]byte(nil), rep.Out.Body...), rep.Out.Body[:rep.Out.FrameEnds[0]]...)
				}
			}
		}},
		c03Behaviour{"undecodable-response", func(c *mxCall, _ string) {
			c.Mutate = func(sr *wire.ServerResp, rep *world.Reply) {
				if sr != nil && len(sr.Msgs) > 0 {
					sr.Msgs[0] = []byte{0xff, 0xff, 0xff}
				}
			}
		}},
		c03Behaviour{"handler-writes-nothing", func(c *mxCall, _ string) {
			c.RawReply = func(*world.Backend, *http.Request) *world.Reply { return nil }
		}},
		c03Behaviour{"response-over-limit", func(c *mxCall, _ string) { c.RespMsgs[0] = MkMsg(`{"extraText":"` + strings.Repeat("z", 3000) + `"}`) }},
		c03Behaviour{"response-over-limit-uncompressed", func(c *mxCall, _ string) {
			c.RespMsgs[0], c.RespComp = MkMsg(`{"extraText":"`+strings.Repeat("z", 3000)+`"}`), ""
		}},
	)
	return bs
}

type c03ReqDefect struct {
	name  string
	apply func(call *mxCall, s *drive.ReqSpec)
}

var c03ReqDefects = []c03ReqDefect{
	{"none", nil},
	{"malformed-timeout", func(_ *mxCall, s *drive.ReqSpec) {
		s.Header.Set("Grpc-Timeout", "abc")
		s.Header.Set("Connect-Timeout-Ms", "abc")
		s.Header.Set("X-Server-Timeout", "abc")
	}},
	{"unsupported-compression", func(_ *mxCall, s *drive.ReqSpec) {
		for _, k := range []string{"Grpc-Encoding", "Connect-Content-Encoding", "Content-Encoding"} {
			s.Header.Set(k, "zstd")
		}
	}},
	{"undecodable-first-message", func(_ *mxCall, s *drive.ReqSpec) {
		if s.Body != nil && len(s.Body.Data) > 0 {
			d := append([]byte(nil), s.Body.Data...)
			d[len(d)-1] = 0xff
			d[len(d)/2] ^= 0x55
			s.Body.Data = d
		}
	}},
	{"request-over-limit", func(c *mxCall, _ *drive.ReqSpec) {}},
	{"invalid-flags", func(_ *mxCall, s *drive.ReqSpec) {
		if s.Body != nil && len(s.Body.Data) >= 5 {
			d := append([]byte(nil), s.Body.Data...)
			d[0] = 0x44
			s.Body.Data = d
		}
	}},
	{"truncated", func(_ *mxCall, s *drive.ReqSpec) {
		if s.Body != nil && len(s.Body.Data) > 3 {
			s.Body.Data = s.Body.Data[:len(s.Body.Data)-2]
			s.Body.FailAt, s.Body.FailErr = len(s.Body.Data), fmt.Errorf("unexpected EOF")
		}
	}},
	{"wrong-http-method", func(_ *mxCall, s *drive.ReqSpec) { s.Method = "DELETE" }},
	{"unknown-method", func(_ *mxCall, s *drive.ReqSpec) {
		s.Target = strings.Replace(s.Target, "/verif.v1.Svc/", "/verif.v1.Svc/No", 1)
	}},
	{"unknown-codec", func(_ *mxCall, s *drive.ReqSpec) {
		if ct := s.Header.Get("Content-Type"); ct != "" {
			i := strings.LastIndexAny(ct, "+/")
			s.Header.Set("Content-Type", ct[:i+1]+"nope")
		}
	}},
}

func init() {
	behaviours := c03Behaviours()
	scn := func(c *xplor.Ctx) {
		b := &mxBase{}
		b.Client = mxClients[c.Free("client", len(mxClients))]
		tp := allProtoOrder[c.Free("target-protocol", 4)]
		b.TgtProtos = []vanguard.Protocol{tp}
		if tp == vanguard.ProtocolREST && noRESTBinding(b.Client.method) {
			c.Skip()
			return
		}
		b.ClientCodec = "proto"
		if b.Client.form == wire.REST {
			b.ClientCodec = "json"
		}
		switch c.Free("codec-relation", 3) {
		case 0:
			b.TgtCodecs = []string{b.ClientCodec}
		case 1:
			b.TgtCodecs = []string{map[string]string{"proto": "json", "json": "proto"}[b.ClientCodec]}
		case 2:
			if b.Client.form == wire.REST {
				c.Skip()
				return
			}
			b.ClientCodec, b.TgtCodecs = "json", []string{"json", "proto"}
		}
		switch c.Free("compression", 3) {
		case 0:
		case 1:
			b.ClientComp, b.TgtComp = "gzip", []string{"gzip"}
		case 2:
			b.ClientComp, b.TgtComp = "gzip", nil
		}
		b.key = fmt.Sprintf("%s|%s|%s|tp=%s|tc=%s|tz=%s", b.Client.name, b.ClientCodec, b.ClientComp, tp, strings.Join(b.TgtCodecs, "+"), strings.Join(b.TgtComp, "+"))
		c.Attr("client", b.Client.name)
		c.Attr("target", tp.String())
		c.Attr("codecs", b.ClientCodec+">"+strings.Join(b.TgtCodecs, "+"))
		c.Attr("comp", b.ClientComp+">"+strings.Join(b.TgtComp, "+"))
		req, resp := defaultMsgs(b.Client.shape)
		if b.Client.form == wire.REST && b.Client.method == "Idem" {
			req = []proto.Message{MkMsg(restIdemAlphabet[0])}
		}
		call := &mxCall{Base: b, ReqMsgs: req, RespMsgs: resp, Accept: []string{"gzip"}, RespComp: "auto", Lenient: false}
		bi := c.Choose("behaviour", len(behaviours))
		behaviours[bi].apply(call, b.Client.shape)
		c.Attr("behaviour", behaviours[bi].name)
		di := c.Choose("request-defect", len(c03ReqDefects))
		c.Attr("request-defect", c03ReqDefects[di].name)
		limit := uint32(0)
		if strings.HasPrefix(behaviours[bi].name, "response-over-limit") || c03ReqDefects[di].name == "request-over-limit" {
			limit = 2000
		}
		if c03ReqDefects[di].name == "request-over-limit" {
			call.ReqMsgs = []proto.Message{MkMsg(`{"name":"a","extraText":"` + strings.Repeat("q", 3000) + `"}`)}
			if b.Client.form == wire.REST && b.Client.method != "Unary" {
				c.Skip()
				return
			}
		}
		if di > 0 && c03ReqDefects[di].apply != nil {
			d := c03ReqDefects[di]
			call.SpecMut = func(s *drive.ReqSpec) { d.apply(call, s) }
		}
		if limit != 0 {
			prev := call.SpecMut
			_ = prev
		}
		obs := runWithLimit(call, limit)
		if obs.Err != nil {
			c.Fail("harness.setup", "%v", obs.Err)
			return
		}
		if obs.Ex.Panic != nil {
			c.Attr("panic", firstLine(obs.Ex.Panic.Value))
			c.Fail("C03.panic", "ServeHTTP panicked: %s\n%s\n%s", obs.Ex.Panic.Value, stackTop(obs.Ex.Panic.Stack), b.key)
			return
		}
		if obs.Backend.Direct {
			c.Outcome("pass-through")
			c.Note("pass-through")
			return // response comes straight from the backend (C13)
		}
		cr := obs.CResp
		rec := obs.Ex.Rec
		if c.Replay && os.Getenv("VERIF_DEBUG") != "" {
			fmt.Fprintf(os.Stderr, "DBG client: %s\n raw=%x\n", short(semClient(b.Client.form, obs.Ex, world.MsgDesc())), truncBytes(rec.BodyBytes.Bytes(), 200))
		}
		desc := func() string {
			return fmt.Sprintf("%s behaviour=%s request-defect=%s\n backend: %s\n client: %s\n raw body: %x", b.key, behaviours[bi].name, c03ReqDefects[di].name, short(semBackend(obs.Backend, world.MsgDesc())), short(semClient(b.Client.form, obs.Ex, world.MsgDesc())), truncBytes(rec.BodyBytes.Bytes(), 120))
		}
		for _, cm := range cr.Complaints {
			c.Fail("C03."+cm.Clause, "%s\n%s", cm.Detail, desc())
		}
		if call.Accept == nil && b.Client.form != wire.REST && cr.Compression != "" && cr.Compression != "identity" {
			// (a REST client without Accept-Encoding accepts any coding; the RPC protocols only what was advertised)
			c.Fail("C03.resp.compression-not-advertised", "the response declares compression %q; the client advertised none\n%s", cr.Compression, desc())
		}
		backendSentEmptyCompressed := func() bool {
			if obs.SrvResp == nil {
				return false
			}
			out := obs.SrvResp.Encode()
			if obs.SrvResp.Form.Enveloped() {
				return wire.CountFlaggedEmpty(out.Body) > 0
			}
			ce := out.Header.Get("Content-Encoding")
			return len(out.Body) == 0 && ce != "" && ce != "identity" // an empty body declared compressed: relayed as it came
		}
		if cr.FlaggedEmpty > 0 && !backendSentEmptyCompressed() {
			// the backend sent no such frame: the transcoder declared a message compressed and sent zero bytes for it
			c.Fail("C03.resp.envelope.empty-flagged-compressed", "%d message frame(s) carry the compressed flag over zero bytes, which is not a valid compressed stream (real clients fail to decompress it)\n%s", cr.FlaggedEmpty, desc())
		}
		if rec.ExcessWrite {
			c.Fail("C03.body-exceeds-content-length", "response body exceeds its declared Content-Length %d\n%s", rec.DeclaredCL, desc())
		}
		if rec.Superfluous > 0 {
			c.Fail("C03.second-head", "%d superfluous WriteHeader calls\n%s", rec.Superfluous, desc())
		}
		if !cr.BareHTTP && cr.EndSeen != 1 {
			c.Fail("C03.not-exactly-one-disposition", "%d terminal dispositions\n%s", cr.EndSeen, desc())
		}
		if cr.BareHTTP {
			// a plain HTTP error is a valid disposition only for rejections made before the
			// protocol is known or when the transcoder refuses the request outright
			if obs.Backend.Calls > 0 {
				c.Fail("C03.bare-http-after-dispatch", "the backend was invoked, yet the client got a bare HTTP %d instead of an RPC outcome in its protocol\n%s", cr.Status, desc())
			}
			c.Outcome(fmt.Sprintf("http-%d", cr.Status))
		} else if cr.OK() {
			c.Outcome("ok")
		} else {
			c.Outcome("error-" + wire.CodeName(cr.End.Code))
		}
		c.Nontrivial(fmt.Sprintf("%s|%s|%s|%s|%v|%d", b.Client.name, tp, behaviours[bi].name, c03ReqDefects[di].name, cr.OK(), cr.End.Code))
		c.Note("judged")
	}
	Register(&Check{
		ID:    "C03",
		Level: "exploration",
		Rule: "16 client form/method cells x 4 target protocols x 3 codec relations x 3 compression relations (fully crossed) x every combination of one of ~45 backend behaviours (success with 0..3 messages, error before/after messages, trailers-only, " +
			"12 bare HTTP statuses, wrong/missing content-types, per-frame flags, compressed end frames, 4 Content-Length variants, missing/duplicated end, data after end, undecodable response, early return, silent handler, oversized response) " +
			"with one of 10 request defects that make the transcoder itself produce the error (malformed timeout, unsupported compression/codec, undecodable / oversized / truncated / mis-flagged first message, wrong HTTP method, unknown method). " +
			"Oracle: the independent strict decoder for the client's protocol must accept the response and find exactly one disposition. Non-trivial = distinct (client, target, behaviour, defect, outcome).",
		Assume:       []string{"an identical grpc-status repeated in headers and trailers (net/http repeats announced trailer keys) counts as one disposition", "bare HTTP error responses are valid dispositions for rejections before dispatch"},
		Aux:          conformanceAux,
		Scenarios:    []Scenario{{Name: "behaviours", Fn: scn, QuickBound: 2, ThoroughBound: 2}},
		RequireNotes: []string{"judged", "pass-through"},
		MinOutcomes:  8,
	})
}

func truncBytes(b []byte, n int) []byte {
	if len(b) > n {
		return b[:n]
	}
	return b
}

// runWithLimit runs the call with a per-service message limit (0 = matrix default).
func runWithLimit(call *mxCall, limit uint32) *mxObs {
	if limit == 0 {
		return call.run()
	}
	call.MaxMsg = limit
	return call.run()
}
