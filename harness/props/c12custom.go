package props

import (
	"encoding/json"
	"fmt"
	"os"
	"os/exec"
	"path/filepath"
	"strconv"
	"strings"

	"connectrpc.com/vanguard/verifharness/xplor"
)

// Parent side of C12's function-level sweep (the sweep itself lives in c12sweep.go, which is
// compiled only into the second binary built with -tags verifsweep; see bin/check).

// c12SweepMain is set by c12sweep.go.
var c12SweepMain func(args []string) int

// C12SweepMain is the entry point of `vcheck -c12-sweep <mode>`.
func C12SweepMain(args []string) int {
	if c12SweepMain == nil {
		fmt.Fprintln(os.Stderr, "this binary was built without -tags verifsweep")
		return 4
	}
	return c12SweepMain(args)
}

type c12FnAnswer struct {
	Client  string `json:"client"`
	Target  string `json:"target"`
	Value   string `json:"value"`
	Out     string `json:"out"`
	Present bool   `json:"present"`
	Err     string `json:"err,omitempty"`
	Clause  string `json:"clause"`
	Class   string `json:"class"`
	Detail  string `json:"detail"`
}

type c12SweepOut struct {
	Evaluations   int64            `json:"evaluations"`
	PerClient     map[string]int64 `json:"per_client_values"`
	Nontrivial    int64            `json:"nontrivial"`
	ExactJudged   int64            `json:"judged_by_exact_oracle"`
	CrossChecked  int64            `json:"fast_and_exact_oracle_compared"`
	Disagreements []string         `json:"oracle_disagreements"`
	Violations    []c12FnAnswer    `json:"violations"`
	NViolations   int64            `json:"n_violations"`
	Domains       []string         `json:"domains"`
	Answers       []c12FnAnswer    `json:"answers"`
}

// c12Samples is a fixed list of (client, value) pairs spread over the sweep's domain: each is run
// end to end through ServeHTTP (binding the function-level sweep to the real request path) and
// compared with what the function-level path produced for the same value.
func c12Samples() [][2]string {
	var out [][2]string
	units := "HMSmun"
	for k := 0; k < 48; k++ {
		n := (int64(k)*2083331 + int64(k)*int64(k)*7) % 100_000_000
		out = append(out, [2]string{"grpc", strconv.FormatInt(n, 10) + string(units[k%6])})
		out = append(out, [2]string{"grpc-web", strconv.FormatInt((n*3+1)%100_000_000, 10) + string(units[(k+1)%6])})
		out = append(out, [2]string{"connect-unary", strconv.FormatInt(n, 10)})
		out = append(out, [2]string{"connect-stream", strconv.FormatInt((n*7+5)%10_000_000_000, 10)})
		out = append(out, [2]string{"rest", fmt.Sprintf("%d.%0*d", k%100, 1+k%5, (k*7919)%pow10(1+k%5))})
		out = append(out, [2]string{"rest", fmt.Sprintf("%d.%09d", []int{0, 1, 7, 59, 3600}[k%5], (k*15485863)%1_000_000)})
	}
	return out
}

func pow10(n int) int {
	p := 1
	for i := 0; i < n; i++ {
		p *= 10
	}
	return p
}

// fn-level answers for the samples, filled by c12Custom before the sample scenario runs
var c12FnAnswers map[string]c12FnAnswer

func c12SampleScenario(c *xplor.Ctx) {
	samples := c12Samples()
	smp := samples[c.Free("sample", len(samples))]
	tg := c12Targets[c.Free("target", len(c12Targets))]
	var cl c12Client
	for _, x := range c12Clients {
		if x.name == smp[0] {
			cl = x
		}
	}
	c.Attr("client", cl.name)
	c.Attr("target", tg.name)
	got, present, dispatched := c12CheckOne(c, cl, tg, smp[1], true)
	if !dispatched || c12FnAnswers == nil {
		return
	}
	fnTarget := tg.name
	if fnTarget == "connect" {
		fnTarget = "connect-unary"
		if cl.name == "connect-stream" {
			fnTarget = "connect-stream"
		}
	}
	a, ok := c12FnAnswers[cl.name+"|"+fnTarget+"|"+smp[1]]
	if !ok {
		return
	}
	c.Note("fn-level-answer-compared-with-serve-http")
	if a.Out != got || a.Present != present {
		// not a verdict about vanguard (both results are judged on their own): it says the
		// function-level path is not what ServeHTTP does for this pair
		c.Note("fn-level-answer-differs-from-serve-http")
		c.Attr("~fn-level", fmt.Sprintf("%q present=%v", a.Out, a.Present))
	}
}

func c12Custom(rc *RunCtx, rep *Report) {
	bin := os.Getenv("VERIF_SWEEP_BIN")
	if bin == "" {
		rep.Extra["function_level_sweep"] = "not run (no sweep binary: the access file did not compile against this tree, or vcheck was started without bin/check)"
		runScenario(registry["C12"], rc, rep, Scenario{Name: "sweep-samples-end-to-end", Fn: c12SampleScenario}, 0)
		return
	}
	mode := "smoke"
	if rc.Tier == "thorough" {
		mode = "full"
	}
	run := func(arg string) (*c12SweepOut, error) {
		cmd := exec.Command(bin, "-c12-sweep", arg)
		cmd.Stderr = os.Stderr
		out, err := cmd.Output()
		if err != nil {
			return nil, fmt.Errorf("%v: %s", err, short(string(out)))
		}
		var r c12SweepOut
		if err := json.Unmarshal(out, &r); err != nil {
			return nil, fmt.Errorf("unparsable sweep output: %v: %s", err, short(string(out)))
		}
		return &r, nil
	}
	// 1. the samples, function level
	vf := filepath.Join(VerifDir, ".build", fmt.Sprintf("c12-values.%d.json", os.Getpid()))
	b, _ := json.Marshal(c12Samples())
	_ = os.WriteFile(vf, b, 0o644)
	defer os.Remove(vf)
	ans, err := run("values:" + vf)
	if err != nil {
		rep.Broken = append(rep.Broken, "function-level sweep (samples): "+err.Error())
		return
	}
	c12FnAnswers = map[string]c12FnAnswer{}
	for _, a := range ans.Answers {
		c12FnAnswers[a.Client+"|"+a.Target+"|"+a.Value] = a
	}
	// 2. the same samples end to end
	runScenario(registry["C12"], rc, rep, Scenario{Name: "sweep-samples-end-to-end", Fn: c12SampleScenario}, 0)
	rep.TracesImpl += rep.Notes["fn-level-answer-compared-with-serve-http"]
	// 3. the sweep
	sw, err := run(mode)
	if err != nil {
		rep.Broken = append(rep.Broken, "function-level sweep: "+err.Error())
		return
	}
	rep.Executions += sw.Evaluations
	for _, d := range sw.Disagreements {
		rep.Broken = append(rep.Broken, "function-level sweep: "+d)
	}
	for _, v := range append(sw.Violations, ans.Violations...) {
		rep.Violations = append(rep.Violations, Found{Scenario: "fn-sweep", V: xplorViolation(v.Clause,
			fmt.Sprintf("function level (extractProtocolRequestHeaders of %s, addProtocolRequestHeaders of %s): value %q -> %q (present=%v) %s: %s", v.Client, v.Target, v.Value, v.Out, v.Present, v.Err, v.Detail),
			map[string]string{"client": v.Client, "target": v.Target, "class": v.Class, "~value": v.Value, "level": "function"}, nil,
			[]string{"client=" + v.Client, "value=" + v.Value})})
	}
	rep.Extra["function_level_sweep"] = map[string]any{
		"mode": mode, "conversions": sw.Evaluations, "values_per_client": sw.PerClient, "domains": sw.Domains,
		"conversions_where_the_value_changed": sw.Nontrivial, "judged_by_exact_rational_oracle": sw.ExactJudged,
		"fast_and_exact_oracle_compared_on": sw.CrossChecked, "violations": sw.NViolations,
		"samples_compared_with_serve_http":  rep.Notes["fn-level-answer-compared-with-serve-http"],
		"samples_differing_from_serve_http": rep.Notes["fn-level-answer-differs-from-serve-http"],
	}
	rep.Bounds["fn-sweep-grpc-digits"] = map[string]int{"smoke": 6, "full": 8}[mode]
}

func init() {
	replayCustom["C12/fn-sweep"] = func(rf *ReplayFile, path string) int {
		bin := os.Getenv("VERIF_SWEEP_BIN")
		if bin == "" {
			fmt.Println("replay: the function-level sweep binary is not available (use bin/check --replay)")
			return 2
		}
		var client, value string
		for _, l := range rf.Labels {
			if strings.HasPrefix(l, "client=") {
				client = l[7:]
			}
			if strings.HasPrefix(l, "value=") {
				value = l[6:]
			}
		}
		vf := filepath.Join(VerifDir, ".build", fmt.Sprintf("c12-replay.%d.json", os.Getpid()))
		b, _ := json.Marshal([][2]string{{client, value}})
		_ = os.WriteFile(vf, b, 0o644)
		defer os.Remove(vf)
		var first string
		for i := 0; i < 2; i++ { // twice: both runs must observe the same
			out, err := exec.Command(bin, "-c12-sweep", "values:"+vf).Output()
			if err != nil {
				fmt.Println("replay:", err)
				return 2
			}
			if i == 0 {
				first = string(out)
			} else if first != string(out) {
				fmt.Println("replay: two runs of the same value differ (nondeterminism)")
				return 2
			}
		}
		var r c12SweepOut
		if err := json.Unmarshal([]byte(first), &r); err != nil {
			fmt.Println("replay:", err)
			return 2
		}
		for _, a := range r.Answers {
			fmt.Printf("replay C12/fn-sweep %s %q -> %s: %q present=%v %s\n", a.Client, a.Value, a.Target, a.Out, a.Present, a.Err)
		}
		if len(r.Violations) == 0 {
			fmt.Println("replay: no violation (property holds on this execution)")
			return 0
		}
		for _, v := range r.Violations {
			fmt.Printf("VIOLATION property=C12 replay=%s\n  clause=%s\n  %s -> %s: %s\n", path, v.Clause, v.Client, v.Target, v.Detail)
		}
		return 1
	}
}
