package props

import (
	"strings"
	"sync"

	"connectrpc.com/vanguard/internal/verifsync"

	"connectrpc.com/vanguard/verifharness/sched"
)

// schedMu serialises scheduler worlds: the verifsync hooks are process-global.
var schedMu sync.Mutex

type schedHooks struct {
	r *sched.Run
	// noPoolPoints: pool operations are not scheduling points (harnesses in which no other
	// thread shares the pools: they commute with everything the other threads do)
	noPoolPoints bool
}

func (h schedHooks) Point(kind string, obj any) {
	if h.noPoolPoints && strings.HasPrefix(kind, "pool.") {
		return
	}
	h.r.Point(kind, obj)
}
func (h schedHooks) Block(kind string, obj any, ready func() bool) { h.r.Block(kind, obj, ready) }
func (h schedHooks) Choose(kind string, n int) int                 { return h.r.Choose(kind, n) }

// runScheduled executes one controlled-scheduler world: setup registers the threads.
func runScheduled(prefix []int, horizon int, noPoolPoints bool, setup func(r *sched.Run, h schedHooks)) *sched.Run {
	schedMu.Lock()
	defer schedMu.Unlock()
	r := sched.NewRun(prefix, horizon)
	h := schedHooks{r: r, noPoolPoints: noPoolPoints}
	verifsync.SetHooks(h)
	defer verifsync.SetHooks(nil)
	setup(r, h)
	r.Start()
	return r
}
