package props

import (
	"context"
	"fmt"
	"net/http"
	"net/url"
	"strings"
	"sync"

	"connectrpc.com/vanguard"
	"google.golang.org/genproto/googleapis/api/annotations"
	"google.golang.org/protobuf/proto"
	"google.golang.org/protobuf/reflect/protodesc"
	"google.golang.org/protobuf/reflect/protoreflect"
	"google.golang.org/protobuf/reflect/protoregistry"
	"google.golang.org/protobuf/types/descriptorpb"
	"google.golang.org/protobuf/types/dynamicpb"

	testv1 "connectrpc.com/vanguard/internal/gen/vanguard/test/v1"

	"connectrpc.com/vanguard/verifharness/drive"
	"connectrpc.com/vanguard/verifharness/wire"
	"connectrpc.com/vanguard/verifharness/world"
	"connectrpc.com/vanguard/verifharness/xplor"
)

// C20 "param-kinds": the REST parameter binder sets fields through protoreflect; generated
// messages and dynamicpb messages accept different Go representations of the same value, so
// every field kind x value corner is bound once into the generated type (WithTypeResolver(protoregistry.GlobalTypes)) and once into dynamic types
// (the service's default resolver, WithTypeResolver(dynamicpb.NewTypes(...)), a resolver that knows nothing). The schema is the
// same descriptor in all three.

var (
	c20pOnce   sync.Once
	c20pSvc    protoreflect.ServiceDescriptor
	c20pErr    error
	c20pFields []string
)

var c20pValues = []string{"0", "1", "-1", "1.5", "NaN", "Infinity", "-Infinity", "1e2", "true", "abc", "", "ENUM_VALUE", "2", "4294967296",
	"9223372036854775808", "-2147483649", "3.5s", "2020-01-02T03:04:05Z", "a,b.c", "YWJj", `"x"`, "3.4028236e38", "1e-46", "-0"}

func c20pInit() {
	c20pOnce.Do(func() {
		_ = (&testv1.ParameterValues{}).ProtoReflect() // links the generated file in
		opts := &descriptorpb.MethodOptions{}
		proto.SetExtension(opts, annotations.E_Http, &annotations.HttpRule{
			Pattern: &annotations.HttpRule_Get{Get: "/v1/c20params/{string_value}"},
			AdditionalBindings: []*annotations.HttpRule{
				{Pattern: &annotations.HttpRule_Post{Post: "/v1/c20params/{string_value}"}, Body: "nested"},
			},
		})
		fdp := &descriptorpb.FileDescriptorProto{
			Name: proto.String("verif/c20/params.proto"), Package: proto.String("verif.c20"), Syntax: proto.String("proto3"),
			Dependency: []string{"vanguard/test/v1/test.proto", "google/api/annotations.proto"},
			Service: []*descriptorpb.ServiceDescriptorProto{{Name: proto.String("ParamService"), Method: []*descriptorpb.MethodDescriptorProto{{
				Name: proto.String("Echo"), InputType: proto.String(".vanguard.test.v1.ParameterValues"), OutputType: proto.String(".vanguard.test.v1.ParameterValues"), Options: opts}}}},
		}
		fd, err := protodesc.NewFile(fdp, protoregistry.GlobalFiles)
		if err != nil {
			c20pErr = err
			return
		}
		c20pSvc = fd.Services().ByName("ParamService")
		// every field path of depth <= 2 (messages that are not well-known types are descended into once)
		var walk func(md protoreflect.MessageDescriptor, prefix string, depth int)
		walk = func(md protoreflect.MessageDescriptor, prefix string, depth int) {
			for i := 0; i < md.Fields().Len(); i++ {
				f := md.Fields().Get(i)
				name := prefix + string(f.Name())
				c20pFields = append(c20pFields, name)
				if f.Message() != nil && !f.IsMap() && !strings.HasPrefix(string(f.Message().FullName()), "google.protobuf.") && depth < 1 {
					walk(f.Message(), name+".", depth+1)
				}
			}
		}
		walk(c20pSvc.Methods().Get(0).Input(), "", 0)
	})
}

func c20Params(c *xplor.Ctx) {
	c20pInit()
	if c20pErr != nil {
		c.Fail("harness.setup", "building the parameter service: %v", c20pErr)
		return
	}
	field := c20pFields[c.Free("field", len(c20pFields))]
	value := c20pValues[c.Free("value", len(c20pValues))]
	tgt := c.Free("target", 3)
	verb := c.Free("verb", 2)
	tp := allProtoOrder[tgt]
	codec := []string{"proto", "json", "json"}[tgt]
	method, body := "GET", ""
	if verb == 1 {
		method, body = "POST", `{"doubleValue":2.5}`
	}
	target := "/v1/c20params/p?" + url.Values{field: {value}}.Encode()
	c.Attr("request", "params:"+method+" "+field+"="+value)
	c.Attr("target", tp.String())
	in := c20pSvc.Methods().Get(0).Input()
	run := func(opts ...vanguard.ServiceOption) string {
		backendView := ""
		handler := http.HandlerFunc(func(w http.ResponseWriter, r *http.Request) {
			seen := drive.Capture(r)
			seen.ReadBody(r.Body, nil)
			pr := wire.ParseBackendRequest(r.Method, r.URL, seen.Header, seen.ContentLength, seen.Body)
			var reply [][]byte
			if tp == vanguard.ProtocolREST {
				backendView += r.Method + " " + r.URL.RequestURI() + " " + string(seen.Body)
				reply = [][]byte{[]byte(`{"floatValue":"NaN","doubleValue":1.5,"floatValueWrapper":"-Infinity"}`)}
			} else {
				for _, m := range pr.Msgs {
					backendView += canonMsg(pr.Codec, in, m) + ";"
				}
				reply = pr.Msgs
				if len(reply) == 0 {
					reply = [][]byte{Enc(pr.Codec, dynamicpb.NewMessage(in))}
				}
			}
			sr := &wire.ServerResp{Form: world.ServerFormFor(pr.Form), Codec: pr.Codec, Msgs: reply[:1]}
			out := sr.Encode()
			for k, v := range out.Header {
				w.Header()[k] = v
			}
			w.WriteHeader(out.Status)
			_, _ = w.Write(out.Body)
			for k, v := range out.Trailer {
				w.Header()[http.TrailerPrefix+k] = v
			}
		})
		all := append([]vanguard.ServiceOption{vanguard.WithTargetProtocols(tp), vanguard.WithTargetCodecs(codec)}, opts...)
		tc, err := vanguard.NewTranscoder([]*vanguard.Service{vanguard.NewServiceWithSchema(c20pSvc, handler, all...)})
		if err != nil {
			return "NewTranscoder error: " + err.Error()
		}
		spec := &drive.ReqSpec{Method: method, Target: target, Header: http.Header{}, ContentLength: -1}
		if body != "" {
			spec.Body = drive.NewBody([]byte(body))
			spec.Header.Set("Content-Type", "application/json")
		} else {
			spec.NoBody = true
		}
		req, err := spec.Build(context.Background())
		if err != nil {
			return "build error: " + err.Error()
		}
		rec := drive.NewRecorder()
		pi := drive.Serve(tc, rec, rec, req, spec.Body)
		pr := wire.ParseClientResponse(wire.REST, rec.Status, rec.HeadHeaders(), rec.BodyBytes.Bytes(), rec.Trailers)
		view := fmt.Sprintf("status=%d end=%d|", rec.Status, pr.End.Code)
		for _, m := range pr.Msgs {
			view += canonJSON(m) + ";"
		}
		view += " || backend: " + backendView
		if pi != nil {
			view += " || PANIC " + pi.Value
		}
		return view
	}
	base := run(vanguard.WithTypeResolver(protoregistry.GlobalTypes))
	c.AddEvaluations(1)
	c.Nontrivial("params|" + field + "|" + value + "|" + tp.String() + "|" + method)
	for _, v := range []struct {
		name string
		opt  vanguard.ServiceOption
	}{
		{"the service's default resolver (dynamic types built from the supplied file)", nil},
		{"dynamic types for every message (dynamicpb.NewTypes over the same files)", vanguard.WithTypeResolver(dynamicpb.NewTypes(protoregistry.GlobalFiles))},
		{"resolver that knows nothing", vanguard.WithTypeResolver(emptyResolver{})},
	} {
		var got string
		if v.opt == nil {
			got = run()
		} else {
			got = run(v.opt)
		}
		if got != base {
			c.Attr("variant", v.name)
			c.Fail("C20.variant-behaves-differently", "%s %s toward %s/%s\n generated types: %s\n %s: %s", method, target, tp, codec, short(base), v.name, short(got))
			break
		}
	}
	c.Outcome("params:" + strings.SplitN(base, " ", 2)[0])
}
