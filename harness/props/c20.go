package props

import (
	"context"
	"fmt"
	"net/http"
	"os"
	"sort"
	"strings"
	"sync"

	"connectrpc.com/vanguard"
	"connectrpc.com/vanguard/vanguardgrpc"
	"google.golang.org/genproto/googleapis/api/httpbody"
	"google.golang.org/grpc"
	"google.golang.org/protobuf/encoding/protojson"
	"google.golang.org/protobuf/proto"
	"google.golang.org/protobuf/reflect/protodesc"
	"google.golang.org/protobuf/reflect/protoreflect"
	"google.golang.org/protobuf/reflect/protoregistry"
	"google.golang.org/protobuf/types/descriptorpb"
	"google.golang.org/protobuf/types/dynamicpb"
	"google.golang.org/protobuf/types/known/emptypb"

	testv1 "connectrpc.com/vanguard/internal/gen/vanguard/test/v1"

	"connectrpc.com/vanguard/verifharness/drive"
	"connectrpc.com/vanguard/verifharness/wire"
	"connectrpc.com/vanguard/verifharness/world"
	"connectrpc.com/vanguard/verifharness/xplor"
)

// C20 — behaviour depends on the schema's content, not on how it was loaded.

const libSvc = "vanguard.test.v1.LibraryService"

type noParentSvc struct{ protoreflect.ServiceDescriptor }

func (noParentSvc) ParentFile() protoreflect.FileDescriptor { return nil }

type emptyResolver struct{}

func (emptyResolver) FindMessageByName(protoreflect.FullName) (protoreflect.MessageType, error) {
	return nil, protoregistry.NotFound
}
func (emptyResolver) FindMessageByURL(string) (protoreflect.MessageType, error) {
	return nil, protoregistry.NotFound
}
func (emptyResolver) FindExtensionByName(protoreflect.FullName) (protoreflect.ExtensionType, error) {
	return nil, protoregistry.NotFound
}
func (emptyResolver) FindExtensionByNumber(protoreflect.FullName, protoreflect.FieldNumber) (protoreflect.ExtensionType, error) {
	return nil, protoregistry.NotFound
}

// requestOnlyResolver knows request types only (response types fall back to dynamic).
type requestOnlyResolver struct{}

func (requestOnlyResolver) FindMessageByName(n protoreflect.FullName) (protoreflect.MessageType, error) {
	if strings.HasSuffix(string(n), "Request") {
		return protoregistry.GlobalTypes.FindMessageByName(n)
	}
	return nil, protoregistry.NotFound
}
func (requestOnlyResolver) FindMessageByURL(string) (protoreflect.MessageType, error) {
	return nil, protoregistry.NotFound
}
func (requestOnlyResolver) FindExtensionByName(protoreflect.FullName) (protoreflect.ExtensionType, error) {
	return nil, protoregistry.NotFound
}
func (requestOnlyResolver) FindExtensionByNumber(protoreflect.FullName, protoreflect.FieldNumber) (protoreflect.ExtensionType, error) {
	return nil, protoregistry.NotFound
}

type c20Variant struct {
	name string
	make func(h http.Handler, opts ...vanguard.ServiceOption) (*vanguard.Service, error)
}

const contentSvc = "vanguard.test.v1.ContentService"

var (
	c20Once       sync.Once
	c20InitErr    error
	c20Variants   []c20Variant // LibraryService
	c20VariantsBy = map[string][]c20Variant{}
)

func c20Init() {
	c20Once.Do(func() {
		c20InitOne(libSvc, "vanguard/test/v1/library.proto")
		c20Variants = c20VariantsBy[libSvc]
		if c20InitErr == nil {
			c20InitOne(contentSvc, "vanguard/test/v1/content.proto")
		}
	})
}

func c20InitOne(svcName, filePath string) {
	short := protoreflect.FullName(svcName).Name()
	var c20Fresh, c20DynOpts protoreflect.ServiceDescriptor
	func() {
		gfd, err := protoregistry.GlobalFiles.FindFileByPath(filePath)
		if err != nil {
			c20InitErr = err
			return
		}
		fdp := protodesc.ToFileDescriptorProto(gfd)
		fresh, err := protodesc.NewFile(fdp, protoregistry.GlobalFiles)
		if err != nil {
			c20InitErr = err
			return
		}
		c20Fresh = fresh.Services().ByName(short)
		// dynamically typed options: re-parse the descriptor against a dynamic extension type for google.api.http
		raw, _ := proto.Marshal(fdp)
		annFD, err := protoregistry.GlobalFiles.FindFileByPath("google/api/annotations.proto")
		if err != nil {
			c20InitErr = err
			return
		}
		// fresh copies of http.proto + annotations.proto so that the extension is not the generated one
		httpFD, _ := protoregistry.GlobalFiles.FindFileByPath("google/api/http.proto")
		var files protoregistry.Files
		h2, err := protodesc.NewFile(protodesc.ToFileDescriptorProto(httpFD), protoregistry.GlobalFiles)
		if err == nil {
			err = files.RegisterFile(h2)
		}
		if err != nil {
			c20InitErr = err
			return
		}
		type combined struct {
			*protoregistry.Files
		}
		res := resolverFunc(func(path string) (protoreflect.FileDescriptor, error) {
			if fd, err := files.FindFileByPath(path); err == nil {
				return fd, nil
			}
			return protoregistry.GlobalFiles.FindFileByPath(path)
		}, func(name protoreflect.FullName) (protoreflect.Descriptor, error) {
			if d, err := files.FindDescriptorByName(name); err == nil {
				return d, nil
			}
			return protoregistry.GlobalFiles.FindDescriptorByName(name)
		})
		a2, err := protodesc.NewFile(protodesc.ToFileDescriptorProto(annFD), res)
		if err != nil {
			c20InitErr = err
			return
		}
		var types protoregistry.Types
		if err := types.RegisterExtension(dynamicpb.NewExtensionType(a2.Extensions().ByName("http"))); err != nil {
			c20InitErr = err
			return
		}
		var fdp2 descriptorpb.FileDescriptorProto
		if err := (proto.UnmarshalOptions{Resolver: &types}).Unmarshal(raw, &fdp2); err != nil {
			c20InitErr = err
			return
		}
		dyn, err := protodesc.NewFile(&fdp2, protoregistry.GlobalFiles)
		if err != nil {
			c20InitErr = err
			return
		}
		c20DynOpts = dyn.Services().ByName(short)
		withSchema := func(sd protoreflect.ServiceDescriptor, extra ...vanguard.ServiceOption) func(h http.Handler, opts ...vanguard.ServiceOption) (*vanguard.Service, error) {
			return func(h http.Handler, opts ...vanguard.ServiceOption) (*vanguard.Service, error) {
				return vanguard.NewServiceWithSchema(sd, h, append(append([]vanguard.ServiceOption{}, opts...), extra...)...), nil
			}
		}
		// a descriptor set with its full import closure, rebuilt from scratch (what a
		// FileDescriptorSet from protoc / buf, or server reflection, gives): every imported
		// type, incl. google.api.HttpBody and the well-known types, is a fresh descriptor
		var set descriptorpb.FileDescriptorSet
		seenFile := map[string]bool{}
		var addFile func(fd protoreflect.FileDescriptor)
		addFile = func(fd protoreflect.FileDescriptor) {
			if seenFile[fd.Path()] {
				return
			}
			seenFile[fd.Path()] = true
			imps := fd.Imports()
			for i := 0; i < imps.Len(); i++ {
				addFile(imps.Get(i).FileDescriptor)
			}
			set.File = append(set.File, protodesc.ToFileDescriptorProto(fd))
		}
		addFile(gfd)
		closure, err := protodesc.NewFiles(&set)
		if err != nil {
			c20InitErr = err
			return
		}
		cfd, err := closure.FindFileByPath(filePath)
		if err != nil {
			c20InitErr = err
			return
		}
		c20Closure := cfd.Services().ByName(short)
		// the same file as a hand-built / minimised descriptor set would have it: no explicit
		// json_name on any field (the derived JSON names are the same)
		bare := protodesc.ToFileDescriptorProto(gfd)
		var strip func(ms []*descriptorpb.DescriptorProto)
		strip = func(ms []*descriptorpb.DescriptorProto) {
			for _, m := range ms {
				for _, f := range m.Field {
					f.JsonName = nil
				}
				strip(m.NestedType)
			}
		}
		strip(bare.MessageType)
		bareFD, err := protodesc.NewFile(bare, protoregistry.GlobalFiles)
		if err != nil {
			c20InitErr = err
			return
		}
		c20Bare := bareFD.Services().ByName(short)
		c20VariantsBy[svcName] = []c20Variant{
			{"generated (NewService by name)", func(h http.Handler, opts ...vanguard.ServiceOption) (*vanguard.Service, error) {
				return vanguard.NewService(svcName, h, opts...), nil
			}},
			{"fresh protodesc copy", withSchema(c20Fresh)},
			{"fresh copy without parent file", withSchema(noParentSvc{c20Fresh})},
			{"generated schema, resolver that knows nothing", withSchema(gfd.Services().ByName(short), vanguard.WithTypeResolver(emptyResolver{}))},
			{"fresh copy, resolver that knows request types only", withSchema(c20Fresh, vanguard.WithTypeResolver(requestOnlyResolver{}))},
			{"dynamically typed google.api.http options", withSchema(c20DynOpts)},
			{"global-types resolver for a fresh copy", withSchema(c20Fresh, vanguard.WithTypeResolver(protoregistry.GlobalTypes))},
			{"descriptor set with its full import closure rebuilt", withSchema(c20Closure)},
			{"rebuilt closure, resolver that knows nothing", withSchema(c20Closure, vanguard.WithTypeResolver(emptyResolver{}))},
			{"fresh copy whose fields carry no explicit json_name", withSchema(c20Bare)},
		}
	}()
}

type descResolver struct {
	byPath func(string) (protoreflect.FileDescriptor, error)
	byName func(protoreflect.FullName) (protoreflect.Descriptor, error)
}

func (r descResolver) FindFileByPath(p string) (protoreflect.FileDescriptor, error) {
	return r.byPath(p)
}
func (r descResolver) FindDescriptorByName(n protoreflect.FullName) (protoreflect.Descriptor, error) {
	return r.byName(n)
}
func resolverFunc(a func(string) (protoreflect.FileDescriptor, error), b func(protoreflect.FullName) (protoreflect.Descriptor, error)) descResolver {
	return descResolver{a, b}
}

// library backend: answers every method with a canned message of its response type
var c20Responses = map[string]proto.Message{
	"GetBook":       &testv1.Book{Name: "shelves/1/books/1", Title: "T", Author: "A", Labels: map[string]string{"k": "v"}},
	"CreateBook":    &testv1.Book{Name: "shelves/1/books/9", Title: "N"},
	"ListBooks":     &testv1.ListBooksResponse{Books: []*testv1.Book{{Name: "b1"}, {Name: "b2", Title: "t2"}}, NextPageToken: "np"},
	"CreateShelf":   &testv1.Shelf{},
	"ListShelves":   &testv1.ListShelvesResponse{Shelves: []*testv1.Shelf{{}}, NextPageToken: "x"},
	"UpdateBook":    &testv1.Book{Name: "shelves/1/books/1", Description: "upd"},
	"DeleteBook":    &emptypb.Empty{},
	"SearchBooks":   &testv1.SearchBooksResponse{Books: []*testv1.Book{{Name: "s1"}}},
	"MoveBooks":     &testv1.MoveBooksResponse{},
	"CheckoutBooks": &testv1.Checkout{Id: 7, Books: []*testv1.Book{{Name: "c1"}}},
	"ReturnBooks":   &emptypb.Empty{},
	"GetCheckout":   &testv1.Checkout{Id: 8, Books: []*testv1.Book{{Name: "g1", Title: "gt"}}},
	"ListCheckouts": &testv1.ListCheckoutsResponse{Checkouts: []*testv1.Checkout{{Id: 1}, {Id: 2}}},
}

// content backend: responses per method (streams answer with several messages)
var c20ContentResponses = map[string][]proto.Message{
	"Index":     {&httpbody.HttpBody{ContentType: "text/html", Data: []byte("<p>index</p>")}},
	"Upload":    {&emptypb.Empty{}},
	"Download":  {&testv1.DownloadResponse{File: &httpbody.HttpBody{ContentType: "application/octet-stream", Data: []byte("part-1;")}}, &testv1.DownloadResponse{File: &httpbody.HttpBody{Data: []byte("part-2")}}},
	"Subscribe": {&testv1.SubscribeResponse{FilenameChanged: "a.txt"}, &testv1.SubscribeResponse{FilenameChanged: "b.txt", Deleted: true}},
}

type c20Backend struct {
	svc  string
	view string
}

func (b *c20Backend) ServeHTTP(w http.ResponseWriter, r *http.Request) {
	seen := drive.Capture(r)
	seen.ReadBody(r.Body, nil)
	pr := wire.ParseBackendRequest(r.Method, r.URL, seen.Header, seen.ContentLength, seen.Body)
	method := r.URL.Path[strings.LastIndex(r.URL.Path, "/")+1:]
	svc := b.svc
	if svc == "" {
		svc = libSvc
	}
	if pr.Form == wire.REST {
		if svc == contentSvc {
			method = c20ContentRESTMethod(r.Method, r.URL.Path)
		} else {
			method = c20RESTMethod(r.Method, r.URL.Path)
		}
	}
	gfd, _ := protoregistry.GlobalFiles.FindDescriptorByName(protoreflect.FullName(svc))
	md := gfd.(protoreflect.ServiceDescriptor).Methods().ByName(protoreflect.Name(method))
	var sb strings.Builder
	fmt.Fprintf(&sb, "%s %s form=%s codec=%s complaints=%v|", r.Method, r.URL.Path, pr.Form, pr.Codec, pr.Complaints)
	if md != nil {
		for _, m := range pr.Msgs {
			if pr.Form == wire.REST && svc == contentSvc {
				fmt.Fprintf(&sb, "raw(%s):%q;", seen.Header.Get("Content-Type"), m)
				continue
			}
			sb.WriteString(canonMsg(pr.Codec, md.Input(), m) + ";")
		}
	}
	b.view = sb.String()
	if svc == contentSvc {
		b.serveContent(w, pr, method)
		return
	}
	resp := c20Responses[method]
	if resp == nil {
		w.WriteHeader(404)
		return
	}
	sr := &wire.ServerResp{Form: pr.Form, Codec: pr.Codec, Msgs: [][]byte{Enc(pr.Codec, resp)}}
	if pr.Form == wire.REST {
		switch method {
		case "GetCheckout":
			sr.Msgs = [][]byte{[]byte(`[{"name":"g1","title":"gt"}]`)}
		case "ListCheckouts":
			sr.Msgs = [][]byte{[]byte(`[{"id":"1"},{"id":"2"}]`)}
		}
	}
	if sr.Form == wire.ConnectGet {
		sr.Form = wire.ConnectUnary
	}
	out := sr.Encode()
	for k, v := range out.Header {
		w.Header()[k] = v
	}
	w.WriteHeader(out.Status)
	_, _ = w.Write(out.Body)
	for k, v := range out.Trailer {
		w.Header()[http.TrailerPrefix+k] = v
	}
}

func (b *c20Backend) serveContent(w http.ResponseWriter, pr *wire.BackendReq, method string) {
	resps := c20ContentResponses[method]
	if resps == nil {
		w.WriteHeader(404)
		return
	}
	if pr.Form == wire.REST {
		// a REST backend answers with the raw file (HttpBody) or an empty JSON object
		switch method {
		case "Index":
			w.Header().Set("Content-Type", "text/html")
			_, _ = w.Write([]byte("<p>index</p>"))
		case "Download":
			w.Header().Set("Content-Type", "application/octet-stream")
			_, _ = w.Write([]byte("part-1;"))
			_, _ = w.Write([]byte("part-2"))
		default:
			w.Header().Set("Content-Type", "application/json")
			_, _ = w.Write([]byte("{}"))
		}
		return
	}
	sr := &wire.ServerResp{Form: world.ServerFormFor(pr.Form), Codec: pr.Codec}
	for _, m := range resps {
		sr.Msgs = append(sr.Msgs, Enc(pr.Codec, m))
	}
	out := sr.Encode()
	for k, v := range out.Header {
		w.Header()[k] = v
	}
	w.WriteHeader(out.Status)
	_, _ = w.Write(out.Body)
	for k, v := range out.Trailer {
		w.Header()[http.TrailerPrefix+k] = v
	}
}

func c20ContentRESTMethod(verb, path string) string {
	switch {
	case strings.HasSuffix(path, ":upload"):
		return "Upload"
	case strings.HasSuffix(path, ":download"):
		return "Download"
	case verb == "GET":
		return "Index"
	}
	return ""
}

type c20Req struct {
	svc    string
	msgs   []proto.Message
	name   string
	method string
	target string
	ct     string
	body   string
	form   wire.Form // client form for RPC requests (ct empty then)
	rpc    string
	codec  string
	msg    proto.Message
}

func c20Corpus() []c20Req {
	rest := func(name, method, target, body string) c20Req {
		return c20Req{name: name, method: method, target: target, ct: "application/json", body: body, form: wire.REST}
	}
	rpc := func(name string, form wire.Form, m, codec string, msg proto.Message) c20Req {
		return c20Req{name: name, form: form, rpc: m, codec: codec, msg: msg}
	}
	return []c20Req{
		rest("get-book", "GET", "/v1/shelves/1/books/2", ""),
		rest("get-book-escapes", "GET", "/v1/shelves/a%20b/books/100%25", ""),
		rest("create-book", "POST", "/v1/shelves/1/books?book_id=9&requestId=r", `{"title":"t","labels":{"a":"b"}}`),
		rest("list-books", "GET", "/v1/shelves/1/books?page_size=5&pageToken=tok", ""),
		rest("list-books-bad-param", "GET", "/v1/shelves/1/books?page_size=abc", ""),
		rest("create-shelf", "POST", "/v1/shelves", `{}`),
		rest("update-book", "PATCH", "/v1/shelves/1/books/3?update_mask=title,author", `{"title":"nt"}`),
		rest("delete-book", "DELETE", "/v1/shelves/1/books/3", ""),
		rest("search-books-unknown-param", "GET", "/v2/shelves/1/books:search?author=x", ""),
		rest("search-books", "GET", "/v2/shelves/1/books:search?query=q&page_size=2", ""),
		rest("move-books-bad-body", "POST", "/v2/shelves/2/books:move", `[{"name":"shelves/1/books/1"}]`),
		rest("move-books", "POST", "/v2/shelves/2/books:move", `["shelves/1/books/1","shelves/1/books/2"]`),
		rest("checkout-books", "POST", "/v2/checkouts", `["shelves/1/books/1","shelves/1/books/2"]`),
		rest("return-books", "PUT", "/v2/checkouts/12", `{"bookNames":["n"]}`),
		rest("get-checkout", "GET", "/v2/checkouts/8", ""),
		rest("list-checkouts", "GET", "/v2/shelves/1/books/2:checkouts", ""),
		rest("wrong-method", "DELETE", "/v2/checkouts/8", ""),
		rest("no-route", "GET", "/v3/nothing", ""),
		rpc("grpcweb-json-getbook", wire.GRPCWeb, "GetBook", "json", &testv1.GetBookRequest{Name: "shelves/1/books/1"}),
		rpc("grpc-json-createbook", wire.GRPC, "CreateBook", "json", &testv1.CreateBookRequest{Parent: "shelves/1", Book: &testv1.Book{Title: "x", Labels: map[string]string{"l": "m"}}}),
		rpc("cunary-json-listbooks", wire.ConnectUnary, "ListBooks", "json", &testv1.ListBooksRequest{Parent: "shelves/2", PageSize: 3}),
		rpc("cget-json-getbook", wire.ConnectGet, "GetBook", "json", &testv1.GetBookRequest{Name: "shelves/1/books/5"}),
		rpc("cget-json-createbook-405", wire.ConnectGet, "CreateBook", "json", &testv1.CreateBookRequest{Parent: "p"}),
		rpc("cunary-proto-getcheckout", wire.ConnectUnary, "GetCheckout", "proto", &testv1.GetCheckoutRequest{Id: 3}),
		rpc("grpcweb-json-unknown-method", wire.GRPCWeb, "Nope", "json", &testv1.GetBookRequest{}),
		// ContentService: HttpBody, client / server / bidi streams
		content(rest("content-index", "GET", "/site/a%20b/page.html", "")),
		content(c20Req{name: "content-upload-rest", method: "POST", target: "/dir/file.txt:upload", ct: "text/plain", body: "file contents", form: wire.REST}),
		content(rest("content-download-rest", "GET", "/dir/file.bin:download", "")),
		content(c20Req{name: "content-upload-grpc-json", form: wire.GRPC, rpc: "Upload", codec: "json", msgs: []proto.Message{
			&testv1.UploadRequest{Filename: "dir/f.txt", File: &httpbody.HttpBody{ContentType: "text/plain", Data: []byte("one,")}},
			&testv1.UploadRequest{File: &httpbody.HttpBody{Data: []byte("two")}}}}),
		content(c20Req{name: "content-download-connect-proto", form: wire.ConnectStream, rpc: "Download", codec: "proto", msgs: []proto.Message{&testv1.DownloadRequest{Filename: "dir/f.bin"}}}),
		content(c20Req{name: "content-subscribe-grpcweb-json", form: wire.GRPCWeb, rpc: "Subscribe", codec: "json", msgs: []proto.Message{
			&testv1.SubscribeRequest{FilenamePatterns: []string{"*.txt"}}, &testv1.SubscribeRequest{FilenamePatterns: []string{"b*", "c*"}}}}),
		content(c20Req{name: "content-index-cget-json", form: wire.ConnectGet, rpc: "Index", codec: "json", msgs: []proto.Message{&testv1.IndexRequest{Page: "p/q"}}}),
	}
}

func content(q c20Req) c20Req { q.svc = contentSvc; return q }

func (q c20Req) spec() *drive.ReqSpec {
	if q.form == wire.REST {
		s := &drive.ReqSpec{Method: q.method, Target: q.target, Header: http.Header{}, ContentLength: -1}
		if q.body != "" || (q.method != "GET" && q.method != "DELETE") {
			s.Body = drive.NewBody([]byte(q.body))
			s.Header.Set("Content-Type", q.ct)
		} else {
			s.NoBody = true
		}
		return s
	}
	svc := q.svc
	if svc == "" {
		svc = libSvc
	}
	cr := &wire.ClientReq{Form: q.form, Path: "/" + svc + "/" + q.rpc, Codec: q.codec}
	if q.msg != nil {
		cr.Msgs = [][]byte{Enc(q.codec, q.msg)}
	}
	for _, m := range q.msgs {
		cr.Msgs = append(cr.Msgs, Enc(q.codec, m))
	}
	s := worldSpec(cr)
	return s
}

type c20Lib struct {
	testv1.UnimplementedLibraryServiceServer
}

func (c20Lib) GetBook(_ context.Context, r *testv1.GetBookRequest) (*testv1.Book, error) {
	return &testv1.Book{Name: r.GetName(), Title: "T"}, nil
}
func (c20Lib) ListBooks(_ context.Context, r *testv1.ListBooksRequest) (*testv1.ListBooksResponse, error) {
	return &testv1.ListBooksResponse{Books: []*testv1.Book{{Name: r.GetParent() + "/books/1"}}, NextPageToken: fmt.Sprint(r.GetPageSize())}, nil
}
func (c20Lib) CreateBook(_ context.Context, r *testv1.CreateBookRequest) (*testv1.Book, error) {
	return &testv1.Book{Name: r.GetParent() + "/books/" + r.GetBookId(), Title: r.GetBook().GetTitle()}, nil
}
func (c20Lib) GetCheckout(_ context.Context, r *testv1.GetCheckoutRequest) (*testv1.Checkout, error) {
	return &testv1.Checkout{Id: r.GetId(), Books: []*testv1.Book{{Name: "b"}}}, nil
}

func init() {
	Register(&Check{
		ID:    "C20",
		Level: "exploration",
		Rule: "A corpus of 32 requests against vanguard.test.v1.LibraryService and ContentService (HttpBody bodies and responses, client / server / bidi streams) (16 REST requests over all 13 bindings incl. nested / multi-segment variables, verbs, repeated and scalar bodies, response_body, escapes, an ill-typed parameter, wrong method, unknown route; RPC requests in gRPC, gRPC-Web, Connect POST and GET incl. a 405 and an unknown method) x 4 target configurations " +
			"is run against 10 registrations of the same schema (generated code by name; a copy whose fields carry no explicit json_name; fresh protodesc copy; descriptor set with its full import closure rebuilt (fresh descriptors for every imported type), also with a resolver that knows nothing; copy without parent file; resolver that knows nothing; resolver that knows only request types; dynamically typed google.api.http options; GlobalTypes resolver for a fresh copy) and against vanguardgrpc.NewTranscoder vs NewService-by-name over one grpc.Server; " +
			"every variant's client- and backend-side semantic outcome must equal the generated-code variant's. Drift: a schema whose content differs from the linked-in file of the same path (Book gets an extra field) must behave as the same content registered under another path (4 requests x 3 targets). Parameter kinds: every field path (depth <= 2) of vanguard.test.v1.ParameterValues x 24 value corners (NaN / infinities, range edges, ill-typed) as a query parameter of a GET and of a POST with a body field x 3 targets, bound into generated types vs dynamicpb types vs a resolver that knows nothing. Non-trivial = (request, target, variant) whose message types resolve to a different Go type than in the baseline.",
		Assume:    []string{"messages are compared after decoding against the generated descriptors"},
		Scenarios: []Scenario{{Name: "variants", Fn: c20Scenario, QuickBound: 0, ThoroughBound: 0}, {Name: "drift", Fn: c20Drift, QuickBound: 0, ThoroughBound: 0}, {Name: "any-of-a-deep-import", Fn: c20DeepAny, QuickBound: 0, ThoroughBound: 0}, {Name: "any-type-urls", Fn: c20AnyURLs, QuickBound: 0, ThoroughBound: 0}, {Name: "param-kinds", Fn: c20Params, QuickBound: 0, ThoroughBound: 0}},
	})
}

func c20Scenario(c *xplor.Ctx) {
	c20Init()
	if c20InitErr != nil {
		c.Fail("harness.setup", "building schema variants: %v", c20InitErr)
		return
	}
	corpus := c20Corpus()
	q := corpus[c.Free("request", len(corpus))]
	tgt := c.Free("target", 5) // Connect/proto, gRPC/json, gRPC-Web/proto, REST, vanguardgrpc
	c.Attr("request", q.name)
	if tgt == 4 {
		c20GRPC(c, q)
		return
	}
	tp := allProtoOrder[tgt]
	codec := []string{"proto", "json", "proto", "json"}[tgt]
	c.Attr("target", tp.String())
	run := func(v c20Variant) (string, error) {
		be := &c20Backend{svc: q.svc}
		svc, err := v.make(be, vanguard.WithTargetProtocols(tp), vanguard.WithTargetCodecs(codec))
		if err != nil {
			return "", err
		}
		tc, err := vanguard.NewTranscoder([]*vanguard.Service{svc})
		if err != nil {
			return "NewTranscoder error: " + err.Error(), nil
		}
		spec := q.spec()
		req, err := spec.Build(context.Background())
		if err != nil {
			return "", err
		}
		rec := drive.NewRecorder()
		pi := drive.Serve(tc, rec, rec, req, spec.Body)
		view := fmt.Sprintf("status=%d ct=%q allow=%q body=%s trailers=%s || backend: %s", rec.Status, rec.Snapshot.Get("Content-Type"), sortedList(rec.Snapshot.Get("Allow")), c20Body(q, rec), drive.CanonHeader(rec.Trailers), be.view)
		if pi != nil {
			view += " || PANIC " + pi.Value + " " + stackTop(pi.Stack)
		}
		return view, nil
	}
	variants := c20Variants
	if q.svc != "" {
		variants = c20VariantsBy[q.svc]
	}
	base, err := run(variants[0])
	if err != nil {
		c.Fail("harness.setup", "%v", err)
		return
	}
	for _, v := range variants[1:] {
		got, err := run(v)
		if err != nil {
			c.Fail("harness.setup", "%s: %v", v.name, err)
			return
		}
		c.AddEvaluations(1)
		c.Nontrivial(q.name + "|" + tp.String() + "|" + v.name)
		if got != base {
			c.Attr("variant", v.name)
			c.Fail("C20.variant-behaves-differently", "request %s toward %s/%s\n generated code: %s\n %s: %s", q.name, tp, codec, short(base), v.name, short(got))
		}
	}
	if strings.Contains(base, "PANIC") {
		c.Fail("C20.panic", "%s", short(base))
	}
	if os.Getenv("VERIF_DEBUG") != "" {
		fmt.Fprintf(os.Stderr, "DBG %s %s %s\n", q.name, tp, short(base))
	}
	c.Outcome(strings.SplitN(base, " ", 2)[0])
}

// c20Body renders the client's response body semantically (decoded against the generated types).
func c20Body(q c20Req, rec *drive.Recorder) string {
	form := q.form
	if form == wire.ConnectGet {
		form = wire.ConnectUnary
	}
	pr := wire.ParseClientResponse(form, rec.Status, rec.HeadHeaders(), rec.BodyBytes.Bytes(), rec.Trailers)
	var sb strings.Builder
	fmt.Fprintf(&sb, "end=%d/%q bare=%v complaints=%v|", pr.End.Code, pr.End.Message, pr.BareHTTP, pr.Complaints)
	for _, m := range pr.Msgs {
		if (form == wire.REST || pr.BareHTTP) && q.svc == contentSvc {
			fmt.Fprintf(&sb, "raw(%s):%q;", rec.Snapshot.Get("Content-Type"), m)
			continue
		}
		if form == wire.REST || pr.BareHTTP {
			sb.WriteString(canonJSON(m) + ";")
			continue
		}
		svc := q.svc
		if svc == "" {
			svc = libSvc
		}
		gfd, _ := protoregistry.GlobalFiles.FindDescriptorByName(protoreflect.FullName(svc))
		if md := gfd.(protoreflect.ServiceDescriptor).Methods().ByName(protoreflect.Name(q.rpc)); md != nil {
			sb.WriteString(canonMsg(pr.Codec, md.Output(), m) + ";")
		} else {
			fmt.Fprintf(&sb, "%x;", m)
		}
	}
	return sb.String()
}

// c20GRPC compares vanguardgrpc.NewTranscoder(server) with NewService(name, server) + the same options.
func c20GRPC(c *xplor.Ctx, q c20Req) {
	c.Attr("target", "vanguardgrpc")
	if q.form == wire.GRPC || strings.Contains(q.name, "unknown-method") || q.svc != "" {
		c.Skip() // a gRPC client of a gRPC server is forwarded untouched
		return
	}
	server := grpc.NewServer()
	testv1.RegisterLibraryServiceServer(server, c20Lib{})
	run := func(tc *vanguard.Transcoder) string {
		spec := q.spec()
		req, err := spec.Build(context.Background())
		if err != nil {
			return "build error"
		}
		rec := drive.NewRecorder()
		pi := drive.Serve(tc, rec, rec, req, spec.Body)
		view := fmt.Sprintf("status=%d ct=%q allow=%q body=%s", rec.Status, rec.Snapshot.Get("Content-Type"), sortedList(rec.Snapshot.Get("Allow")), c20Body(q, rec))
		if pi != nil {
			view += " || PANIC " + pi.Value + " " + stackTop(pi.Stack)
		}
		return view
	}
	a, err := vanguardgrpc.NewTranscoder(server)
	if err != nil {
		c.Fail("harness.setup", "vanguardgrpc.NewTranscoder: %v", err)
		return
	}
	b, err := vanguard.NewTranscoder([]*vanguard.Service{vanguard.NewService(libSvc, server)},
		vanguard.WithDefaultServiceOptions(vanguard.WithTargetCodecs(vanguard.CodecProto), vanguard.WithTargetProtocols(vanguard.ProtocolGRPC)))
	if err != nil {
		c.Fail("harness.setup", "NewTranscoder: %v", err)
		return
	}
	va, vb := run(a), run(b)
	c.Nontrivial(q.name + "|vanguardgrpc")
	if va != vb {
		c.Attr("variant", "vanguardgrpc")
		c.Fail("C20.variant-behaves-differently", "request %s\n vanguardgrpc.NewTranscoder(server): %s\n NewService by name + same options: %s", q.name, short(va), short(vb))
	}
	if strings.Contains(va, "PANIC") {
		c.Fail("C20.panic", "%s", short(va))
	}
	c.Outcome("grpc:" + strings.SplitN(va, " ", 2)[0])
}

// sortedList renders a comma separated header value as a set (the Allow header of a 405 is
// built from a Go map, so its order varies run to run on every variant alike).
func sortedList(v string) string {
	parts := strings.Split(v, ",")
	for i := range parts {
		parts[i] = strings.TrimSpace(parts[i])
	}
	sort.Strings(parts)
	return strings.Join(parts, ",")
}

// c20RESTMethod is the harness's own table of the library service's REST bindings.
func c20RESTMethod(verb, path string) string {
	seg := strings.Split(strings.TrimPrefix(path, "/"), "/")
	last := seg[len(seg)-1]
	switch {
	case len(seg) == 2 && seg[0] == "v1" && seg[1] == "shelves":
		if verb == "POST" {
			return "CreateShelf"
		}
		return "ListShelves"
	case seg[0] == "v1" && len(seg) == 4 && last == "books":
		if verb == "POST" {
			return "CreateBook"
		}
		return "ListBooks"
	case seg[0] == "v1" && len(seg) == 5:
		switch verb {
		case "GET":
			return "GetBook"
		case "PATCH":
			return "UpdateBook"
		case "DELETE":
			return "DeleteBook"
		}
	case seg[0] == "v2" && strings.HasSuffix(last, ":search"):
		return "SearchBooks"
	case seg[0] == "v2" && strings.HasSuffix(last, ":move"):
		return "MoveBooks"
	case seg[0] == "v2" && strings.HasSuffix(last, ":checkouts"):
		return "ListCheckouts"
	case seg[0] == "v2" && len(seg) == 2 && seg[1] == "checkouts":
		return "CheckoutBooks"
	case seg[0] == "v2" && len(seg) == 3 && seg[1] == "checkouts":
		if verb == "PUT" {
			return "ReturnBooks"
		}
		return "GetCheckout"
	}
	return ""
}

// ---- drift: a supplied schema whose CONTENT differs from a linked-in file of the same path.
// The behaviour must follow the supplied content: it must be the same whether that content
// is registered under the linked-in file's path / names or under another path.

var (
	c20DriftOnce sync.Once
	c20DriftSame protoreflect.ServiceDescriptor // drifted content, path of the linked-in file
	c20DriftElse protoreflect.ServiceDescriptor // the same content under another path
	c20DriftErr  error
)

func c20DriftInit() {
	c20DriftOnce.Do(func() {
		gfd, err := protoregistry.GlobalFiles.FindFileByPath("vanguard/test/v1/library.proto")
		if err != nil {
			c20DriftErr = err
			return
		}
		mk := func(path string) (protoreflect.ServiceDescriptor, error) {
			fdp := protodesc.ToFileDescriptorProto(gfd)
			fdp.Name = proto.String(path)
			for _, m := range fdp.MessageType {
				if m.GetName() == "Book" {
					m.Field = append(m.Field, &descriptorpb.FieldDescriptorProto{Name: proto.String("subtitle"), JsonName: proto.String("subtitle"), Number: proto.Int32(100),
						Type: descriptorpb.FieldDescriptorProto_TYPE_STRING.Enum(), Label: descriptorpb.FieldDescriptorProto_LABEL_OPTIONAL.Enum()})
				}
			}
			fd, err := protodesc.NewFile(fdp, protoregistry.GlobalFiles)
			if err != nil {
				return nil, err
			}
			return fd.Services().ByName("LibraryService"), nil
		}
		if c20DriftSame, err = mk("vanguard/test/v1/library.proto"); err != nil {
			c20DriftErr = err
			return
		}
		c20DriftElse, c20DriftErr = mk("verif/drift/library_drifted.proto")
	})
}

func c20Drift(c *xplor.Ctx) {
	c20DriftInit()
	if c20DriftErr != nil {
		c.Fail("harness.setup", "building drifted schemas: %v", c20DriftErr)
		return
	}
	type dreq struct {
		name, method, target, body string
		form                       wire.Form
		rpc, codec, msg            string
	}
	reqs := []dreq{
		{name: "rest-get-book", method: "GET", target: "/v1/shelves/1/books/2", form: wire.REST},
		{name: "rest-create-book", method: "POST", target: "/v1/shelves/1/books", body: `{"title":"t","subtitle":"from the body"}`, form: wire.REST},
		{name: "connect-json-create-book", form: wire.ConnectUnary, rpc: "CreateBook", codec: "json", msg: `{"parent":"shelves/1","book":{"title":"t","subtitle":"from the message"}}`},
		{name: "grpcweb-proto-get-book", form: wire.GRPCWeb, rpc: "GetBook", codec: "proto", msg: `{"name":"shelves/1/books/2"}`},
	}
	q := reqs[c.Free("request", len(reqs))]
	tgt := c.Free("target", 3)
	tp := allProtoOrder[tgt]
	codec := []string{"proto", "json", "json"}[tgt]
	c.Attr("request", "drift:"+q.name)
	c.Attr("target", tp.String())
	run := func(sd protoreflect.ServiceDescriptor) string {
		bookDesc := sd.Methods().ByName("GetBook").Output()
		backendView := ""
		handler := http.HandlerFunc(func(w http.ResponseWriter, r *http.Request) {
			seen := drive.Capture(r)
			seen.ReadBody(r.Body, nil)
			pr := wire.ParseBackendRequest(r.Method, r.URL, seen.Header, seen.ContentLength, seen.Body)
			method := r.URL.Path[strings.LastIndex(r.URL.Path, "/")+1:]
			md := sd.Methods().ByName(protoreflect.Name(method))
			if md != nil {
				for _, m := range pr.Msgs {
					backendView += canonMsg(pr.Codec, md.Input(), m) + ";"
				}
			}
			book := dynamicpb.NewMessage(bookDesc)
			book.Set(bookDesc.Fields().ByName("name"), protoreflect.ValueOfString("shelves/1/books/2"))
			book.Set(bookDesc.Fields().ByName("subtitle"), protoreflect.ValueOfString("from the backend"))
			sr := &wire.ServerResp{Form: world.ServerFormFor(pr.Form), Codec: pr.Codec, Msgs: [][]byte{Enc(pr.Codec, book)}}
			out := sr.Encode()
			for k, v := range out.Header {
				w.Header()[k] = v
			}
			w.WriteHeader(out.Status)
			_, _ = w.Write(out.Body)
			for k, v := range out.Trailer {
				w.Header()[http.TrailerPrefix+k] = v
			}
		})
		tc, err := vanguard.NewTranscoder([]*vanguard.Service{vanguard.NewServiceWithSchema(sd, handler, vanguard.WithTargetProtocols(tp), vanguard.WithTargetCodecs(codec))})
		if err != nil {
			return "NewTranscoder error: " + err.Error()
		}
		var spec *drive.ReqSpec
		if q.form == wire.REST {
			spec = &drive.ReqSpec{Method: q.method, Target: q.target, Header: http.Header{}, ContentLength: -1}
			if q.body != "" {
				spec.Body = drive.NewBody([]byte(q.body))
				spec.Header.Set("Content-Type", "application/json")
			} else {
				spec.NoBody = true
			}
		} else {
			in := sd.Methods().ByName(protoreflect.Name(q.rpc)).Input()
			spec = world.SpecFromClient(&wire.ClientReq{Form: q.form, Path: "/" + libSvc + "/" + q.rpc, Codec: q.codec, Msgs: [][]byte{Enc(q.codec, MkMsgOf(in, q.msg))}})
		}
		req, err := spec.Build(context.Background())
		if err != nil {
			return "build error: " + err.Error()
		}
		rec := drive.NewRecorder()
		pi := drive.Serve(tc, rec, rec, req, spec.Body)
		form := q.form
		pr := wire.ParseClientResponse(form, rec.Status, rec.HeadHeaders(), rec.BodyBytes.Bytes(), rec.Trailers)
		view := fmt.Sprintf("status=%d end=%d/%q|", rec.Status, pr.End.Code, pr.End.Message)
		for _, m := range pr.Msgs {
			if form == wire.REST {
				view += canonJSON(m) + ";"
			} else {
				view += canonMsg(pr.Codec, bookDesc, m) + ";"
			}
		}
		view += " || backend: " + backendView
		if pi != nil {
			view += " || PANIC " + pi.Value
		}
		return view
	}
	same, other := run(c20DriftSame), run(c20DriftElse)
	c.AddEvaluations(1)
	c.Nontrivial("drift|" + q.name + "|" + tp.String())
	if same != other {
		c.Attr("variant", "content differs from the linked-in file of the same path")
		c.Fail("C20.variant-behaves-differently", "request %s toward %s/%s: a schema whose Book has an extra field 'subtitle'\n registered under another path:          %s\n registered under the linked-in file's path: %s", q.name, tp, codec, short(other), short(same))
	}
	if !strings.Contains(other, "subtitle") {
		c.Fail("harness.setup", "the drift scenario does not exercise the extra field: %s", short(other))
	}
	c.Outcome("drift:" + strings.SplitN(same, " ", 2)[0])
}

// ---- a type that belongs to the schema only through an import of an import (and is not linked into
// the binary), carried in a google.protobuf.Any: the service's default resolver must know it like a
// resolver over all the schema's files does.

func c20DeepAny(c *xplor.Ctx) {
	svc, all, err := world.BuildDeepService()
	if err != nil {
		c.Fail("harness.setup", "%v", err)
		return
	}
	form := []wire.Form{wire.ConnectUnary, wire.GRPCWeb}[c.Free("client", 2)]
	tp := []vanguard.Protocol{vanguard.ProtocolGRPC, vanguard.ProtocolConnect}[c.Free("target", 2)]
	dir := c.Free("direction", 2) // 0: JSON client, proto backend; 1: proto client, JSON backend
	c.Attr("request", "any:verif.deep.Leaf (import of an import)")
	c.Attr("target", tp.String())
	body := `{"name":"outer","anyValue":{"@type":"type.googleapis.com/verif.deep.Leaf","name":"inside"}}`
	ccodec, tcodec := "json", "proto"
	if dir == 1 {
		ccodec, tcodec = "proto", "json"
	}
	// (compared as values: the order of fields in protobuf's binary form is not fixed)
	canon := func(codec string, b []byte) string {
		if codec == "json" {
			return canonJSON(b)
		}
		m := dynamicpb.NewMessage(world.MsgDesc())
		if err := proto.Unmarshal(b, m); err != nil {
			return fmt.Sprintf("undecodable %x", b)
		}
		j, err := protojson.MarshalOptions{Resolver: all}.Marshal(m)
		if err != nil {
			return fmt.Sprintf("unrenderable %x", b)
		}
		return canonJSON(j)
	}
	run := func(opts ...vanguard.ServiceOption) string {
		backendView := ""
		be := &world.Backend{}
		be.Respond = func(b *world.Backend, r *http.Request) *world.Reply {
			for _, m := range b.Parsed.Msgs {
				backendView += canon(tcodec, m) + ";"
			}
			return world.EchoReply(b.Parsed, b.Parsed.Msgs, "", nil)
		}
		tc, err := world.Build(world.Config{Service: svc, Protocols: []vanguard.Protocol{tp}, Codecs: []string{tcodec}, NoCompress: true, MaxMsg: 1 << 16, ExtraOpts: opts}, be)
		if err != nil {
			return "NewTranscoder error: " + err.Error()
		}
		msg := []byte(body)
		if ccodec == "proto" {
			m := dynamicpb.NewMessage(world.MsgDesc())
			if err := (protojson.UnmarshalOptions{Resolver: all}).Unmarshal(msg, m); err != nil {
				return "harness: " + err.Error()
			}
			msg, _ = proto.MarshalOptions{Deterministic: true}.Marshal(m)
		}
		ex, err := world.Do(tc, world.SpecFromClient(&wire.ClientReq{Form: form, Path: "/verif.deep.DeepSvc/Unary", Codec: ccodec, Msgs: [][]byte{msg}}))
		if err != nil {
			return "build error: " + err.Error()
		}
		pr := wire.ParseClientResponse(form, ex.Rec.Status, ex.Rec.HeadHeaders(), ex.Rec.BodyBytes.Bytes(), ex.Rec.Trailers)
		v := fmt.Sprintf("status=%d end=%d/%q|", ex.Rec.Status, pr.End.Code, short(pr.End.Message))
		for _, m := range pr.Msgs {
			v += canon(ccodec, m) + ";"
		}
		if ex.Panic != nil {
			v += " PANIC " + ex.Panic.Value
		}
		return v + " || backend: " + backendView
	}
	def, explicit := run(), run(vanguard.WithTypeResolver(all))
	c.AddEvaluations(1)
	c.Nontrivial(fmt.Sprint("deep-any|", form, tp, dir))
	if def != explicit {
		c.Attr("variant", "default resolver of a dynamically described service")
		c.Fail("C20.variant-behaves-differently", "a google.protobuf.Any holding verif.deep.Leaf, declared in a file the service's file reaches through an import of an import (%s client %s, %s/%s target)\n with a resolver over all files of the schema: %s\n with the service's default resolver:          %s", form, ccodec, tp, tcodec, short(explicit), short(def))
	}
	if !strings.Contains(explicit, "status=200") {
		c.Fail("harness.setup", "the reference run does not succeed: %s", short(explicit))
	}
	c.Outcome("deep-any:" + strings.SplitN(def, " ", 2)[0])
}

// ---- type URLs: a dynamically described service resolves the types inside google.protobuf.Any
// through its default resolver (fallbackResolver); that must behave like a plain, correct
// resolver handed in with WithTypeResolver, for every legal spelling of a type URL.

func c20AnyURLs(c *xplor.Ctx) {
	urls := []string{"type.googleapis.com/verif.v1.Msg", "https://type.googleapis.com/verif.v1.Msg", "schemas.example.com/acme/parcels/verif.v1.Msg", "/verif.v1.Msg", "type.googleapis.com/google.protobuf.Duration", "example.com/a/b/google.protobuf.Duration"}
	u := urls[c.Free("type-url", len(urls))]
	form := []wire.Form{wire.ConnectUnary, wire.GRPCWeb, wire.REST}[c.Free("client", 3)]
	tgt := c.Free("target", 2)
	tp := []vanguard.Protocol{vanguard.ProtocolGRPC, vanguard.ProtocolConnect}[tgt]
	c.Attr("request", "any:"+u)
	c.Attr("target", tp.String())
	inner := `"name":"inside"`
	if strings.HasSuffix(u, "Duration") {
		inner = `"value":"1.500s"`
	}
	body := `{"name":"outer","anyValue":{"@type":"` + u + `",` + inner + `}}`
	run := func(opts ...vanguard.ServiceOption) string {
		backendView := ""
		be := &world.Backend{}
		be.Respond = func(b *world.Backend, r *http.Request) *world.Reply {
			for _, m := range b.Parsed.Msgs {
				backendView += canonMsg(b.Parsed.Codec, world.MsgDesc(), m) + ";"
			}
			return world.EchoReply(b.Parsed, b.Parsed.Msgs, "", nil) // echo: the Any comes back
		}
		tc, err := world.Build(world.Config{Protocols: []vanguard.Protocol{tp}, Codecs: []string{"proto"}, NoCompress: true, MaxMsg: 1 << 16, ExtraOpts: opts}, be)
		if err != nil {
			return "NewTranscoder error: " + err.Error()
		}
		var spec *drive.ReqSpec
		if form == wire.REST {
			spec = &drive.ReqSpec{Method: "POST", Target: "/v1/unary", Header: http.Header{"Content-Type": {"application/json"}}, ContentLength: -1, Body: drive.NewBody([]byte(body))}
		} else {
			spec = world.SpecFromClient(&wire.ClientReq{Form: form, Path: world.SvcPath + "Unary", Codec: "json", Msgs: [][]byte{[]byte(body)}})
		}
		ex, err := world.Do(tc, spec)
		if err != nil {
			return "build error: " + err.Error()
		}
		pr := wire.ParseClientResponse(form, ex.Rec.Status, ex.Rec.HeadHeaders(), ex.Rec.BodyBytes.Bytes(), ex.Rec.Trailers)
		v := fmt.Sprintf("status=%d end=%d/%q|", ex.Rec.Status, pr.End.Code, short(pr.End.Message))
		for _, m := range pr.Msgs {
			v += canonJSON(m) + ";"
		}
		if ex.Panic != nil {
			v += " PANIC " + ex.Panic.Value
		}
		return v + " || backend: " + backendView
	}
	def, explicit := run(), run(vanguard.WithTypeResolver(wire.Resolver()))
	c.AddEvaluations(1)
	c.Nontrivial("any|" + u + "|" + form.String() + "|" + tp.String())
	if def != explicit {
		c.Attr("variant", "default resolver of a dynamically described service")
		c.Fail("C20.variant-behaves-differently", "a message with a google.protobuf.Any whose type URL is %q (%s client, %s/proto target)\n with a plain resolver given by WithTypeResolver: %s\n with the service's default resolver:            %s", u, form, tp, short(explicit), short(def))
	}
	if !strings.Contains(explicit, "status=200") {
		c.Fail("harness.setup", "the reference run does not succeed: %s", short(explicit))
	}
	c.Outcome("any:" + strings.SplitN(def, " ", 2)[0])
}
