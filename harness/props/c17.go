package props

import (
	"context"
	"fmt"
	"net/http"
	"strings"
	"sync"

	"connectrpc.com/vanguard"
	"google.golang.org/genproto/googleapis/api/annotations"
	"google.golang.org/protobuf/reflect/protoreflect"

	"connectrpc.com/vanguard/verifharness/drive"
	"connectrpc.com/vanguard/verifharness/refroute"
	"connectrpc.com/vanguard/verifharness/wire"
	"connectrpc.com/vanguard/verifharness/world"
	"connectrpc.com/vanguard/verifharness/xplor"
)

// C17 — NewTranscoder accepts exactly the servable configurations and honours them.

var (
	c17Once sync.Once
	c17Svc  protoreflect.ServiceDescriptor
	c17Svc2 protoreflect.ServiceDescriptor
)

// c17Services: verif.c.Svc has methods Get, GetMore, Put (no annotations); verif.c.Other has Get.
func c17Services() (protoreflect.ServiceDescriptor, protoreflect.ServiceDescriptor) {
	c17Once.Do(func() {
		var err error
		c17Svc, err = world.BuildService("verif/c/svc.proto", "verif.c", "Svc", []world.MethodSpec{{Name: "Get"}, {Name: "GetMore"}, {Name: "Put"}})
		if err != nil {
			panic(err)
		}
		c17Svc2, err = world.BuildService("verif/c/other.proto", "verif.c", "Other", []world.MethodSpec{{Name: "Get"}})
		if err != nil {
			panic(err)
		}
	})
	return c17Svc, c17Svc2
}

type c17Opt struct {
	name  string
	opts  []vanguard.ServiceOption
	bad   string // non-empty: this setting makes the configuration unservable
	proto []vanguard.Protocol
}

func c17Protocols() []c17Opt {
	return []c17Opt{
		{name: "unset"},
		{name: "connect", opts: []vanguard.ServiceOption{vanguard.WithTargetProtocols(vanguard.ProtocolConnect)}, proto: []vanguard.Protocol{vanguard.ProtocolConnect}},
		{name: "grpc+grpcweb", opts: []vanguard.ServiceOption{vanguard.WithTargetProtocols(vanguard.ProtocolGRPC, vanguard.ProtocolGRPCWeb)}, proto: []vanguard.Protocol{vanguard.ProtocolGRPC, vanguard.ProtocolGRPCWeb}},
		{name: "none", opts: []vanguard.ServiceOption{vanguard.WithTargetProtocols()}, bad: "service with no target protocol", proto: []vanguard.Protocol{}},
		{name: "invalid-99", opts: []vanguard.ServiceOption{vanguard.WithTargetProtocols(vanguard.Protocol(99))}, bad: "invalid protocol value", proto: []vanguard.Protocol{99}},
		{name: "rest-only", opts: []vanguard.ServiceOption{vanguard.WithTargetProtocols(vanguard.ProtocolREST)}, proto: []vanguard.Protocol{vanguard.ProtocolREST}},
	}
}

// c17Opt2 is an effective option value with its derivation.
type c17Opt2 struct {
	protos []vanguard.Protocol
	names  []string
	why    string
}

type c17Codec struct {
	name  string
	opts  []vanguard.ServiceOption
	bad   string
	names []string
}

func c17Codecs() []c17Codec {
	return []c17Codec{
		{name: "unset"},
		{name: "json", opts: []vanguard.ServiceOption{vanguard.WithTargetCodecs("json")}, names: []string{"json"}},
		{name: "alt", opts: []vanguard.ServiceOption{vanguard.WithTargetCodecs("alt")}, names: []string{"alt"}},
		{name: "none", opts: []vanguard.ServiceOption{vanguard.WithTargetCodecs()}, bad: "service with no codec", names: []string{}},
		{name: "unknown", opts: []vanguard.ServiceOption{vanguard.WithTargetCodecs("proto", "nope")}, bad: "unknown codec name", names: []string{"proto", "nope"}},
	}
}

func c17Compressions() []c17Codec {
	return []c17Codec{
		{name: "unset"},
		{name: "rev", opts: []vanguard.ServiceOption{vanguard.WithTargetCompression("rev")}, names: []string{"rev"}},
		{name: "none", opts: []vanguard.ServiceOption{vanguard.WithNoTargetCompression()}, names: []string{}},
		{name: "unknown", opts: []vanguard.ServiceOption{vanguard.WithTargetCompression("gzip", "zstd")}, bad: "unknown compression name", names: []string{"gzip", "zstd"}},
	}
}

type c17Selector struct {
	sel   string
	bad   string
	binds []string // methods of verif.c.Svc (and Other) it names
}

var c17Selectors = []c17Selector{
	{"verif.c.Svc.Get", "", []string{"Svc.Get"}},
	{"verif.c.Svc.Put", "", []string{"Svc.Put"}},
	{"verif.c.Svc.GetMore", "", []string{"Svc.GetMore"}},
	{"verif.c.Svc.*", "", []string{"Svc.Get", "Svc.GetMore", "Svc.Put"}},
	{"verif.c.*", "", []string{"Svc.Get", "Svc.GetMore", "Svc.Put", "Other.Get"}},
	{"*", "", []string{"Svc.Get", "Svc.GetMore", "Svc.Put", "Other.Get"}},
	{"verif.c.Sv*", "wildcard not at a name boundary", nil},
	{"verif.*.Get", "wildcard not at the end", nil},
	{"", "empty selector", nil},
	{"verif.c.Svc.Nope", "selector matches no method", nil},
	{"verif.c.Svc.Ge", "selector matches no method", nil},
	{"verif.c.Svc", "selector matches no method", nil},
}

type c17Pattern struct {
	method, path string
	bad          string
}

var c17Patterns = []c17Pattern{
	{"GET", "/r/{name}", ""}, {"POST", "/r2/x", ""}, {"GET", "/r3/{child.name=a/*}/{extra_text=**}", ""}, {"CUSTOMVERB", "/r4/{name}:act", ""},
	// the custom kind "*" (any HTTP method) on the template the first pattern binds for GET: both can be served
	{"*", "/r/{name}", ""},
	{"GET", "r/x", "template without leading slash"}, {"GET", "/a/**/b", "'**' not last"}, {"GET", "/{name}/{name}", "duplicate variable"},
	{"GET", "/{nope}", "variable names no field"}, {"GET", "/{tags}", "variable names a repeated field"}, {"GET", "/{all.int32_to_string_map}", "variable names a map field"},
	{"GET", "", "blank template"}, {"GET", "/a%zz", "bad escape in template"}, {"GET", "/{child}", "variable names a message field"}, {"", "/r5", "blank HTTP method"},
	{"GET", "/a//b", "empty segment"}, {"GET", "/{name", "unterminated variable"},
	// a custom kind is an HTTP method: a token
	{"GE T", "/r6/x", "HTTP method is not a token"}, {"PU\r\nT", "/r7/x", "HTTP method is not a token"}, {"GET/1", "/r8/x", "HTTP method is not a token"},
}

type c17Body struct{ body, resp, bad string }

var c17Bodies = []c17Body{
	{"", "", ""}, {"*", "", ""}, {"child", "", ""}, {"tags", "child", ""}, {"", "tags", ""},
	{"nope", "", "body names no field"}, {"", "nope", "response_body names no field"}, {"child.name", "", "body selector is a dotted path"}, {"", "child.name", "response_body selector is a dotted path"},
}

func init() {
	svc, other := c17Services()
	protos, codecs, comps := c17Protocols(), c17Codecs(), c17Compressions()
	scn := func(c *xplor.Ctx) {
		var reasons []string
		note := func(r string) {
			if r != "" {
				reasons = append(reasons, r)
			}
		}
		// options: a transcoder-wide default and a per-service setting
		dp, sp := protos[c.Choose("default-protocols", len(protos))], protos[c.Choose("service-protocols", len(protos))]
		dc, sc := codecs[c.Choose("default-codecs", len(codecs))], codecs[c.Choose("service-codecs", len(codecs))]
		dz, sz := comps[c.Choose("default-compression", len(comps))], comps[c.Choose("service-compression", len(comps))]
		// effective = per-service over default over built-in
		effP := []vanguard.Protocol{vanguard.ProtocolConnect, vanguard.ProtocolGRPC, vanguard.ProtocolGRPCWeb}
		pick := func(d, s c17Opt) c17Opt {
			if s.name != "unset" {
				return s
			}
			return d
		}
		ep := pick(dp, sp)
		if ep.name != "unset" {
			effP = ep.proto
			note(ep.bad)
		}
		ec := sc
		if ec.name == "unset" {
			ec = dc
		}
		if ec.name != "unset" {
			note(ec.bad)
		}
		ez := sz
		if ez.name == "unset" {
			ez = dz
		}
		if ez.name != "unset" {
			note(ez.bad)
		}
		// services
		svcMode := c.Choose("services", 6) // 0: Svc, 1: Svc + Other, 2: Svc twice, 3: Svc by name not found, 4: Svc twice from two descriptor instances, 5: only Other (one method in total: the bare "*" selector names exactly one method)
		present := func(m string) bool {
			switch svcMode {
			case 1:
				return true
			case 5:
				return strings.HasPrefix(m, "Other.")
			}
			return !strings.HasPrefix(m, "Other.")
		}
		// the second service may carry options of its own (isolation between services)
		op, oc, oz := sp, sc, sz
		otherOwn := false
		if svcMode == 1 {
			if i := c.Choose("other-protocols", 4); i > 0 {
				op, otherOwn = protos[i-1], true // unset / connect / grpc+grpcweb
			}
			if i := c.Choose("other-codecs", 4); i > 0 {
				oc, otherOwn = codecs[i-1], true // unset / json / alt
			}
			if i := c.Choose("other-compression", 4); i > 0 {
				oz, otherOwn = comps[i-1], true // unset / rev / none
			}
		}
		if svcMode == 1 && otherOwn {
			// the second service's effective options (its own over the default) must be usable, too
			if e := pick(dp, op); e.name != "unset" {
				note(e.bad)
			}
			if e := oc; e.name != "unset" {
				note(e.bad)
			} else if dc.name != "unset" {
				note(dc.bad)
			}
			if e := oz; e.name != "unset" {
				note(e.bad)
			} else if dz.name != "unset" {
				note(dz.bad)
			}
		}
		// rules
		nRules := c.Choose("rules", 3)
		type ruleSpec struct {
			sel  c17Selector
			pat  c17Pattern
			body c17Body
			addl int // 0 none, 1 valid additional binding, 2 nested additional binding, 3 additional binding duplicating the pattern
		}
		var rules []ruleSpec
		for i := 0; i < nRules; i++ {
			r := ruleSpec{sel: c17Selectors[c.Choose(fmt.Sprintf("rule%d-selector", i), len(c17Selectors))], pat: c17Patterns[c.Choose(fmt.Sprintf("rule%d-pattern", i), len(c17Patterns))],
				body: c17Bodies[c.Choose(fmt.Sprintf("rule%d-body", i), len(c17Bodies))], addl: c.Choose(fmt.Sprintf("rule%d-additional", i), 4)}
			if i == 1 && r.pat.path == rules[0].pat.path && r.pat.method == rules[0].pat.method && r.pat.bad == "" {
				// default of the second rule would duplicate the first: shift to the next valid pattern
				r.pat = c17Patterns[1]
			}
			rules = append(rules, r)
		}
		restOnly := len(effP) == 1 && effP[0] == vanguard.ProtocolREST
		// ---- reference verdict
		bound := map[string][]c17Pattern{} // method -> patterns
		for _, r := range rules {
			note(r.sel.bad)
			note(r.pat.bad)
			note(r.body.bad)
			if r.addl == 2 {
				note("nested additional bindings")
			}
			for _, m := range r.sel.binds {
				if !present(m) {
					continue
				}
				bound[m] = append(bound[m], r.pat)
				if r.addl == 1 {
					bound[m] = append(bound[m], c17Pattern{"DELETE", "/extra" + r.pat.path, ""})
				}
				if r.addl == 3 {
					note("duplicate template and method")
				}
			}
			if r.sel.bad == "" {
				n := 0
				for _, m := range r.sel.binds {
					if present(m) {
						n++
					}
				}
				if n == 0 {
					note("selector matches no method")
				}
				if n > 1 && r.pat.bad == "" {
					note("duplicate template and method") // the same template+method for several methods
				}
			}
		}
		if len(rules) == 2 && rules[0].pat.bad == "" && rules[0].pat == rules[1].pat && rules[0].sel.bad == "" && rules[1].sel.bad == "" {
			note("duplicate template and method")
		}
		if len(rules) == 2 && rules[0].pat.bad == "" && rules[1].pat.bad == "" && rules[0].pat.path == rules[1].pat.path && rules[0].addl == 1 && rules[1].addl == 1 && rules[0].sel.bad == "" && rules[1].sel.bad == "" {
			// (two rules on one path, e.g. GET and the kind "*": their additional bindings, derived from the path, coincide)
			note("duplicate template and method")
		}
		switch svcMode {
		case 2, 4:
			note("method registered twice")
		case 3:
			note("service not found")
		}
		restOnlyOther := restOnly // (services=5: the only service carries the per-service options)
		if eo := pick(dp, op); svcMode == 1 && otherOwn {
			restOnlyOther = eo.name != "unset" && len(eo.proto) == 1 && eo.proto[0] == vanguard.ProtocolREST
		}
		if len(reasons) == 0 {
			has, hasO := false, false
			for m := range bound {
				if strings.HasPrefix(m, "Svc.") {
					has = true
				}
				if strings.HasPrefix(m, "Other.") {
					hasO = true
				}
			}
			if restOnly && !has && svcMode != 5 {
				note("REST-only service without bindings")
			}
			if (svcMode == 1 || svcMode == 5) && restOnlyOther && !hasO {
				note("REST-only service without bindings")
			}
		}
		// ---- build the real thing
		type hit struct{ method, codec, comp string }
		var got []hit
		handler := http.HandlerFunc(func(w http.ResponseWriter, r *http.Request) {
			seen := drive.Capture(r)
			f, _, _ := wire.ClassifyRequest(r.Method, r.URL, seen.Header)
			_, hcodec, _ := wire.ClassifyRequest(r.Method, r.URL, seen.Header)
			hcomp := seen.Header.Get("Grpc-Encoding") + seen.Header.Get("Connect-Content-Encoding") + seen.Header.Get("Content-Encoding")
			got = append(got, hit{method: fmt.Sprintf("%s %s via %s", r.Method, r.URL.Path, f.Family()), codec: hcodec, comp: hcomp})
			w.Header().Set("Content-Type", r.Header.Get("Content-Type"))
			w.WriteHeader(200)
		})
		var sopts []vanguard.ServiceOption
		sopts = append(sopts, sp.opts...)
		sopts = append(sopts, sc.opts...)
		sopts = append(sopts, sz.opts...)
		var dopts []vanguard.ServiceOption
		dopts = append(dopts, dp.opts...)
		dopts = append(dopts, dc.opts...)
		dopts = append(dopts, dz.opts...)
		services := []*vanguard.Service{vanguard.NewServiceWithSchema(svc, handler, sopts...)}
		if svcMode == 5 {
			services = []*vanguard.Service{vanguard.NewServiceWithSchema(other, handler, sopts...)}
		}
		switch svcMode {
		case 1:
			var oopts []vanguard.ServiceOption
			oopts = append(oopts, op.opts...)
			oopts = append(oopts, oc.opts...)
			oopts = append(oopts, oz.opts...)
			services = append(services, vanguard.NewServiceWithSchema(other, handler, oopts...))
		case 2:
			services = append(services, vanguard.NewServiceWithSchema(svc, handler, sopts...))
		case 4:
			// the same service (same full name) described by a second, equal descriptor instance
			twin, terr := world.BuildService("verif/c/svc.proto", "verif.c", "Svc", []world.MethodSpec{{Name: "Get"}, {Name: "GetMore"}, {Name: "Put"}})
			if terr != nil {
				c.Fail("harness.setup", "%v", terr)
				return
			}
			services = append(services, vanguard.NewServiceWithSchema(twin, handler, sopts...))
		case 3:
			services = append(services, vanguard.NewService("/no.such.Service/", handler))
		}
		topts := world.ExtraOptions()
		if len(dopts) > 0 {
			// the defaults may come as one option or spread over several (what vanguardgrpc.NewTranscoder
			// plus a caller's own defaults amount to): they accumulate
			if c.Free("default-options-instances", 2) == 1 && len(dopts) > 1 {
				for _, o := range dopts {
					topts = append(topts, vanguard.WithDefaultServiceOptions(o))
				}
			} else {
				topts = append(topts, vanguard.WithDefaultServiceOptions(dopts...))
			}
		}
		var hrs []*annotations.HttpRule
		for _, r := range rules {
			wr := world.Rule{Method: r.pat.method, Path: r.pat.path, Body: r.body.body, RespBody: r.body.resp}
			switch r.addl {
			case 1:
				wr.Extra = []world.Rule{{Method: "DELETE", Path: "/extra" + r.pat.path}}
			case 2:
				wr.Extra = []world.Rule{{Method: "DELETE", Path: "/extra" + r.pat.path, Extra: []world.Rule{{Method: "PUT", Path: "/nested/x"}}}}
			case 3:
				wr.Extra = []world.Rule{{Method: r.pat.method, Path: r.pat.path}}
			}
			hr := wr.ToProto(r.sel.sel)
			if r.pat.method == "" {
				hr.Pattern = &annotations.HttpRule_Custom{Custom: &annotations.CustomHttpPattern{Kind: "", Path: r.pat.path}}
			}
			hrs = append(hrs, hr)
		}
		if len(hrs) > 0 {
			topts = append(topts, vanguard.WithRules(hrs...))
		}
		tc, err := vanguard.NewTranscoder(services, topts...)
		desc := fmt.Sprintf("default[protocols=%s codecs=%s compression=%s] service[protocols=%s codecs=%s compression=%s] other[protocols=%s codecs=%s compression=%s] services=%d rules=%v", dp.name, dc.name, dz.name, sp.name, sc.name, sz.name, op.name, oc.name, oz.name, svcMode, func() []string {
			var out []string
			for _, r := range rules {
				out = append(out, fmt.Sprintf("{selector=%q %s %q body=%q response_body=%q additional=%d}", r.sel.sel, r.pat.method, r.pat.path, r.body.body, r.body.resp, r.addl))
			}
			return out
		}())
		c.Attr("~config", short(desc))
		if len(reasons) > 0 {
			c.Attr("class", reasons[0])
			if len(reasons) == 1 {
				c.Nontrivial(desc)
			}
			if err == nil {
				c.Fail("C17.unservable-configuration-accepted", "NewTranscoder accepted a configuration it cannot serve correctly (%s)\n%s", strings.Join(reasons, "; "), desc)
			}
			c.Outcome("rejected")
			return
		}
		if err != nil {
			c.Attr("class", "valid")
			c.Fail("C17.servable-configuration-rejected", "NewTranscoder rejected a servable configuration: %v\n%s", err, desc)
			c.Outcome("wrongly-rejected")
			return
		}
		c.Outcome("accepted")
		c.Nontrivial(desc)
		// ---- probe traffic: every binding is reachable, and reaches exactly the named method
		for m, pats := range bound {
			for _, pat := range pats {
				t, perr := refroute.Parse(pat.path)
				if perr != nil {
					continue
				}
				url := c17URL(t)
				got = nil
				hm := pat.method
				if hm == "*" {
					hm = "PATCH" // any method no other rule of the alphabet binds on this template
				}
				spec := &drive.ReqSpec{Method: hm, Target: url, Header: http.Header{}, ContentLength: -1, NoBody: true}
				if hm != "GET" {
					spec.NoBody, spec.Body = false, drive.NewBody([]byte(`{}`))
					spec.Header.Set("Content-Type", "application/json")
					if pat.path == "/r2/x" || strings.HasPrefix(pat.path, "/extra") || true {
						// bodies: only rules with a body selector take one; others must be empty
					}
				}
				req, berr := spec.Build(context.Background())
				if berr != nil {
					continue
				}
				rec := drive.NewRecorder()
				if pi := drive.Serve(tc, rec, rec, req, spec.Body); pi != nil {
					c.Fail("C17.panic", "probe %s %s: %s\n%s\n%s", hm, url, pi.Value, stackTop(pi.Stack), desc)
					return
				}
				want := "/verif.c." + strings.Replace(m, ".", "/", 1)
				if (restOnly && strings.HasPrefix(m, "Svc.")) || (restOnlyOther && strings.HasPrefix(m, "Other.")) {
					want = url // a REST backend is addressed by the binding's own URL
				}
				if len(got) != 1 || !strings.Contains(got[0].method, want+" ") {
					if rec.Status == 400 || rec.Status == 415 {
						continue // the probe's body did not suit the rule's body selector; reachability is not in question
					}
					c.Attr("class", "binding-unreachable")
					c.Fail("C17.binding-not-honoured", "binding %s %s of method %s: probe %s %s reached %v (HTTP %d), want exactly %s\n%s", pat.method, pat.path, m, hm, url, got, rec.Status, want, desc)
				}
			}
		}
		// a method that no selector names must not have become reachable through the rules' URLs
		// (covered above: each probe must reach exactly the named method)
		// ---- effective options: per-service over default, separately for every service
		probe := func(svcName, method string, p, cdc, cmp c17Opt2) bool {
			got = nil
			cr := &wire.ClientReq{Form: wire.GRPCWeb, Path: "/verif.c." + svcName + "/" + method, Codec: "proto", Compression: "rev", Accept: []string{"rev"}, Msgs: [][]byte{Enc("proto", MkMsg(`{"name":"x"}`))}}
			spec := world.SpecFromClient(cr)
			req, _ := spec.Build(context.Background())
			rec := drive.NewRecorder()
			if pi := drive.Serve(tc, rec, rec, req, spec.Body); pi != nil {
				c.Fail("C17.panic", "probe gRPC-Web %s/%s: %s\n%s", svcName, method, pi.Value, desc)
				return false
			}
			if len(got) != 1 {
				return true
			}
			fam := got[0].method[strings.LastIndex(got[0].method, " ")+1:]
			ok := false
			for _, pp := range p.protos {
				if world.FormToProtocol(map[string]wire.Form{"connect": wire.ConnectUnary, "grpc": wire.GRPC, "grpc-web": wire.GRPCWeb, "rest": wire.REST}[fam]) == pp {
					ok = true
				}
			}
			if !ok {
				c.Attr("class", "options-not-honoured")
				c.Fail("C17.options-not-honoured", "service %s: effective target protocols are %v (%s) but the backend was addressed via %s\n%s", svcName, p.protos, p.why, fam, desc)
			}
			if fam != "rest" {
				okc := false
				for _, n := range cdc.names {
					if n == got[0].codec {
						okc = true
					}
				}
				if !okc {
					c.Attr("class", "options-not-honoured")
					c.Fail("C17.options-not-honoured", "service %s: effective target codecs are %v (%s) but the backend was addressed in codec %q\n%s", svcName, cdc.names, cdc.why, got[0].codec, desc)
				}
			}
			okz := got[0].comp == "" || got[0].comp == "identity"
			for _, n := range cmp.names {
				if n == got[0].comp {
					okz = true
				}
			}
			if !okz {
				c.Attr("class", "options-not-honoured")
				c.Fail("C17.options-not-honoured", "service %s: effective target compressions are %v (%s) but the backend received a request compressed with %q\n%s", svcName, cmp.names, cmp.why, got[0].comp, desc)
			}
			return true
		}
		eff := func(d, sv c17Opt, dcd, scd, dzc, szc c17Codec) (c17Opt2, c17Opt2, c17Opt2) {
			var p, cdc, cmp c17Opt2
			p.protos, p.why = []vanguard.Protocol{vanguard.ProtocolConnect, vanguard.ProtocolGRPC, vanguard.ProtocolGRPCWeb}, "built-in default"
			if e := pick(d, sv); e.name != "unset" {
				p.protos, p.why = e.proto, fmt.Sprintf("per-service %s over default %s", sv.name, d.name)
			}
			cdc.names, cdc.why = []string{"proto", "json"}, "built-in default"
			e := scd
			if e.name == "unset" {
				e = dcd
			}
			if e.name != "unset" {
				cdc.names, cdc.why = e.names, fmt.Sprintf("per-service %s over default %s", scd.name, dcd.name)
			}
			cmp.names, cmp.why = []string{"gzip"}, "built-in default"
			e = szc
			if e.name == "unset" {
				e = dzc
			}
			if e.name != "unset" {
				cmp.names, cmp.why = e.names, fmt.Sprintf("per-service %s over default %s", szc.name, dzc.name)
			}
			return p, cdc, cmp
		}
		// ---- isolation: a service in a Transcoder with another service is served exactly as alone
		if svcMode == 1 {
			view := func(t *vanguard.Transcoder, svcName, comp, codec string, form wire.Form) string {
				got = nil
				cr := &wire.ClientReq{Form: form, Path: "/verif.c." + svcName + "/Get", Codec: codec, Compression: comp, Msgs: [][]byte{Enc(codec, MkMsg(`{"name":"x"}`))}}
				if comp != "" {
					cr.Accept = []string{comp}
				}
				spec := world.SpecFromClient(cr)
				req, _ := spec.Build(context.Background())
				rec := drive.NewRecorder()
				if pi := drive.Serve(t, rec, rec, req, spec.Body); pi != nil {
					return "PANIC " + pi.Value
				}
				v := fmt.Sprintf("status=%d calls=%d", rec.Status, len(got))
				for _, g := range got {
					v += fmt.Sprintf(" [%s codec=%s compression=%s]", g.method, g.codec, g.comp)
				}
				return v
			}
			soloOf := func(sd protoreflect.ServiceDescriptor, o []vanguard.ServiceOption) *vanguard.Transcoder {
				t, err := vanguard.NewTranscoder([]*vanguard.Service{vanguard.NewServiceWithSchema(sd, handler, o...)}, topts...)
				if err != nil {
					return nil // (e.g. the rules name methods of the other service)
				}
				return t
			}
			var oopts []vanguard.ServiceOption
			oopts = append(oopts, op.opts...)
			oopts = append(oopts, oc.opts...)
			oopts = append(oopts, oz.opts...)
			for _, sv := range []struct {
				name string
				solo *vanguard.Transcoder
			}{{"Svc", soloOf(svc, sopts)}, {"Other", soloOf(other, oopts)}} {
				if sv.solo == nil {
					continue
				}
				for _, pr := range []struct {
					comp, codec string
					form        wire.Form
				}{{"gzip", "proto", wire.GRPCWeb}, {"rev", "proto", wire.GRPCWeb}, {"", "json", wire.ConnectUnary}, {"gzip", "json", wire.ConnectUnary}, {"", "alt", wire.GRPC}} {
					alone, together := view(sv.solo, sv.name, pr.comp, pr.codec, pr.form), view(tc, sv.name, pr.comp, pr.codec, pr.form)
					if alone != together {
						c.Attr("class", "options-not-honoured")
						c.Fail("C17.options-not-honoured", "service %s is served differently next to another service than alone (%s %s request, compression %q)\n alone:    %s\n together: %s\n%s", sv.name, pr.form, pr.codec, pr.comp, alone, together, desc)
					}
				}
			}
		}
		p1, c1, z1 := eff(dp, sp, dc, sc, dz, sz)
		if svcMode == 5 {
			probe("Other", "Get", p1, c1, z1)
			return
		}
		if !probe("Svc", "Get", p1, c1, z1) {
			return
		}
		if svcMode == 1 {
			p2, c2, z2 := eff(dp, op, dc, oc, dz, oz)
			if otherOwn {
				c.Nontrivial("other-own-options|" + desc + "|" + op.name + oc.name + oz.name)
			}
			probe("Other", "Get", p2, c2, z2)
		}
	}
	Register(&Check{
		ID:    "C17",
		Level: "exploration",
		Rule: "All combinations up to D deviations from a plain configuration: target protocols (6 settings incl. none, an invalid value, REST-only), codecs (5 incl. none, unknown, the extra codec), compressions (4 incl. unknown), each given as transcoder-wide default and/or per service (conflicting); one service, two services (the second with options of its own), the same service twice (same descriptor, or two equal descriptor instances), an unresolvable service; " +
			"0-2 WithRules rules with selector (12: exact names incl. one that is a prefix of another method, '.*' forms, '*', misplaced wildcards, empty, no match), pattern (20: 5 valid incl. the custom kind '*' beside GET on one template, 15 invalid), body/response_body (9 incl. unknown and dotted), additional bindings (valid, nested, duplicate). " +
			"Oracle: an independent predicate built from the property's rejection classes; accepted configurations are probed (every binding reachable through the URL built from its template and reaching exactly the named method; effective per-service-over-default options). Non-trivial = configurations with exactly one rejection reason, and accepted ones. Before that, serially: two Transcoders of one process built in both orders, one of which registers a compression / codec / gzip override of its own - the other must reject a service naming it, and must keep its own gzip.",
		Assume:      []string{"limits of 0 and other settings the property does not list are not varied"},
		Scenarios:   []Scenario{{Name: "instances", Fn: c17InstancesScenario, QuickBound: 2, ThoroughBound: 2, Serial: true, StopIfViolated: true}, {Name: "configurations", Fn: scn, QuickBound: 3, ThoroughBound: 4}},
		MinOutcomes: 2,
	})
}

// c17URL instantiates a template with the value "v" for every wildcard.
func c17URL(t *refroute.Template) string {
	canon := t.Canon()
	canon = strings.ReplaceAll(canon, "**", "v/w")
	canon = strings.ReplaceAll(canon, "*", "v")
	return canon
}
