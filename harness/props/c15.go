package props

import (
	"bytes"
	"context"
	"encoding/base64"
	"encoding/binary"
	"fmt"
	"google.golang.org/genproto/googleapis/api/httpbody"
	"io"
	"net/http"
	"os"
	"strings"
	"time"

	"connectrpc.com/vanguard"
	"connectrpc.com/vanguard/internal/verifsync"
	"google.golang.org/protobuf/proto"

	"connectrpc.com/vanguard/verifharness/drive"
	"connectrpc.com/vanguard/verifharness/sched"
	"connectrpc.com/vanguard/verifharness/wire"
	"connectrpc.com/vanguard/verifharness/world"
)

// C15 — the outcome of an RPC is independent of earlier traffic.
//
// Explicit-state search over request histories: a state is the history that reached it;
// the successor is "replay the history on a fresh Transcoder + one more request" (live
// objects do not clone). Every history up to the depth bound is executed, then every probe;
// the probe's outcome must equal its outcome on a fresh Transcoder.

type c15Req struct {
	name    string
	form    wire.Form
	spec    func() *drive.ReqSpec
	respond func(b *world.Backend, r *http.Request) *world.Reply
	raw     func(b *world.Backend, w http.ResponseWriter, r *http.Request)
	close   bool
}

type c15World struct {
	name    string
	cfg     world.Config
	history []c15Req
	probes  []c15Req
}

func c15Worlds() []c15World {
	big := MkMsg(`{"name":"big","extraText":"` + strings.Repeat("payload-", 60) + `"}`)
	huge := MkMsg(`{"name":"huge","extraText":"` + strings.Repeat("H", 5000) + `"}`)
	small := MkMsg(`{"name":"small","num":3}`)
	other := MkMsg(`{"name":"other","tags":["t1","t2"],"seq":"9"}`)
	echo := func(msgs ...string) func(b *world.Backend, r *http.Request) *world.Reply {
		return func(b *world.Backend, r *http.Request) *world.Reply {
			req := b.Parsed
			if b.Seen.ReadErr != "" || len(req.Complaints) > 0 {
				return world.EchoReply(req, nil, "", &wire.End{Code: 3, Message: "bad request: " + b.Seen.ReadErr + fmt.Sprint(req.Complaints)})
			}
			var out [][]byte
			for _, m := range msgs {
				out = append(out, Enc(req.Codec, MkMsg(m)))
			}
			return world.EchoReply(req, out, world.PickAccepted(req, "gzip"), nil)
		}
	}
	mk := func(name string, form wire.Form, method, codec, comp string, reply func(b *world.Backend, r *http.Request) *world.Reply, mut func(*drive.ReqSpec), msgs ...protoMessage) c15Req {
		return c15Req{name: name, form: form, close: true, respond: reply, spec: func() *drive.ReqSpec {
			cr := &wire.ClientReq{Form: form, Path: world.SvcPath + method, Codec: codec, Compression: comp, Accept: []string{"gzip"}}
			for _, m := range msgs {
				cr.Msgs = append(cr.Msgs, Enc(codec, m))
			}
			s := world.SpecFromClient(cr)
			if mut != nil {
				mut(s)
			}
			return s
		}}
	}
	flip := func(fromEnd int) func(*drive.ReqSpec) {
		return func(s *drive.ReqSpec) {
			d := append([]byte(nil), s.Body.Data...)
			d[len(d)-fromEnd] ^= 0x40
			s.Body.Data = d
		}
	}
	cut := func(at int) func(*drive.ReqSpec) {
		return func(s *drive.ReqSpec) {
			s.Body.FailAt, s.Body.FailErr = at, fmt.Errorf("connection reset by peer")
		}
	}
	okReply := echo(`{"name":"ok","extraText":"` + strings.Repeat("r", 200) + `"}`)
	w1 := c15World{name: "target=gRPC/proto/gzip", cfg: world.Config{Protocols: []vanguard.Protocol{vanguard.ProtocolGRPC}, Codecs: []string{"proto"}, Compression: []string{"gzip"}, MaxMsg: 8000}}
	clean := []c15Req{
		mk("web-json-gzip", wire.GRPCWeb, "Unary", "json", "gzip", okReply, nil, big),
		mk("cunary-proto", wire.ConnectUnary, "Unary", "proto", "", echo(`{"name":"p2"}`), nil, small),
		mk("cstream-json-bidi", wire.ConnectStream, "Bidi", "json", "gzip", echo(`{"name":"b1"}`, `{"name":"b2","num":5}`), nil, small, other),
		mk("cunary-json-gzip-5k", wire.ConnectUnary, "Unary", "json", "gzip", echo(`{"name":"p4","extraText":"`+strings.Repeat("z", 5000)+`"}`), nil, huge),
		mk("cget", wire.ConnectGet, "Pure", "json", "", echo(`{"name":"p5"}`), nil, small),
		mk("web-proto-sstream", wire.GRPCWeb, "SStream", "json", "", echo(`{"name":"s1"}`, `{}`, `{"name":"s3"}`), nil, other),
	}
	panicReply := func(after bool) func(b *world.Backend, w http.ResponseWriter, r *http.Request) {
		return func(b *world.Backend, w http.ResponseWriter, r *http.Request) {
			if after {
				w.Header().Set("Content-Type", "application/grpc+proto")
				w.WriteHeader(200)
				_, _ = w.Write([]byte{0, 0, 0, 0, 2, 0x0a})
			}
			panic("backend exploded")
		}
	}
	hostile := []c15Req{
		mk("unknown-method", wire.GRPCWeb, "Nope", "json", "", okReply, nil, small),
		mk("bad-timeout", wire.GRPCWeb, "Unary", "json", "gzip", okReply, func(s *drive.ReqSpec) { s.Header.Set("Grpc-Timeout", "xyz") }, big),
		mk("cut-mid-envelope", wire.GRPCWeb, "Unary", "json", "gzip", okReply, cut(3), big),
		mk("cut-mid-payload", wire.GRPCWeb, "Unary", "json", "gzip", okReply, cut(20), big),
		mk("cut-flat-body", wire.ConnectUnary, "Unary", "proto", "", okReply, cut(9), big),
		mk("over-limit", wire.ConnectUnary, "Unary", "json", "", okReply, nil, MkMsg(`{"extraText":"`+strings.Repeat("L", 9000)+`"}`)),
		mk("gzip-bad-header", wire.GRPCWeb, "Unary", "json", "gzip", okReply, func(s *drive.ReqSpec) {
			d := append([]byte(nil), s.Body.Data...)
			d[5+2] = 0x07
			s.Body.Data = d
		}, big),
		mk("gzip-bad-body", wire.GRPCWeb, "Unary", "json", "gzip", okReply, flip(20), big),
		mk("gzip-bad-crc", wire.GRPCWeb, "Unary", "json", "gzip", okReply, flip(6), big),
		mk("gzip-bad-flat", wire.ConnectUnary, "Unary", "json", "gzip", okReply, flip(12), big),
		mk("undecodable", wire.GRPCWeb, "Unary", "json", "", okReply, func(s *drive.ReqSpec) { s.Body.Data = wire.AppendFrame(nil, 0, []byte(`{"name":`)) }, small),
		mk("corrupt-gzip-response", wire.GRPCWeb, "Unary", "json", "gzip", func(b *world.Backend, r *http.Request) *world.Reply {
			rep := okReply(b, r)
			if len(rep.Out.Body) > 20 {
				rep.Out.Body = append([]byte(nil), rep.Out.Body...)
				rep.Out.Body[15] ^= 0x21
			}
			return rep
		}, nil, big),
		mk("undecodable-gzip-response", wire.GRPCWeb, "Unary", "json", "gzip", func(b *world.Backend, r *http.Request) *world.Reply {
			rep := okReply(b, r)
			out := *rep.Out
			offs := frameOffsets(out.Body)
			if len(offs) > 0 {
				first := offs[0] + 5 + int(binary.BigEndian.Uint32(out.Body[offs[0]+1:]))
				out.Body = append(wire.AppendFrame(nil, 1, wire.GzipCompress(bytes.Repeat([]byte{0xff, 0xff, 0x07}, 120))), out.Body[first:]...)
				out.Header = out.Header.Clone()
				out.Header.Set("Grpc-Encoding", "gzip")
				rep.Out = &out
			}
			return rep
		}, nil, big),
		mk("early-return", wire.GRPCWeb, "Unary", "json", "gzip", func(b *world.Backend, r *http.Request) *world.Reply {
			rep := okReply(b, r)
			rep.ReturnAfter = 9
			return rep
		}, nil, big),
	}
	pb, pa := mk("backend-panic-before-write", wire.GRPCWeb, "Unary", "json", "gzip", nil, nil, big), mk("backend-panic-after-write", wire.ConnectUnary, "Unary", "json", "gzip", nil, nil, big)
	pb.raw, pa.raw = panicReply(false), panicReply(true)
	hostile = append(hostile, pb, pa)
	// requests for a method nobody configured, in two protocols: the answer (404) is built from what the
	// package keeps for "not found", which no earlier request may have changed
	hostile = append(hostile, mk("unknown-method-grpc", wire.GRPC, "Nope", "proto", "", okReply, nil, small))
	w1.history = append(append([]c15Req{}, clean...), hostile...)
	w1.probes = append(append([]c15Req{}, clean...), mk("unknown-method-connect", wire.ConnectUnary, "Nope", "json", "", okReply, nil, small))
	// world 2: REST target (route targets, path/query encoding are shared per-rule state)
	w2 := c15World{name: "target=REST", cfg: world.Config{Protocols: []vanguard.Protocol{vanguard.ProtocolREST}, MaxMsg: 8000}}
	restEcho := echo(`{"name":"rest-ok"}`)
	r1 := mk("pure-a", wire.GRPCWeb, "Pure", "proto", "", restEcho, nil, MkMsg(`{"name":"alpha","num":1}`))
	r2 := mk("pure-b", wire.ConnectUnary, "Pure", "json", "", restEcho, nil, MkMsg(`{"name":"beta/x","num":2,"tags":["q"]}`))
	r3 := mk("idem-a", wire.GRPCWeb, "Idem", "proto", "gzip", restEcho, nil, MkMsg(`{"name":"k1","child":{"name":"c1"}}`))
	r4 := mk("idem-b", wire.GRPCWeb, "Idem", "json", "", restEcho, nil, MkMsg(`{"name":"k2","child":{"num":5},"extraText":"q"}`))
	r5 := mk("multi", wire.ConnectUnary, "Multi", "proto", "", restEcho, nil, MkMsg(`{"name":"a/b/c"}`))
	r6 := mk("multi-2", wire.ConnectUnary, "Multi", "proto", "", restEcho, nil, MkMsg(`{"name":"z"}`))
	r7 := mk("nested", wire.GRPCWeb, "Nested", "json", "", echo(`{"child":{"name":"resp-child"}}`), nil, MkMsg(`{"child":{"name":"nn"},"tags":["t"]}`))
	r8 := mk("rest-bad-var", wire.GRPCWeb, "Scalar", "json", "", restEcho, nil, MkMsg(`{"child":{"child":{"name":"not-matching"}},"num":4}`))
	// a backend that answers before it has read the request (legal: the response does not
	// depend on the body) and only then drains it - for a request that turns out broken
	earlyAnswer := func(name string, form wire.Form, method, codec, comp string, mut func(*drive.ReqSpec), m protoMessage) c15Req {
		q := mk(name, form, method, codec, comp, nil, mut, m)
		q.raw = func(b *world.Backend, w http.ResponseWriter, r *http.Request) {
			w.Header().Set("Content-Type", "application/json")
			w.WriteHeader(200)
			_, _ = w.Write([]byte(`{"name":"answered-early","extraText":"` + strings.Repeat("e", 300) + `"}`))
			if f, ok := w.(http.Flusher); ok {
				f.Flush()
			}
			_, _ = io.Copy(io.Discard, r.Body)
		}
		return q
	}
	r9 := earlyAnswer("early-answer-then-corrupt-gzip", wire.ConnectUnary, "Unary", "proto", "gzip", flip(12), big)
	r10 := earlyAnswer("early-answer-then-cut-body", wire.GRPCWeb, "Unary", "proto", "", cut(9), big)
	r11 := earlyAnswer("early-answer-clean", wire.ConnectUnary, "Unary", "proto", "gzip", nil, big)
	w2.history = []c15Req{r1, r2, r3, r4, r5, r6, r7, r8, r9, r10, r11}
	w2.probes = []c15Req{r1, r2, r3, r5, r7}
	// world 3: gRPC-Web target reached by re-framing only (same codec): the end of the
	// response is a frame in the body that the transcoder has to buffer and decode
	w3 := c15World{name: "target=gRPC-Web/proto/gzip (re-framing)", cfg: world.Config{Protocols: []vanguard.Protocol{vanguard.ProtocolGRPCWeb}, Codecs: []string{"proto"}, Compression: []string{"gzip"}, MaxMsg: 8000}}
	webOK := echo(`{"name":"web-ok","extraText":"` + strings.Repeat("w", 100) + `"}`)
	badTrailer := func(name string, mut func(out *wire.ServerOut)) c15Req {
		return mk(name, wire.GRPC, "Unary", "proto", "gzip", func(b *world.Backend, r *http.Request) *world.Reply {
			rep := webOK(b, r)
			out := *rep.Out
			out.Body = append([]byte(nil), out.Body...)
			mut(&out)
			rep.Out = &out
			return rep
		}, nil, big)
	}
	lastFrame := func(body []byte) int {
		offs := frameOffsets(body)
		return offs[len(offs)-1]
	}
	g1 := mk("grpc-proto-gzip", wire.GRPC, "Unary", "proto", "gzip", webOK, nil, big)
	g2 := mk("connect-stream-proto", wire.ConnectStream, "Bidi", "proto", "", echo(`{"name":"c1"}`, `{"name":"c2"}`), nil, small, other)
	g3 := mk("grpc-proto-sstream", wire.GRPC, "SStream", "proto", "", echo(`{"name":"s1"}`, `{}`), nil, other)
	w3.history = []c15Req{g1, g2, g3,
		badTrailer("trailer-frame-without-colon", func(out *wire.ServerOut) {
			o := lastFrame(out.Body)
			out.Body = wire.AppendFrame(out.Body[:o], 0x80, []byte("grpc-status 0\r\n"))
		}),
		badTrailer("trailer-frame-flagged-compressed-not-gzip", func(out *wire.ServerOut) {
			o := lastFrame(out.Body)
			out.Body = wire.AppendFrame(out.Body[:o], 0x81, []byte("grpc-status: 0\r\n"))
		}),
		badTrailer("trailer-frame-truncated", func(out *wire.ServerOut) { out.Body = out.Body[:len(out.Body)-3] }),
		badTrailer("trailer-frame-oversized", func(out *wire.ServerOut) {
			o := lastFrame(out.Body)
			out.Body = wire.AppendFrame(out.Body[:o], 0x80, []byte("grpc-status: 0\r\nx-pad: "+strings.Repeat("p", 9000)+"\r\n"))
		}),
		badTrailer("message-frame-flagged-compressed-not-gzip", func(out *wire.ServerOut) { out.Body[0] = 1; out.Body[7] ^= 0x55 }),
		mk("cut-mid-envelope", wire.GRPC, "Unary", "proto", "gzip", webOK, cut(3), big),
		mk("over-limit", wire.GRPC, "Unary", "proto", "", webOK, nil, MkMsg(`{"extraText":"`+strings.Repeat("L", 9000)+`"}`)),
	}
	w3.probes = []c15Req{g1, g2, g3, mk("web-json-gzip", wire.GRPCWeb, "Unary", "json", "gzip", webOK, nil, big)}
	// world 4: two services whose type resolvers differ (a generated service resolves against
	// the global registry, the dynamic one against its own files): nothing resolved for one
	// service may stick for the other. The probe carries a google.protobuf.Any of a type that
	// only the dynamic service's resolver knows.
	w4 := c15World{name: "two services, different resolvers (target gRPC/proto)", cfg: world.Config{Protocols: []vanguard.Protocol{vanguard.ProtocolGRPC}, Codecs: []string{"proto"}, NoCompress: true, MaxMsg: 8000,
		MoreServices: func(h http.Handler) []*vanguard.Service {
			return []*vanguard.Service{vanguard.NewService("vanguard.test.v1.LibraryService", h, vanguard.WithTargetProtocols(vanguard.ProtocolGRPC), vanguard.WithTargetCodecs("proto"))}
		}}}
	anyMsg := MkMsg(`{"name":"outer","anyValue":{"@type":"type.googleapis.com/verif.v1.Msg","name":"inside any","num":3}}`)
	libReq := func(name string, form wire.Form, codec string) c15Req {
		q := c15Req{name: name, form: form, close: true, spec: func() *drive.ReqSpec {
			cr := &wire.ClientReq{Form: form, Path: "/vanguard.test.v1.LibraryService/GetBook", Codec: codec, Msgs: [][]byte{[]byte(`{"name":"shelves/1/books/2"}`)}}
			return world.SpecFromClient(cr)
		}}
		q.raw = func(b *world.Backend, w http.ResponseWriter, r *http.Request) {
			// an empty Book, as a gRPC response
			w.Header().Set("Content-Type", "application/grpc+proto")
			w.WriteHeader(200)
			_, _ = w.Write([]byte{0, 0, 0, 0, 0})
			w.Header().Set(http.TrailerPrefix+"Grpc-Status", "0")
		}
		return q
	}
	a1 := mk("any-connect-json", wire.ConnectUnary, "Unary", "json", "", echo(`{"name":"r","anyValue":{"@type":"type.googleapis.com/verif.v1.Msg","name":"answer"}}`), nil, anyMsg)
	a2 := mk("any-grpcweb-json", wire.GRPCWeb, "Unary", "json", "", echo(`{"name":"r2"}`), nil, anyMsg)
	a3 := mk("plain-connect-json", wire.ConnectUnary, "Unary", "json", "", echo(`{"name":"r3"}`), nil, small)
	w4.history = []c15Req{libReq("library-connect-json", wire.ConnectUnary, "json"), libReq("library-grpcweb-json", wire.GRPCWeb, "json"), a1, a2, a3}
	w4.probes = []c15Req{a1, a2, a3, libReq("library-connect-json", wire.ConnectUnary, "json")}
	// world 5: a flat (Connect unary) target with another codec than the client's: the response
	// is buffered for flat clients, and a backend may answer before it has read the request
	w5 := c15World{name: "target=Connect/proto/no compression (flat, re-encoding)", cfg: world.Config{Protocols: []vanguard.Protocol{vanguard.ProtocolConnect}, Codecs: []string{"proto"}, NoCompress: true, MaxMsg: 8000}}
	early := func(name string, form wire.Form, codec, comp string, mut func(*drive.ReqSpec)) c15Req {
		q := mk(name, form, "Unary", codec, comp, nil, mut, big)
		q.raw = func(b *world.Backend, w http.ResponseWriter, r *http.Request) {
			w.Header().Set("Content-Type", "application/proto")
			w.WriteHeader(200)
			_, _ = w.Write(Enc("proto", MkMsg(`{"name":"answered-early","extraText":"`+strings.Repeat("e", 300)+`"}`)))
			if f, ok := w.(http.Flusher); ok {
				f.Flush()
			}
			_, _ = io.Copy(io.Discard, r.Body)
		}
		return q
	}
	f1 := mk("cunary-json-gzip", wire.ConnectUnary, "Unary", "json", "gzip", echo(`{"name":"f1","extraText":"`+strings.Repeat("f", 200)+`"}`), nil, big)
	f2 := mk("web-json", wire.GRPCWeb, "Unary", "json", "", echo(`{"name":"f2"}`), nil, small)
	f3 := mk("cget-json-gzip", wire.ConnectGet, "Pure", "json", "gzip", echo(`{"name":"f3"}`), nil, small)
	w5.history = []c15Req{f1, f2, f3,
		early("early-answer-then-corrupt-gzip", wire.ConnectUnary, "json", "gzip", flip(12)),
		early("early-answer-then-cut-body", wire.ConnectUnary, "json", "", cut(9)),
		early("early-answer-then-undecodable", wire.ConnectUnary, "json", "", func(s *drive.ReqSpec) { s.Body.Data = []byte(`{"name":`) }),
		early("early-answer-clean", wire.ConnectUnary, "json", "gzip", nil),
		early("early-answer-web-corrupt-gzip", wire.GRPCWeb, "json", "gzip", flip(20)),
		// a failure whose body is larger than the message limit (and one that merely is large)
		func() c15Req {
			q := mk("oversized-error-body", wire.GRPCWeb, "Unary", "json", "", nil, nil, small)
			q.raw = func(b *world.Backend, w http.ResponseWriter, r *http.Request) {
				_, _ = io.Copy(io.Discard, r.Body)
				w.Header().Set("Content-Type", "application/json")
				w.WriteHeader(503)
				_, _ = w.Write([]byte(`{"code":"unavailable","message":"` + strings.Repeat("x", 9000) + `"}`))
			}
			return q
		}(),
		func() c15Req {
			q := mk("large-error-body", wire.ConnectUnary, "Unary", "json", "gzip", nil, nil, big)
			q.raw = func(b *world.Backend, w http.ResponseWriter, r *http.Request) {
				_, _ = io.Copy(io.Discard, r.Body)
				w.Header().Set("Content-Type", "application/json")
				w.WriteHeader(429)
				_, _ = w.Write([]byte(`{"code":"resource_exhausted","message":"` + strings.Repeat("y", 5000) + `"}`))
			}
			return q
		}(),
	}
	w5.probes = []c15Req{f1, f2, f3}
	// world 6: the same target with request compression: a GET issued toward the backend
	// carries its (compressed) message in the URL
	w6 := c15World{name: "target=Connect/proto/gzip (GET issued with a compressed message)", cfg: world.Config{Protocols: []vanguard.Protocol{vanguard.ProtocolConnect}, Codecs: []string{"proto"}, Compression: []string{"gzip"}, MaxMsg: 8000}}
	restGet := c15Req{name: "rest-get-declaring-gzip", form: wire.REST, close: true, respond: echo(`{"name":"g2"}`), spec: func() *drive.ReqSpec {
		return &drive.ReqSpec{Method: "GET", Target: "/v1/pure/abc?num=3", Header: http.Header{"Content-Encoding": {"gzip"}, "Accept-Encoding": {"gzip"}}, ContentLength: -1, NoBody: true}
	}}
	w6.history = []c15Req{f3, restGet, f1, mk("cget-json-plain", wire.ConnectGet, "Pure", "json", "", echo(`{"name":"g4"}`), nil, small)}
	w6.probes = []c15Req{f1, f3, f2}
	// world 7: REST clients whose bodies are google.api.HttpBody payloads (the decoded message's
	// bytes may alias the buffer the body was read into) toward an uncompressed gRPC target,
	// and HttpBody responses on the way back
	w7 := c15World{name: "REST HttpBody uploads and downloads (target gRPC/proto, no compression)", cfg: world.Config{Protocols: []vanguard.Protocol{vanguard.ProtocolGRPC}, Codecs: []string{"proto"}, NoCompress: true, MaxMsg: 8000}}
	hbReply := func(ct string, n int) func(b *world.Backend, r *http.Request) *world.Reply {
		return func(b *world.Backend, r *http.Request) *world.Reply {
			hb := MkMsgOf((&httpbody.HttpBody{}).ProtoReflect().Descriptor(), `{"contentType":"`+ct+`","data":"`+base64.StdEncoding.EncodeToString([]byte(strings.Repeat("download!", n)))+`"}`)
			return world.EchoReply(b.Parsed, [][]byte{Enc(b.Parsed.Codec, hb)}, "", nil)
		}
	}
	restUp := func(name, target, ct string, n int, reply func(b *world.Backend, r *http.Request) *world.Reply) c15Req {
		return c15Req{name: name, form: wire.REST, close: true, respond: reply, spec: func() *drive.ReqSpec {
			return &drive.ReqSpec{Method: "POST", Target: target, Header: http.Header{"Content-Type": {ct}}, ContentLength: -2, Body: drive.NewBody([]byte(strings.Repeat("upload-bytes.", n)))}
		}}
	}
	u1 := restUp("rest-raw-upload-300", "/v1/raw", "application/octet-stream", 24, hbReply("image/png", 30))
	u2 := restUp("rest-raw-upload-3000", "/v1/raw", "text/plain", 240, hbReply("text/plain", 3))
	u3 := restUp("rest-blob-upload", "/v1/blob/f1?num=2", "application/x-thing", 40, echo(`{"name":"f1","body":{"contentType":"a/b","data":"`+base64.StdEncoding.EncodeToString([]byte(strings.Repeat("blob.", 50)))+`"}}`))
	u4 := mk("web-json-small", wire.GRPCWeb, "Unary", "json", "", echo(`{"name":"w4","extraText":"`+strings.Repeat("r", 300)+`"}`), nil, small)
	u5 := c15Req{name: "rest-download-stream", form: wire.REST, close: true, respond: echo(`{"body":{"contentType":"x/y","data":"`+base64.StdEncoding.EncodeToString([]byte(strings.Repeat("part-1.", 40)))+`"}}`, `{"body":{"data":"`+base64.StdEncoding.EncodeToString([]byte(strings.Repeat("part-2.", 4)))+`"}}`), spec: func() *drive.ReqSpec {
		return &drive.ReqSpec{Method: "GET", Target: "/v1/down/d1", Header: http.Header{}, ContentLength: -1, NoBody: true}
	}}
	// the same method through its second binding, which has no response_body: the whole message as JSON
	u6 := c15Req{name: "rest-blob-meta (same method, binding without response_body)", form: wire.REST, close: true, respond: echo(`{"name":"f1","num":7,"body":{"contentType":"a/b","data":"` + base64.StdEncoding.EncodeToString([]byte("meta")) + `"}}`), spec: func() *drive.ReqSpec {
		return &drive.ReqSpec{Method: "GET", Target: "/v1/blobmeta/f1", Header: http.Header{}, ContentLength: -1, NoBody: true}
	}}
	w7.history = []c15Req{u1, u2, u3, u4, u5, u6}
	w7.probes = []c15Req{u1, u3, u4, u5, u6}
	// world 8: REST client and REST backend that differ only in compression, with HttpBody
	// payloads: nothing is re-encoded, bodies are only inflated / deflated
	w8 := c15World{name: "REST to REST, HttpBody payloads, compression differs (target REST, no compression)", cfg: world.Config{Protocols: []vanguard.Protocol{vanguard.ProtocolREST}, NoCompress: true, MaxMsg: 20000}}
	restRaw := func(name, target string, reqGzip bool, up string, respGzip bool, down string) c15Req {
		q := c15Req{name: name, form: wire.REST, close: true, spec: func() *drive.ReqSpec {
			body := []byte(up)
			h := http.Header{"Content-Type": {"application/octet-stream"}, "Accept-Encoding": {"gzip"}}
			if reqGzip {
				body = wire.GzipCompress(body)
				h.Set("Content-Encoding", "gzip")
			}
			return &drive.ReqSpec{Method: "POST", Target: target, Header: h, ContentLength: -2, Body: drive.NewBody(body)}
		}}
		q.raw = func(b *world.Backend, w http.ResponseWriter, r *http.Request) {
			b.Seen.ReadBody(r.Body, nil)
			out := []byte(down)
			w.Header().Set("Content-Type", "image/png")
			if respGzip {
				out = wire.GzipCompress(out)
				w.Header().Set("Content-Encoding", "gzip")
			}
			w.WriteHeader(200)
			_, _ = w.Write(out)
		}
		return q
	}
	long := strings.Repeat("0123456789abcdef", 400)
	x1 := restRaw("rest-raw-gzip-both-6400", "/v1/raw", true, strings.Repeat("upload-bytes.", 30), true, long)
	x2 := restRaw("rest-raw-gzip-request-only", "/v1/raw", true, strings.Repeat("UP.", 700), false, "tiny download")
	x3 := restRaw("rest-raw-gzip-response-only", "/v1/raw", false, "tiny upload", true, strings.Repeat("fedcba9876543210", 100))
	x4 := restRaw("rest-blob-gzip-both", "/v1/blob/f9", true, strings.Repeat("blob-upload.", 100), true, strings.Repeat("blob-download.", 20))
	w8.history = []c15Req{x1, x2, x3, x4}
	w8.probes = []c15Req{x1, x2, x3, x4}
	// world 9: a small limit and messages that fit it in one codec but not in the other: the RPC that
	// fails on the RE-ENCODED size (the original was within the limit, the new form still fits the
	// pooled buffer's capacity) must leave the pools as it found them
	w9 := c15World{name: "limit 200, messages that outgrow it only when re-encoded (target gRPC/proto, no compression)", cfg: world.Config{Protocols: []vanguard.Protocol{vanguard.ProtocolGRPC}, Codecs: []string{"proto"}, NoCompress: true, MaxMsg: 200}}
	grows := `{"name":"g","nums":[` + strings.TrimSuffix(strings.Repeat("7,", 95), ",") + `]}` // ~100 bytes packed, ~200 characters of JSON, more with the other fields rendered
	tiny := MkMsg(`{"name":"t"}`)
	h1 := mk("response-grows-json-web", wire.GRPCWeb, "Unary", "json", "", echo(grows), nil, tiny)
	h2 := mk("response-grows-json-cunary", wire.ConnectUnary, "Unary", "json", "", echo(grows), nil, tiny)
	h3 := mk("response-grows-json-cstream", wire.ConnectStream, "SStream", "json", "", echo(`{"name":"first"}`, grows, `{"name":"never"}`), nil, tiny)
	s1 := mk("small-json-web", wire.GRPCWeb, "Unary", "json", "", echo(`{"name":"s1","extraText":"`+strings.Repeat("s", 60)+`"}`), nil, tiny)
	s2 := mk("small-json-cunary", wire.ConnectUnary, "Unary", "json", "", echo(`{"name":"s2"}`), nil, MkMsg(`{"name":"q","extraText":"`+strings.Repeat("q", 50)+`"}`))
	s3 := mk("small-json-cget", wire.ConnectGet, "Pure", "json", "", echo(`{"name":"s3"}`), nil, tiny)
	w9.history = []c15Req{h1, h2, h3, s1, s2}
	w9.probes = []c15Req{s1, s2, s3, h1}
	return []c15World{w1, w2, w3, w4, w5, w6, w7, w8, w9}
}

type protoMessage = proto.Message

// c15Run executes the given history then the probe on a fresh Transcoder; returns the
// probe's outcome and the pool-state key reached before the probe.
func c15Run(w c15World, history []int, probe int) (outcome string, poolKey string, doublePuts int, problem string) {
	verifsync.SetRegistry(true)
	verifsync.ResetRegistry()
	verifsync.SetPoison(true)
	defer func() {
		verifsync.SetRegistry(false)
		verifsync.ResetRegistry()
		verifsync.SetPoison(false)
	}()
	var cur *c15Req
	var be *world.Backend
	handler := http.HandlerFunc(func(rw http.ResponseWriter, rq *http.Request) {
		be.Respond = cur.respond
		if cur.raw != nil {
			raw := cur.raw
			be.Raw = func(b *world.Backend, w http.ResponseWriter, r *http.Request) { raw(b, w, r) }
		}
		be.ServeHTTP(rw, rq)
		if cur.close {
			_ = rq.Body.Close()
			_ = rq.Body.Close() // (closing twice is legal; httputil.ReverseProxy over http.Transport does it)
		}
	})
	tc, err := world.Build(w.cfg, handler)
	if err != nil {
		return "", "", 0, "setup: " + err.Error()
	}
	exec := func(rq *c15Req) string {
		cur = rq
		be = &world.Backend{}
		spec := rq.spec()
		req, err := spec.Build(context.Background())
		if err != nil {
			problem = "setup: " + err.Error()
			return ""
		}
		rec := drive.NewRecorder()
		pi := drive.Serve(tc, rec, rec, req, spec.Body)
		ex := &world.Exchange{Rec: rec, Body: spec.Body, Panic: pi, Req: req}
		out := semClient(rq.form, ex, world.MsgDesc()) + " || " + semBackend(be, world.MsgDesc())
		if rec.Status == 404 {
			// a request answered "not found" never reached a protocol handler's response side: its whole
			// head - also names the semantic view files under another protocol's control headers - is
			// the transcoder's own and must be the same whatever came before
			out += " || head=" + drive.CanonHeader(rec.HeadHeaders())
		}
		if containsPoison(rec.BodyBytes.Bytes()) || (be.Seen != nil && containsPoison(be.Seen.Body)) {
			out += " || POISON"
		}
		if pi != nil && !strings.Contains(pi.Value, "backend exploded") {
			out += " || PANIC " + pi.Value + " " + stackTop(pi.Stack)
		}
		return out
	}
	for _, hi := range history {
		exec(&w.history[hi])
	}
	var kb bytes.Buffer
	for _, p := range verifsync.Pools() {
		st := p.Stats()
		doublePuts += st.DoublePuts
		fmt.Fprintf(&kb, "pool%d[", p.ID())
		for _, it := range p.Items() {
			if b, ok := it.(*bytes.Buffer); ok {
				fmt.Fprintf(&kb, "%d,", b.Cap())
			} else {
				fmt.Fprintf(&kb, "%T,", it)
			}
		}
		kb.WriteString("]")
	}
	outcome = exec(&w.probes[probe])
	writesAfterPut := 0
	for _, p := range verifsync.Pools() {
		doublePuts += p.Stats().DoublePuts
		writesAfterPut += p.Stats().WritesAfterPut + p.AuditPoison()
	}
	if writesAfterPut > 0 {
		outcome += fmt.Sprintf(" || WRITE-AFTER-PUT x%d", writesAfterPut)
	}
	return outcome, kb.String(), doublePuts / 2, problem
}

func init() {
	Register(&Check{
		ID:    "C15",
		Level: "model_checking",
		Rule: "Explicit-state search over request histories on one Transcoder (deterministic maximal-reuse pool through the verifsync shim): world 1 (gRPC/proto/gzip target): alphabet of 22 requests (6 clean RPCs covering re-framing, re-encoding and compression on both legs incl. a 5 kB message that grows pooled buffers; validation failures, cuts inside envelope / payload / flat body, over-limit, four kinds of corrupt gzip, undecodable message, corrupt gzip response, early return, backend panic before/after its first write, unknown methods called in gRPC-Web and gRPC) and 7 probes (the clean RPCs and a Connect call of an unknown method, whose whole response head is compared); " +
			"world 2 (REST target): 11 requests (incl. a backend that answers before reading a request that turns out broken) over shared route targets and 5 probes; world 3 (gRPC-Web target reached by re-framing): 10 requests incl. five malformed trailer / message frames from the backend, 4 probes; world 5 (flat Connect target with another codec; backends that answer before reading a request that turns out broken; a GET with declared compression): 8 requests, 3 probes; world 4 (a generated and a dynamic service with different type resolvers on one Transcoder): 5 requests incl. google.protobuf.Any of a dynamically known type, 4 probes. Every history of depth <= 3 (quick) / <= 4 (thorough) is replayed on a fresh Transcoder followed by each probe; the probe's semantic outcome (client and backend side) must equal its outcome on a fresh Transcoder; no pool element may be Put twice; poison must not reach outputs. " +
			"world 7 (REST HttpBody uploads / downloads toward gRPC, one method through two bindings whose response_body differ): 6 requests, 5 probes; world 8 (REST to REST with differing compression, HttpBody payloads): 4 requests, 4 probes; handlers close the request body twice. " +
			"A state is a history (no merging); a transition is one replayed request. Non-trivial = distinct pool-state key (multiset of pooled buffer capacities and pooled codec objects) reached before a probe.",
		Assume:  []string{"the deterministic LIFO pool of the shim is the maximal-reuse behaviour the real sync.Pool may exhibit", "every explored trace is an execution of the implementation itself (no separate model)"},
		Custom:  c15Custom,
		Sharded: true,
	})
}

func c15Custom(rc *RunCtx, rep *Report) {
	depth := 3
	if rc.Tier == "thorough" {
		depth = 4
	}
	start := time.Now()
	item := 0
	if os.Getenv("VERIF_C15_POOL_ONLY") != "" { // debugging aid: only the pool-choice part
		c15PoolChoices(rc, rep)
		rep.Outcomes["same"]++
		return
	}
	for wi, w := range c15Worlds() {
		base := make([]string, len(w.probes))
		for p := range w.probes {
			out, _, dp, problem := c15Run(w, nil, p)
			if problem != "" {
				rep.Broken = append(rep.Broken, problem)
				return
			}
			if dp > 0 || strings.Contains(out, "POISON") || strings.Contains(out, "PANIC") || strings.Contains(out, "WRITE-AFTER-PUT") {
				rep.Violations = append(rep.Violations, Found{Scenario: "custom", V: xplorViolation("C15.fresh-run-anomaly", "probe "+w.probes[p].name+" on a fresh Transcoder: "+short(out), map[string]string{"world": w.name, "probe": w.probes[p].name}, nil, nil)})
			}
			base[p] = out
		}
		n := len(w.history)
		var rec func(hist []int)
		rec = func(hist []int) {
			if len(hist) > 0 {
				item++
				if rc.NShards == 0 || item%rc.NShards == rc.Shard {
					var names []string
					for _, h := range hist {
						names = append(names, w.history[h].name)
					}
					for p := range w.probes {
						out, key, dp, _ := c15Run(w, hist, p)
						rep.Executions++
						rep.TracesImpl++
						rep.States++
						rep.Transitions += int64(len(hist) + 1)
						rep.Nontrivial[fmt.Sprintf("%d:%s", wi, key)] = struct{}{}
						attrs := map[string]string{"world": w.name, "probe": w.probes[p].name, "last": names[len(names)-1], "~history": strings.Join(names, " , ")}
						if out != base[p] {
							rep.Violations = append(rep.Violations, Found{Scenario: "custom", V: xplorViolation("C15.outcome-depends-on-history", fmt.Sprintf("probe %s after history [%s]\n fresh:   %s\n after:   %s", w.probes[p].name, strings.Join(names, " , "), short(base[p]), short(out)), attrs, hist, names)})
							rep.Outcomes["differs"]++
						} else {
							rep.Outcomes["same"]++
						}
						if dp > 0 {
							rep.Violations = append(rep.Violations, Found{Scenario: "custom", V: xplorViolation("C15.pool-double-put", fmt.Sprintf("a pool element was Put twice during history [%s] + probe %s", strings.Join(names, " , "), w.probes[p].name), attrs, hist, names)})
						}
						if len(rep.Samples) < 3 && len(hist) == 3 && item%331 == 0 {
							rep.Samples = append(rep.Samples, map[string]any{"world": w.name, "history": names, "probe": w.probes[p].name, "pool_state_before_probe": key})
						}
					}
				}
			}
			if len(hist) == depth || len(rep.Violations) > 300 {
				return
			}
			if !rc.Deadline.IsZero() && time.Now().After(rc.Deadline) {
				rep.Exhaustive = false
				return
			}
			for h := 0; h < n; h++ {
				rec(append(append([]int{}, hist...), h))
			}
		}
		rec(nil)
	}
	rep.Extra["history_depth"] = depth
	if rc.Tier == "thorough" {
		c15PoolChoices(rc, rep)
	}
	rep.Notes["wall_ms"] = time.Since(start).Milliseconds()
}

// c15PoolChoices owns the pool's own nondeterminism: sync.Pool may hand out ANY pooled
// element or a new one, the deterministic LIFO shim only the most recently returned. For
// every history of depth <= 2 and every probe, every execution in which at most one Get
// deviates from LIFO (any deeper element, or a fresh one) is run; the probe's outcome must
// still equal its outcome on a fresh Transcoder.
func c15PoolChoices(rc *RunCtx, rep *Report) {
	runs, deviating := int64(0), int64(0)
	item := 0
	for wi, w := range c15Worlds() {
		base := make([]string, len(w.probes))
		for p := range w.probes {
			base[p], _, _, _ = c15Run(w, nil, p)
		}
		n := len(w.history)
		var hists [][]int
		for a := 0; a < n; a++ {
			hists = append(hists, []int{a})
			for b := 0; b < n; b++ {
				hists = append(hists, []int{a, b})
			}
		}
		for _, hist := range hists {
			item++
			if rc.NShards > 0 && item%rc.NShards != rc.Shard {
				continue
			}
			if !rc.Deadline.IsZero() && time.Now().After(rc.Deadline) {
				rep.Exhaustive = false
				return
			}
			var names []string
			for _, h := range hist {
				names = append(names, w.history[h].name)
			}
			for p := range w.probes {
				var out string
				var dp int
				ex := &sched.Explorer{Bound: 1, DataCost: 1, MaxRuns: 20000}
				ex.Exec = func(prefix []int) *sched.Run {
					return runScheduled(prefix, 1000000, true, func(r *sched.Run, h schedHooks) {
						verifsync.SetPoolMode(verifsync.PoolChoose)
						r.Go("serial", func() {
							defer verifsync.SetPoolMode(verifsync.PoolLIFO)
							out, _, dp, _ = c15Run(w, hist, p)
						})
					})
				}
				ex.Check = func(run *sched.Run) bool {
					runs++
					rep.Executions++
					rep.TracesImpl++
					dev := false
					for _, c := range run.Choices() {
						if c != 0 {
							dev = true
						}
					}
					if dev {
						deviating++
						rep.Nontrivial[fmt.Sprintf("poolchoice:%d:%v:%d:%v", wi, hist, p, run.Choices())] = struct{}{}
					}
					attrs := map[string]string{"world": w.name, "probe": w.probes[p].name, "last": names[len(names)-1], "pool": "any-element", "~history": strings.Join(names, " , "), "~pool-picks": fmt.Sprint(run.Choices())}
					if out != base[p] {
						rep.Violations = append(rep.Violations, Found{Scenario: "custom", V: xplorViolation("C15.outcome-depends-on-history", fmt.Sprintf("probe %s after history [%s] when the pool hands out elements in the order %v (0 = most recently returned)\n fresh:   %s\n after:   %s", w.probes[p].name, strings.Join(names, " , "), run.Choices(), short(base[p]), short(out)), attrs, hist, append(append([]string{}, names...), fmt.Sprintf("poolpicks=%v", run.Choices())))})
					}
					if dp > 0 {
						rep.Violations = append(rep.Violations, Found{Scenario: "custom", V: xplorViolation("C15.pool-double-put", fmt.Sprintf("a pool element was Put twice during history [%s] + probe %s (pool picks %v)", strings.Join(names, " , "), w.probes[p].name, run.Choices()), attrs, hist, names)})
					}
					return len(rep.Violations) < 300
				}
				ex.Explore()
				if !ex.Exhaustive {
					rep.Exhaustive = false
				}
			}
		}
	}
	rep.Extra["pool_choice_exploration"] = map[string]any{"history_depth": 2, "deviations_from_lifo": 1, "executions": runs, "executions_with_a_deviation": deviating}
}

func init() {
	replayCustom["C15/custom"] = func(rf *ReplayFile, path string) int {
		for _, w := range c15Worlds() {
			if w.name != rf.Attrs["world"] {
				continue
			}
			for p := range w.probes {
				if w.probes[p].name != rf.Attrs["probe"] {
					continue
				}
				for _, h := range rf.Choices {
					if h < 0 || h >= len(w.history) {
						fmt.Println("replay: history index out of range")
						return 2
					}
				}
				return replayReport(rf, path, func() ([][2]string, string) {
					base, _, _, problem := c15Run(w, nil, p)
					if problem != "" {
						return [][2]string{{"harness.problem", problem}}, ""
					}
					out, key, dp, _ := c15Run(w, rf.Choices, p)
					var fails [][2]string
					if out != base {
						fails = append(fails, [2]string{"C15.outcome-depends-on-history", fmt.Sprintf("probe %s after history %v\n fresh:   %s\n after:   %s", w.probes[p].name, rf.Labels, short(base), short(out))})
					}
					if dp > 0 {
						fails = append(fails, [2]string{"C15.pool-double-put", fmt.Sprintf("a pool element was Put twice during history %v + probe %s", rf.Labels, w.probes[p].name)})
					}
					return fails, out + key
				})
			}
		}
		fmt.Println("replay: unknown world / probe")
		return 2
	}
}
