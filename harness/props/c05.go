package props

import (
	"fmt"
	"google.golang.org/protobuf/proto"
	"net/http"
	"net/textproto"
	"sort"
	"strings"

	"connectrpc.com/vanguard"

	"connectrpc.com/vanguard/verifharness/wire"
	"connectrpc.com/vanguard/verifharness/world"
	"connectrpc.com/vanguard/verifharness/xplor"
)

// C05 — application headers and trailers survive transcoding in both directions.

type c05KV struct {
	k string
	v []string
}

var c05Names = []string{"X-A", "Foo-Bin", "Authorization", "Grpc-Foo", "Connect-Foo", "X-Long-Header-Name-With-Many-Parts"}
var c05Values = [][]string{{"tok"}, {"v1", "v2"}, {""}, {"a, b=c; d"}, {"AAEC"}, {"v1", "", "v1"}}

func c05Pick(c *xplor.Ctx, label string, max int) []c05KV {
	var out []c05KV
	used := map[string]bool{}
	for i := 0; i < max; i++ {
		n := c.Choose(fmt.Sprintf("%s%d-name", label, i), len(c05Names)+1)
		if n == 0 {
			break
		}
		name := c05Names[n-1]
		if used[name] {
			continue
		}
		used[name] = true
		v := c05Values[c.Choose(fmt.Sprintf("%s%d-value", label, i), len(c05Values))]
		out = append(out, c05KV{name, v})
	}
	return out
}

func kvHeader(kvs []c05KV) http.Header {
	h := http.Header{}
	for _, kv := range kvs {
		h[kv.k] = append([]string(nil), kv.v...)
	}
	return h
}

func foldHeader(h http.Header, skip func(string) bool) string {
	m := map[string][]string{}
	for k, v := range h {
		ck := textproto.CanonicalMIMEHeaderKey(k)
		if skip != nil && skip(ck) {
			continue
		}
		for _, x := range v {
			// (a line break inside a value is compared as the space a header writer turns it into)
			m[ck] = append(m[ck], strings.NewReplacer("\r", " ", "\n", " ").Replace(x))
		}
	}
	keys := make([]string, 0, len(m))
	for k := range m {
		keys = append(keys, k)
	}
	sort.Strings(keys)
	var sb strings.Builder
	for _, k := range keys {
		fmt.Fprintf(&sb, "%s=%q;", k, m[k])
	}
	return sb.String()
}

func init() {
	scn := func(c *xplor.Ctx) {
		b := &mxBase{}
		ci := c.Free("client", 13) // the 13 RPC (non-REST) client cells
		b.Client = mxClients[ci]
		tp := allProtoOrder[c.Free("target-protocol", 4)]
		b.TgtProtos = []vanguard.Protocol{tp}
		if tp == vanguard.ProtocolREST && noRESTBinding(b.Client.method) {
			c.Skip()
			return
		}
		b.ClientCodec = "proto"
		if c.Free("codec-relation", 2) == 0 {
			b.TgtCodecs = []string{"proto"}
		} else {
			b.TgtCodecs = []string{"json"}
		}
		if world.FormToProtocol(b.Client.form) == tp && b.TgtCodecs[0] == b.ClientCodec {
			c.Skip() // pass-through (C13)
			return
		}
		b.key = fmt.Sprintf("%s|tp=%s|tc=%s", b.Client.name, tp, b.TgtCodecs[0])
		c.Attr("client", b.Client.name)
		c.Attr("target", tp.String())
		reqH := c05Pick(c, "req-header", 2)
		respH := c05Pick(c, "resp-header", 2)
		var trailers []c05KV
		if tp != vanguard.ProtocolREST {
			trailers = c05Pick(c, "trailer", 2)
		}
		if tp == vanguard.ProtocolConnect && b.Client.shape != "unary" && len(trailers) > 0 && c.Choose("trailer-value-with-line-break", 2) == 1 {
			// end-of-stream metadata is JSON: a value can hold CR LF there. On the way to a client whose
			// trailers are header lines it may be sanitised (compared modulo that), but it must stay ONE value
			// and must not become further lines.
			trailers[0].v = []string{"disk failure\r\ngrpc-status: 0"}
			c.Attr("~trailer-value", "contains CR LF")
		}
		style := c.Choose("trailer-style", 6) // 5 TrailerPrefix, the first application trailer set before the head and the rest after the body; 0 TrailerPrefix, 1 declared (canonical, one per line), 2 declared in lower case, 3 declared as one "A, B" list, 4 TrailerPrefix with the name in lower case
		earlyFirst := style == 5 && len(trailers) > 0
		if style == 5 {
			style = 0
			if earlyFirst {
				c.Attr("~trailer-timing", "first application trailer before the head, the rest after the body")
			}
		}
		lowerPrefix := style == 4
		if lowerPrefix {
			style = 0
			c.Attr("~trailer-names", "lower case under http.TrailerPrefix")
		}
		dup := false
		for _, t := range trailers {
			for _, h := range respH {
				if h.k == t.k {
					dup = true
				}
			}
		}
		if dup {
			c.Attr("same-key-as-header-and-trailer", "true")
		}
		c.Attr("trailer-style", []string{"prefix", "declared", "declared", "declared"}[style])
		hybrid, hybridStatus := false, 0
		outcome := c.Choose("outcome", 3)
		isErr := outcome >= 1
		req, resp := defaultMsgs(b.Client.shape)
		if outcome == 2 && !(tp == vanguard.ProtocolConnect && b.Client.shape == "unary") {
			// (only a Connect unary backend has its trailers in the head; everywhere else they come
			// after the message the transcoder fails on, and are never produced)
			trailers = nil
		}
		call := &mxCall{Base: b, ReqMsgs: req, RespMsgs: resp, ReqHeader: kvHeader(reqH), RespHeader: kvHeader(respH), RespTrailer: kvHeader(trailers), Lenient: true}
		if outcome == 2 {
			// the handler succeeds (head, a message, trailers), but its message exceeds the buffer
			// limit: the transcoder ends the RPC itself, after it has accepted the handler's head.
			// The handler's headers and trailers are still the RPC's metadata.
			call.MaxMsg = 700
			call.RespMsgs = []proto.Message{MkMsg(`{"name":"too big","extraText":"` + strings.Repeat("x", 2000) + `"}`)}
			c.Attr("~ended-by", "transcoder (response message over the limit)")
		} else if isErr {
			call.End = &wire.End{Code: 9, Message: "failed"}
			call.RespMsgs = nil
			to := 4
			if tp != vanguard.ProtocolGRPC || style != 0 {
				to = 2
			}
			toc := c.Choose("trailers-only", to)
			switch toc {
			case 0:
				call.TrailersOnly = true
			case 2, 3:
				if toc == 3 {
					hybridStatus = 503 // ... under an HTTP status other than 200
					c.Attr("~head-status", "503")
				}
				// the status in the head, the application's trailers as http.TrailerPrefix keys that the
				// handler has set before it wrote the head
				call.TrailersOnly, hybrid = true, true
				c.Attr("~trailers-only", "status in the head, trailers by TrailerPrefix set before WriteHeader")
			}
		}
		if outcome == 0 && (tp == vanguard.ProtocolGRPC || tp == vanguard.ProtocolGRPCWeb) && c.Choose("ok-status-with-details-bin", 2) == 1 {
			// a server may end a SUCCESSFUL RPC with grpc-status: 0 and a grpc-status-details-bin
			// trailer (a serialised google.rpc.Status saying OK): still a status key, not metadata
			tr := call.RespTrailer.Clone()
			if tr == nil {
				tr = http.Header{}
			}
			tr["Grpc-Status-Details-Bin"] = []string{"EgRmaW5l"} // google.rpc.Status{message:"fine"}
			call.RespTrailer = tr
			c.Attr("~ok-status", "with grpc-status-details-bin")
		}
		headStatus := 0
		if outcome == 1 && call.TrailersOnly && (tp == vanguard.ProtocolGRPC || tp == vanguard.ProtocolGRPCWeb) {
			// the complete RPC status in the head of a response whose HTTP status is not 200
			// (gateways in front of a gRPC server do that)
			if hs := c.Choose("http-status-of-trailers-only", 3); hs > 0 {
				headStatus = []int{503, 429}[hs-1]
				c.Attr("~head-status", fmt.Sprint(headStatus))
			}
		}
		extraTrailer := tp == vanguard.ProtocolConnect && c.Choose("extra-http-trailer", 2) == 1
		if extraTrailer {
			// a middleware in front of a Connect backend adds a real HTTP trailer (Server-Timing
			// style); whatever happens to that one, the RPC's own metadata must survive
			c.Attr("~extra-http-trailer", "true")
		}
		if style > 0 {
			call.DeclTrailers = true
			if style >= 2 {
				call.Mutate = func(sr *wire.ServerResp, rep *world.Reply) {
					if sr == nil {
						rep.LowerCaseTrailerDecl = style == 2
						rep.TrailerDeclList = style == 3
					}
				}
			}
		}
		if lowerPrefix {
			inner := call.Mutate
			call.Mutate = func(sr *wire.ServerResp, rep *world.Reply) {
				if inner != nil {
					inner(sr, rep)
				}
				if sr == nil {
					rep.LowerCasePrefixTrailers = true
				}
			}
		}
		if earlyFirst && len(trailers) > 0 {
			inner := call.Mutate
			k0 := trailers[0].k
			call.Mutate = func(sr *wire.ServerResp, rep *world.Reply) {
				if inner != nil {
					inner(sr, rep)
				}
				if sr == nil {
					rep.EarlyTrailerKeys = []string{k0}
				}
			}
		}
		if extraTrailer {
			inner := call.Mutate
			call.Mutate = func(sr *wire.ServerResp, rep *world.Reply) {
				if inner != nil {
					inner(sr, rep)
				}
				if sr == nil {
					rep.ExtraHTTPTrailer = http.Header{"X-Middleware-Timing": {"db;dur=5"}}
				}
			}
		}
		if hybrid {
			inner := call.Mutate
			call.Mutate = func(sr *wire.ServerResp, rep *world.Reply) {
				if inner != nil {
					inner(sr, rep)
				}
				if sr != nil {
					sr.StatusInHeadKeepTrailers = true
				} else {
					rep.PrefixTrailersEarly = true
				}
			}
		}
		if hybridStatus != 0 {
			headStatus = hybridStatus
		}
		if headStatus != 0 {
			inner := call.Mutate
			call.Mutate = func(sr *wire.ServerResp, rep *world.Reply) {
				if inner != nil {
					inner(sr, rep)
				}
				if sr == nil && rep.Out != nil {
					rep.Out.Status = headStatus
				}
			}
		}
		obs := call.run()
		if obs.Err != nil {
			c.Fail("harness.setup", "%v", obs.Err)
			return
		}
		if extraTrailer && obs.CResp != nil {
			// the fate of the middleware's own trailer is not judged
			obs.CResp.Meta.Del("X-Middleware-Timing")
			obs.CResp.AppHeaders.Del("X-Middleware-Timing")
		}
		desc := func() string {
			return fmt.Sprintf("%s error=%v trailer-style=%d\n request headers %v, response headers %v, trailers %v\n backend saw: %s\n client: %s", b.key, isErr, style, reqH, respH, trailers,
				short(foldHeader(obs.Backend.SeenHeader(), nil)), short(semClient(b.Client.form, obs.Ex, world.MsgDesc())))
		}
		if obs.Ex.Panic != nil {
			c.Fail("C05.panic", "ServeHTTP panicked: %s\n%s\n%s", obs.Ex.Panic.Value, stackTop(obs.Ex.Panic.Stack), desc())
			return
		}
		if obs.Backend.Calls != 1 {
			c.Fail("harness.base-not-ok", "backend not invoked: %s", desc())
			return
		}
		cr := obs.CResp
		if outcome == 2 && cr.OK() && !cr.BareHTTP {
			isErr = false // nothing had to be buffered on this path: the message went through, the RPC succeeded
		}
		if cr.BareHTTP || cr.OK() == isErr {
			c.Fail("C05.outcome-changed", "the handler ended the RPC with error=%v (a disposition carried in its headers/trailers) but the client observed ok=%v\n%s", isErr, cr.OK(), desc())
			return
		}
		// request headers at the backend
		if want, got := foldHeader(kvHeader(reqH), nil), foldHeader(obs.BReq.AppHeaders, nil); want != got {
			c.Fail("C05.request-headers-changed", "client sent application headers %s, backend saw %s\n%s", want, got, desc())
		}
		// In a gRPC / gRPC-Web trailers-only response there is a single metadata block: headers
		// and trailers are indistinguishable on the wire. Whenever either leg used that form,
		// only the union is judged.
		clientTrailersOnly := (b.Client.form == wire.GRPC || b.Client.form == wire.GRPCWeb) && obs.Ex.Rec.Snapshot.Get("Grpc-Status") != ""
		backendTrailersOnly := isErr && call.TrailersOnly && (tp == vanguard.ProtocolGRPC || tp == vanguard.ProtocolGRPCWeb)
		if clientTrailersOnly || backendTrailersOnly {
			union := func(a, b2 http.Header) http.Header {
				u := http.Header{}
				for _, h := range []http.Header{a, b2} {
					for k, v := range h {
						ck := textproto.CanonicalMIMEHeaderKey(k)
						u[ck] = append(u[ck], v...)
					}
				}
				return u
			}
			if want, got := foldHeader(union(kvHeader(respH), kvHeader(trailers)), nil), foldHeader(union(cr.AppHeaders, cr.Meta), nil); want != got {
				c.Fail("C05.response-metadata-changed", "handler set headers+trailers %s, client received %s (trailers-only: one metadata block)\n%s", want, got, desc())
			}
			c.Note("trailers-only")
		} else {
			// response headers at the client
			if want, got := foldHeader(kvHeader(respH), nil), foldHeader(cr.AppHeaders, nil); want != got {
				c.Fail("C05.response-headers-changed", "handler set application headers %s, client saw %s\n%s", want, got, desc())
			}
			// trailers in the position the client's protocol defines
			if want, got := foldHeader(kvHeader(trailers), nil), foldHeader(cr.Meta, nil); want != got {
				c.Fail("C05.trailers-changed", "handler set trailers %s, client received (in its protocol's trailer position) %s\n%s", want, got, desc())
			}
		}
		for _, h := range []http.Header{cr.Meta, cr.AppHeaders} {
			for k := range h {
				switch textproto.CanonicalMIMEHeaderKey(k) {
				case "Grpc-Status", "Grpc-Message", "Grpc-Status-Details-Bin":
					c.Fail("C05.status-key-leaked", "protocol status key %s appears in application metadata\n%s", k, desc())
				}
			}
		}
		if len(reqH) > 0 && len(respH) > 0 && len(trailers) > 0 {
			c.Nontrivial(b.key + fmt.Sprint(reqH, respH, trailers, style, isErr))
		} else if len(reqH)+len(respH)+len(trailers) > 0 {
			c.Note("some-metadata")
		}
		c.Outcome(fmt.Sprintf("%s>%s err=%v", b.Client.form, tp, isErr))
	}
	Register(&Check{
		ID:    "C05",
		Level: "exploration",
		Rule: "13 RPC client form/method cells x 4 target protocols x 2 codec relations (pass-through pairs excluded), crossed with every combination up to D of: up to 2 request headers, 2 response headers and 2 trailers " +
			"(6 names incl. -Bin and protocol-prefixed ones x 6 values: single, repeated, empty, with separators, unpadded base64), trailer declaration style (TrailerPrefix, Trailer header, Trailer header in lower case, as a list, TrailerPrefix in lower case, TrailerPrefix with the first trailer set before the head and the rest after the body), success / error, trailers-only. " +
			"Non-trivial = distinct scenario with at least one application key on each of request, response and trailers.",
		Assume:      []string{"REST clients are outside the property's quantifier; REST backends have no trailers", "names that are ambiguous in the client's protocol (a response header literally called Trailer-X) are not in the alphabet", "names that are control headers of ANY of the four protocols (Grpc-Encoding, Connect-Accept-Encoding, ...) are not used as application metadata, even toward peers whose protocol does not own them"},
		Scenarios:   []Scenario{{Name: "metadata", Fn: scn, QuickBound: 3, ThoroughBound: 5}},
		MinOutcomes: 8,
	})
}
