package props

import (
	"strings"

	"connectrpc.com/vanguard/verifharness/drive"
	"connectrpc.com/vanguard/verifharness/xplor"
)

// C11 — no input from client or backend can crash or wedge the transcoder.

// panicOwner attributes a panic that escaped ServeHTTP: "backend" (scripted handler panic
// propagating, or the handler itself handing net/http an invalid status), or "vanguard".
func panicOwner(p *drive.PanicInfo) string {
	if p == nil {
		return ""
	}
	if strings.Contains(p.Value, "boom") || strings.Contains(p.Value, "abort Handler") {
		return "backend"
	}
	lines := strings.Split(p.Stack, "\n")
	for i, l := range lines {
		if strings.Contains(l, "drive.(*Recorder).WriteHeader") && strings.Contains(p.Value, "invalid WriteHeader code") {
			// who called the real writer with that code?
			for j := i + 2; j < len(lines); j += 2 {
				fn := lines[j]
				if strings.Contains(fn, "verifharness/drive.") {
					continue
				}
				if strings.HasPrefix(fn, "connectrpc.com/vanguard.") {
					return "vanguard"
				}
				return "backend"
			}
		}
	}
	return "vanguard"
}

func init() {
	scn := func(c *xplor.Ctx) {
		r := runHostile(c, false)
		if r == nil {
			return
		}
		if r.BuildErr != nil {
			c.Fail("harness.setup", "%v", r.BuildErr)
			return
		}
		defer r.Cancel()
		rec := r.Ex.Rec
		desc := strings.Join(r.Desc, " ")
		if len(r.Desc) > 0 {
			c.Nontrivial(c.Attrs["target"] + "|" + c.Attrs["base"] + "|" + desc)
		}
		owner := panicOwner(r.Ex.Panic)
		switch owner {
		case "vanguard":
			c.Attr("panic", firstLine(r.Ex.Panic.Value))
			c.Fail("C11.panic", "ServeHTTP panicked: %s\n%s\nscenario: %s", r.Ex.Panic.Value, stackTop(r.Ex.Panic.Stack), desc)
			c.Outcome("panic")
			return
		case "backend":
			c.Note("backend-panic-propagated")
		}
		if r.Svc.Spin {
			c.Fail("C11.backend-read-never-ends", "the request body handed to the backend never reports EOF or an error (a handler that reads to the end is wedged)\nscenario: %s", desc)
			return
		}
		if r.Svc.Direct {
			c.Outcome("pass-through")
			c.Note("pass-through")
			return // the handler talks to the real writer itself; C13 judges fidelity
		}
		c.Note("transcoded-or-rejected")
		if rec.Superfluous > 0 {
			c.Fail("C11.second-response-head", "%d superfluous WriteHeader calls reached the real ResponseWriter\nscenario: %s", rec.Superfluous, desc)
		}
		if rec.PanicStatus != nil && owner != "backend" {
			c.Fail("C11.invalid-status-code", "status %v handed to the real ResponseWriter\nscenario: %s", rec.PanicStatus, desc)
		}
		if rec.BadCL != "" {
			c.Note("unparsable-content-length-sanitised-by-net/http")
		}
		if r.Ex.Req.Method != "HEAD" && owner == "" {
			if rec.BodyNotAllow > 0 {
				c.Fail("C11.body-on-bodiless-status", "%d body writes on status %d\nscenario: %s", rec.BodyNotAllow, rec.Status, desc)
			}
			if rec.ExcessWrite {
				c.Fail("C11.body-exceeds-content-length", "declared Content-Length %d, wrote more\nscenario: %s", rec.DeclaredCL, desc)
			}
			if rec.DeclaredCL >= 0 && int64(rec.BodyBytes.Len()) < rec.DeclaredCL && !rec.ExcessWrite {
				c.Fail("C11.body-short-of-content-length", "declared Content-Length %d, body has %d bytes\nscenario: %s", rec.DeclaredCL, rec.BodyBytes.Len(), desc)
			}
		}
		if te := rec.Snapshot.Values("Transfer-Encoding"); len(te) > 0 && owner == "" {
			// the body the transcoder sends is its own: a transfer coding named by the backend does not apply
			// to it (net/http passes an unknown one through, and the client cannot de-frame the response)
			for _, v := range te {
				if v != "chunked" && v != "identity" {
					c.Fail("C11.foreign-transfer-encoding", "the response head carries Transfer-Encoding %q, set by the backend for ITS body\nscenario: %s", te, desc)
					break
				}
			}
		}
		c.Outcome(statusClass(rec.Status))
	}
	Register(&Check{
		ID:    "C11",
		Level: "fault_enumeration",
		Rule: "From each of 7 well-formed base requests x 5 target configurations, up to D components deviate to hostile values: HTTP method (9), request path (35), query string (32, incl. malformed field paths), " +
			"Content-Type (21), 2 extra headers (29 each), dropped protocol headers, HTTP version, body (48: every <=2-byte string over {00,01,02,80,ff} and envelope-shaped garbage), Content-Length/read-error variants, " +
			"backend behaviour (~100 scripts: status codes incl. illegal ones, numeric grpc-status values, Content-Length values, body scripts, wrong content-types/encodings, double WriteHeader, flush-first, panics, early return), " +
			"read policy, ResponseWriter kind (Flusher / FlushError-only / Unwrap-only / none of them), context cancellation; framing headers set after the head, foreign Transfer-Encoding. Non-trivial = distinct scenario with at least one hostile component.",
		Assume:       []string{"strict ResponseWriter model mirrors net/http (status range check, Content-Length enforcement, no body on 1xx/204/304)", "60 s watchdog per execution detects a wedged ServeHTTP"},
		Scenarios:    []Scenario{{Name: "hostile", Fn: scn, QuickBound: 2, ThoroughBound: 3}},
		RequireNotes: []string{"transcoded-or-rejected", "backend-panic-propagated", "pass-through"},
		MinOutcomes:  4,
	})
}

func statusClass(s int) string {
	switch {
	case s == 0:
		return "no-head"
	case s < 200:
		return "1xx"
	case s < 300:
		return "2xx"
	case s < 400:
		return "3xx"
	case s < 500:
		return "4xx"
	}
	return "5xx"
}

func firstLine(s string) string {
	if i := strings.IndexByte(s, '\n'); i >= 0 {
		s = s[:i]
	}
	if len(s) > 80 {
		s = s[:80]
	}
	return s
}
