package props

import (
	"fmt"
	"net/http"
	"net/url"
	"strings"

	"connectrpc.com/vanguard"
	"google.golang.org/protobuf/proto"

	"connectrpc.com/vanguard/verifharness/drive"
	"connectrpc.com/vanguard/verifharness/wire"
	"connectrpc.com/vanguard/verifharness/world"
	"connectrpc.com/vanguard/verifharness/xplor"
)

// The base matrix shared by C01..C05: client wire form x method (stream shape) x target
// protocol set x client codec x target codec list x client compression x target
// compression set. All of it is "free" (cost 0): every check crosses it completely.

type mxClient struct {
	name   string
	form   wire.Form
	method string
	shape  string // unary, client, server, bidi
}

var mxClients = []mxClient{
	{"cunary/Unary", wire.ConnectUnary, "Unary", "unary"},
	{"cget/Pure", wire.ConnectGet, "Pure", "unary"},
	{"cstream/CStream", wire.ConnectStream, "CStream", "client"},
	{"cstream/SStream", wire.ConnectStream, "SStream", "server"},
	{"cstream/Bidi", wire.ConnectStream, "Bidi", "bidi"},
	{"grpc/Unary", wire.GRPC, "Unary", "unary"},
	{"grpc/CStream", wire.GRPC, "CStream", "client"},
	{"grpc/SStream", wire.GRPC, "SStream", "server"},
	{"grpc/Bidi", wire.GRPC, "Bidi", "bidi"},
	{"grpcweb/Unary", wire.GRPCWeb, "Unary", "unary"},
	{"grpcweb/CStream", wire.GRPCWeb, "CStream", "client"},
	{"grpcweb/SStream", wire.GRPCWeb, "SStream", "server"},
	{"grpcweb/Bidi", wire.GRPCWeb, "Bidi", "bidi"},
	{"rest/Unary", wire.REST, "Unary", "unary"},
	{"rest/Pure", wire.REST, "Pure", "unary"},
	{"rest/Idem", wire.REST, "Idem", "unary"},
	// body-carrying RPC clients calling a method whose REST binding has no body (GET): toward
	// a REST backend the request loses its body
	{"grpcweb/Pure", wire.GRPCWeb, "Pure", "unary"},
	{"cunary/Pure", wire.ConnectUnary, "Pure", "unary"},
}

var allProtoOrder = []vanguard.Protocol{vanguard.ProtocolConnect, vanguard.ProtocolGRPC, vanguard.ProtocolGRPCWeb, vanguard.ProtocolREST}

func protoSets(all bool) [][]vanguard.Protocol {
	var out [][]vanguard.Protocol
	if !all {
		for _, p := range allProtoOrder {
			out = append(out, []vanguard.Protocol{p})
		}
		return append(out, append([]vanguard.Protocol(nil), allProtoOrder...))
	}
	for mask := 1; mask < 16; mask++ {
		var s []vanguard.Protocol
		for i, p := range allProtoOrder {
			if mask&(1<<i) != 0 {
				s = append(s, p)
			}
		}
		out = append(out, s)
	}
	return out
}

var mxTgtCodecs = [][]string{{"proto"}, {"json"}, {"proto", "json"}, {"json", "proto"}, {"alt"}, {"alt", "json"}}
var mxTgtComp = [][]string{nil, {"gzip"}, {"gzip", "rev"}, {"rev"}}

type mxBase struct {
	Client      mxClient
	ClientCodec string
	ClientComp  string
	TgtProtos   []vanguard.Protocol
	TgtCodecs   []string
	TgtComp     []string
	key         string
}

// pickBase draws one cell of the base matrix. wide selects the thorough alphabets.
func pickBase(c *xplor.Ctx, wide bool, allSets bool) *mxBase {
	b := &mxBase{}
	b.Client = mxClients[c.Free("client", len(mxClients))]
	sets := protoSets(allSets)
	b.TgtProtos = sets[c.Free("target-protocols", len(sets))]
	codecs := []string{"proto", "json"}
	if wide {
		codecs = append(codecs, "alt")
	}
	if b.Client.form == wire.REST {
		codecs = []string{"json"}
	}
	b.ClientCodec = codecs[c.Free("client-codec", len(codecs))]
	ntc := 4
	if wide {
		ntc = len(mxTgtCodecs)
	}
	b.TgtCodecs = mxTgtCodecs[c.Free("target-codecs", ntc)]
	comps := []string{"", "gzip"}
	if wide {
		comps = append(comps, "rev")
	}
	b.ClientComp = comps[c.Free("client-compression", len(comps))]
	ntk := 3
	if wide {
		ntk = len(mxTgtComp)
	}
	b.TgtComp = mxTgtComp[c.Free("target-compression", ntk)]
	var ps []string
	for _, p := range b.TgtProtos {
		ps = append(ps, p.String())
	}
	b.key = fmt.Sprintf("%s|%s|%s|tp=%s|tc=%s|tz=%s", b.Client.name, b.ClientCodec, b.ClientComp, strings.Join(ps, "+"), strings.Join(b.TgtCodecs, "+"), strings.Join(b.TgtComp, "+"))
	c.Attr("client", b.Client.name)
	c.Attr("client-codec", b.ClientCodec)
	c.Attr("client-comp", b.ClientComp)
	c.Attr("targets", strings.Join(ps, "+"))
	c.Attr("target-codecs", strings.Join(b.TgtCodecs, "+"))
	c.Attr("target-comp", strings.Join(b.TgtComp, "+"))
	return b
}

// expectedServerProtocol: the client's own protocol if configured, else the first
// configured one in the documented preference order (Connect, gRPC, gRPC-Web, REST).
func (b *mxBase) expectedServerProtocol() vanguard.Protocol {
	own := world.FormToProtocol(b.Client.form)
	for _, p := range b.TgtProtos {
		if p == own {
			return own
		}
	}
	for _, p := range allProtoOrder {
		for _, q := range b.TgtProtos {
			if p == q {
				return p
			}
		}
	}
	return 0
}

func (b *mxBase) config() world.Config {
	cfg := world.Config{Protocols: b.TgtProtos, Codecs: b.TgtCodecs, MaxMsg: 1 << 20, Decoy: true}
	if len(b.TgtComp) == 0 {
		cfg.NoCompress = true
	} else {
		cfg.Compression = b.TgtComp
	}
	return cfg
}

// mxCall is one fully specified exchange over a base cell.
type mxCall struct {
	Base      *mxBase
	ReqMsgs   []proto.Message
	ReqFlags  []bool // per-frame compressed flag (enveloped clients; nil = all compressed if negotiated)
	Accept    []string
	Timeout   string
	ReqHeader http.Header
	// backend behaviour
	RespMsgs     []proto.Message
	RespFlags    []bool
	RespComp     string // "" = none, "auto" = first accepted of {gzip, rev}
	End          *wire.End
	RespHeader   http.Header
	RespTrailer  http.Header
	DeclTrailers bool
	TrailersOnly bool
	CompressEnd  bool
	Mutate       func(sr *wire.ServerResp, rep *world.Reply) // last-minute changes
	RawReply     func(b *world.Backend, r *http.Request) *world.Reply
	SpecMut      func(*drive.ReqSpec)
	Lenient      bool // backend does not validate request payloads
	MaxMsg       uint32
}

type mxObs struct {
	Call    *mxCall
	Spec    *drive.ReqSpec
	Backend *world.Backend
	Ex      *world.Exchange
	BReq    *wire.BackendReq
	CResp   *wire.ClientResp
	SrvResp *wire.ServerResp // what the reference backend decided to send
	Err     error
}

// restRequest builds the REST client's request for the REST-capable methods and returns
// the message it denotes.
func restRequest(method string, m proto.Message, codecComp string) (*drive.ReqSpec, bool) {
	mm := m.ProtoReflect()
	f := func(n string) string { return mm.Get(mm.Descriptor().Fields().ByName(protoName(n))).String() }
	spec := &drive.ReqSpec{Header: http.Header{}, ContentLength: -1, ProtoMajor: 1}
	switch method {
	case "Unary":
		spec.Method, spec.Target = "POST", "/v1/unary"
		spec.Header.Set("Content-Type", "application/json")
		spec.Body = drive.NewBody(Enc("json", m))
	case "Pure":
		// only name and num are carried (path variable + query parameter)
		q := url.Values{}
		q.Set("num", fmt.Sprint(mm.Get(mm.Descriptor().Fields().ByName("num")).Int()))
		spec.Method, spec.Target = "GET", "/v1/pure/"+url.PathEscape(f("name"))+"?"+q.Encode()
		spec.NoBody = true
	case "Idem":
		spec.Method, spec.Target = "PUT", "/v1/idem/"+url.PathEscape(f("name"))
		spec.Header.Set("Content-Type", "application/json")
		child := mm.Get(mm.Descriptor().Fields().ByName("child")).Message().Interface()
		spec.Body = drive.NewBody(Enc("json", child))
	default:
		return nil, false
	}
	if codecComp != "" && spec.Body != nil {
		spec.Body = drive.NewBody(wire.CompByName(codecComp).Compress(spec.Body.Data))
		spec.Header.Set("Content-Encoding", codecComp)
	}
	return spec, true
}

func protoName(n string) protoreflectName { return protoreflectName(n) }

// run executes the call against a fresh transcoder.
func (call *mxCall) run() *mxObs {
	b := call.Base
	obs := &mxObs{Call: call}
	var spec *drive.ReqSpec
	if b.Client.form == wire.REST {
		var ok bool
		spec, ok = restRequest(b.Client.method, call.ReqMsgs[0], b.ClientComp)
		if !ok {
			obs.Err = fmt.Errorf("no REST request for %s", b.Client.method)
			return obs
		}
		if len(call.Accept) > 0 {
			spec.Header.Set("Accept-Encoding", strings.Join(call.Accept, ", "))
		}
		if call.Timeout != "" {
			spec.Header.Set("X-Server-Timeout", call.Timeout)
		}
	} else {
		cr := &wire.ClientReq{Form: b.Client.form, Path: world.SvcPath + b.Client.method, Codec: b.ClientCodec, Compression: b.ClientComp,
			Accept: call.Accept, FrameComp: call.ReqFlags, Timeout: call.Timeout}
		for _, m := range call.ReqMsgs {
			cr.Msgs = append(cr.Msgs, Enc(b.ClientCodec, m))
		}
		spec = world.SpecFromClient(cr)
	}
	for k, v := range call.ReqHeader {
		spec.Header[k] = append(spec.Header[k], v...)
	}
	if call.SpecMut != nil {
		call.SpecMut(spec)
	}
	obs.Spec = spec
	be := &world.Backend{}
	be.Respond = func(bk *world.Backend, r *http.Request) *world.Reply {
		if call.RawReply != nil {
			return call.RawReply(bk, r)
		}
		req := bk.Parsed
		codec := req.Codec
		if !call.Lenient && (req.Form != wire.REST || b.Client.method == "Unary") {
			// like a real server of its protocol, the reference backend refuses what it cannot decode
			rcodec := req.Codec
			if req.Form == wire.REST {
				rcodec = "json"
			}
			if bk.Seen.ReadErr != "" {
				return world.EchoReply(req, nil, "", &wire.End{Code: 1, Message: "request body read error: " + bk.Seen.ReadErr})
			}
			for _, cmp := range req.Complaints {
				if strings.HasPrefix(cmp.Clause, "req.envelope") || strings.HasPrefix(cmp.Clause, "req.flat") {
					return world.EchoReply(req, nil, "", &wire.End{Code: 3, Message: "malformed request: " + cmp.String()})
				}
			}
			if (b.Client.shape == "unary" || b.Client.shape == "server") && len(req.Msgs) != 1 {
				return world.EchoReply(req, nil, "", &wire.End{Code: 12, Message: fmt.Sprintf("unary request with %d messages", len(req.Msgs))})
			}
			for i, m := range req.Msgs {
				if _, err := wire.Unmarshal(rcodec, world.MsgDesc(), m); err != nil {
					return world.EchoReply(req, nil, "", &wire.End{Code: 3, Message: fmt.Sprintf("request message %d does not decode: %v", i, err)})
				}
			}
		}
		sr := &wire.ServerResp{Form: world.ServerFormFor(req.Form), Codec: codec, End: call.End, FrameComp: call.RespFlags,
			Header: call.RespHeader, Trailer: call.RespTrailer, TrailersOnly: call.TrailersOnly, CompressEnd: call.CompressEnd}
		for _, m := range call.RespMsgs {
			enc, err := wire.Marshal(codec, m)
			if err != nil {
				enc = nil
			}
			sr.Msgs = append(sr.Msgs, enc)
		}
		switch call.RespComp {
		case "":
		case "auto":
			for _, a := range req.Accept {
				if a == "gzip" || a == "rev" {
					sr.Compression = a
					break
				}
			}
		default:
			sr.Compression = call.RespComp
		}
		if sr.Compression == "" {
			// a well-behaved backend that does not compress does not flag frames as compressed
			// either (flagged frames without a declared compression are C03's / C09's alphabet)
			sr.FrameComp = nil
		}
		rep := &world.Reply{ContentLength: -1, ReturnAfter: -1, DeclaredTrailers: call.DeclTrailers}
		if call.Mutate != nil {
			call.Mutate(sr, rep)
		}
		rep.Out = sr.Encode()
		obs.SrvResp = sr
		if call.Mutate != nil {
			// second phase for mutations that need the encoded form
			call.Mutate(nil, rep)
		}
		return rep
	}
	cfg := b.config()
	if call.MaxMsg != 0 {
		cfg.MaxMsg = call.MaxMsg
	}
	tc, err := world.Build(cfg, be)
	if err != nil {
		obs.Err = err
		return obs
	}
	ex, err := world.Do(tc, spec)
	if err != nil {
		obs.Err = err
		return obs
	}
	obs.Backend, obs.Ex = be, ex
	obs.BReq = be.Parsed
	form := b.Client.form
	if form == wire.ConnectGet {
		form = wire.ConnectUnary
	}
	r := ex.Rec
	obs.CResp = wire.ParseClientResponse(form, r.Status, r.HeadHeaders(), r.BodyBytes.Bytes(), r.Trailers)
	return obs
}

// defaultMsgs returns the default request/response sequences for a stream shape.
func defaultMsgs(shape string) (req, resp []proto.Message) {
	a, b2, c3 := MkMsg(`{"name":"a","num":7}`), MkMsg(`{"name":"bc","tags":["x","y"]}`), MkMsg(`{"seq":"3","child":{"name":"k"}}`)
	switch shape {
	case "unary":
		return []proto.Message{a}, []proto.Message{b2}
	case "client":
		return []proto.Message{a, b2}, []proto.Message{c3}
	case "server":
		return []proto.Message{a}, []proto.Message{b2, c3}
	}
	return []proto.Message{a, b2}, []proto.Message{c3, a}
}

// decodeAll decodes codec-encoded payloads; an undecodable one yields nil at its index.
func decodeAll(codec string, desc protoreflectMD, payloads [][]byte, bad ...[]bool) []proto.Message {
	out := make([]proto.Message, len(payloads))
	for i, p := range payloads {
		if len(bad) > 0 && i < len(bad[0]) && bad[0][i] {
			continue // the peer could not even decompress this one
		}
		m, err := wire.Unmarshal(codec, desc, p)
		if err == nil {
			out[i] = m
		}
	}
	return out
}

func msgsEqual(a, b []proto.Message) bool {
	if len(a) != len(b) {
		return false
	}
	for i := range a {
		if a[i] == nil || b[i] == nil || !MsgEqual(normNullValues(a[i]), normNullValues(b[i])) {
			return false
		}
	}
	return true
}

func msgsPrefix(a, b []proto.Message) bool {
	if len(a) > len(b) {
		return false
	}
	return msgsEqual(a, b[:len(a)])
}

func renderMsgs(ms []proto.Message) string {
	var parts []string
	for _, m := range ms {
		if m == nil {
			parts = append(parts, "<undecodable>")
			continue
		}
		parts = append(parts, canonMsg("proto", m.ProtoReflect().Descriptor(), Enc("proto", m)))
	}
	s := "[" + strings.Join(parts, " ") + "]"
	if len(s) > 500 {
		s = s[:500] + "..."
	}
	return s
}

// SrvRespBody re-encodes what the reference backend sent (debugging aid).
func (o *mxObs) SrvRespBody() []byte {
	if o.SrvResp == nil {
		return nil
	}
	return o.SrvResp.Encode().Body
}

func (o *mxObs) BReqCodec() string {
	if o.BReq == nil {
		return "proto"
	}
	return o.BReq.Codec
}

func (o *mxObs) BReqMsgs() [][]byte {
	if o.BReq == nil {
		return nil
	}
	return o.BReq.Msgs
}

// SrvRespOut re-encodes what the reference backend sent (debugging aid).
func (o *mxObs) SrvRespOut() *wire.ServerOut {
	if o.SrvResp == nil {
		return &wire.ServerOut{}
	}
	return o.SrvResp.Encode()
}
