package props

import (
	"context"
	"fmt"
	"net/http"
	"sort"
	"strings"
	"sync"

	"connectrpc.com/vanguard"
	"google.golang.org/protobuf/reflect/protoreflect"

	"connectrpc.com/vanguard/verifharness/drive"
	"connectrpc.com/vanguard/verifharness/refroute"
	"connectrpc.com/vanguard/verifharness/wire"
	"connectrpc.com/vanguard/verifharness/world"
	"connectrpc.com/vanguard/verifharness/xplor"
)

// C06 — routing dispatches exactly the method whose binding matches the request.

var c06Templates = []string{
	"/a", "/a/b", "/a/*", "/a/**", "/*", "/**", "/*/b", "/a/{name}", "/a/{name=*}", "/a/{name=**}", "/{name=a/*}", "/{name=a/*}/b", "/a/{name}/b", "/a/*/b",
	"/a/b/{child.name}", "/a/{name}:v", "/a/b:v", "/a/*:w", "/{name=**}:v", "/a/{name=b/*}", "/a/{extra_text}/{name}", "/a/{name=*/b}", "/b/**", "/{name}/{extra_text=**}",
	"/a/{name=b/**}", "/c/{name}/{child.name=*}/{extra_text=**}",
}

var c06Segs = []string{"a", "b", "c", "", "a%2Fb", "100%25", "a%2541", "%C3%A9", "x.y~z-_", "b%3Av"}

func c06Paths() []string {
	var out []string
	var rec func(prefix string, depth int)
	rec = func(prefix string, depth int) {
		for _, s := range c06Segs {
			p := prefix + "/" + s
			out = append(out, p)
			if s != "" {
				out = append(out, p+":v")
			}
			if depth < 3 {
				rec(p, depth+1)
			}
		}
	}
	rec("", 1)
	out = append(out, "/a/b/c/a/b", "/a:w", "/a/b:w", "/a/x:", "/a/b/c/d:v")
	// a raw ':' in a segment other than the last is part of that segment (only the last
	// segment can carry the verb)
	out = append(out, "/a:x/b", "/a/c:d/b", "/c:d", "/c:d/b", "/a/c:d", "/a/c:d:v", "/a/b/c:d", "/c/x:y/z/w", "/a/c:d/b:v", "/a:v/b:v", "/x:y/b", "/a/x:y", "/a/b:v/c", "/a/x:v/b")
	// bytes that Go's URL type does not regard as validly encoded in a path (it then re-encodes
	// the DECODED path in EscapedPath): raw '|', '^', '"' and raw UTF-8, next to an escaped slash
	out = append(out, "/a/x%2Fy|z", "/a/x%2Fy|z/b", "/x%2Fy|z", "/a/b|c", "/a/é%2Fb", "/a/é%2Fb/b", "/a/x%2Fy^", "/a/x%2Fy\"q", "/a/b/x%2Fy|z", "/c/x%2Fy|z/b/c", "/a/x%2Fy|z:v", "/%61/b", "/a/%62", "/%61", "/a/b%3av", "/a/b:%76")
	return out
}

type c06Binding struct {
	tmpl   string
	method string // HTTP method or "*"
}

type c06Table struct {
	bindings []c06Binding
	addl     bool // second binding is an additional_binding of the first method
}

var (
	c06SvcMu    sync.Mutex
	c06SvcCache = map[string]protoreflect.ServiceDescriptor{}
	c06Seq      int
)

// c06Service builds (and caches) a service whose methods carry the table's bindings in the
// given registration order.
func c06Service(tab c06Table, order []int) (protoreflect.ServiceDescriptor, error) {
	key := fmt.Sprint(tab, order)
	c06SvcMu.Lock()
	defer c06SvcMu.Unlock()
	if s, ok := c06SvcCache[key]; ok {
		return s, nil
	}
	var ms []world.MethodSpec
	for _, bi := range order {
		if tab.addl && bi == 1 {
			continue
		}
		b := tab.bindings[bi]
		rule := &world.Rule{Method: b.method, Path: b.tmpl}
		if tab.addl && bi == 0 && len(tab.bindings) > 1 {
			rule.Extra = []world.Rule{{Method: tab.bindings[1].method, Path: tab.bindings[1].tmpl}}
		}
		ms = append(ms, world.MethodSpec{Name: fmt.Sprintf("M%d", bi), Rule: rule})
	}
	c06Seq++
	s, err := world.BuildService(fmt.Sprintf("verif/route/t%d.proto", c06Seq), "verif.route", "Svc", ms)
	if err != nil {
		return nil, err
	}
	if len(c06SvcCache) > 20000 {
		c06SvcCache = map[string]protoreflect.ServiceDescriptor{}
	}
	c06SvcCache[key] = s
	return s, nil
}

type c06Outcome struct {
	status int
	allow  string // sorted set
	method string // Mi that ran
	name   string
	extra  string
	child  string
}

func (o c06Outcome) String() string {
	if o.method != "" {
		return fmt.Sprintf("dispatch %s name=%q extra_text=%q child.name=%q", o.method, o.name, o.extra, o.child)
	}
	return fmt.Sprintf("status %d allow=[%s]", o.status, o.allow)
}

func init() {
	paths := c06Paths()
	type parsed struct {
		t   *refroute.Template
		err error
	}
	tmpls := map[string]parsed{}
	for _, t := range c06Templates {
		p, err := refroute.Parse(t)
		tmpls[t] = parsed{p, err}
	}
	// tables: all 1- and 2-subsets (quick) and 3-subsets (thorough)
	var tables1, tables2, tables3 [][]int
	n := len(c06Templates)
	for a := 0; a < n; a++ {
		tables1 = append(tables1, []int{a})
		for b := a + 1; b < n; b++ {
			tables2 = append(tables2, []int{a, b})
			for c := b + 1; c < n; c++ {
				tables3 = append(tables3, []int{a, b, c})
			}
		}
	}
	mk := func(tables [][]int) func(c *xplor.Ctx) {
		return func(c *xplor.Ctx) {
			ti := c.Free("table", len(tables))
			idx := tables[ti]
			// same template twice (different HTTP methods) is also a table
			dup := c.Choose("same-template-two-methods", 2) == 1
			tab := c06Table{}
			for _, i := range idx {
				tab.bindings = append(tab.bindings, c06Binding{c06Templates[i], "GET"})
			}
			if dup {
				tab.bindings = append(tab.bindings, c06Binding{tab.bindings[0].tmpl, "POST"})
			}
			if m := c.Choose("method-variation", 5); m > 0 && len(tab.bindings) > 0 {
				k := len(tab.bindings) - 1
				tab.bindings[k].method = []string{"POST", "*", "DELETE", "Purge"}[m-1] // "Purge": a custom kind that is not upper case
			}
			if len(tab.bindings) > 1 {
				tab.addl = c.Choose("as-additional-binding", 2) == 1
			}
			chunk := c.Free("path-chunk", 8)
			c.Attr("table", fmt.Sprint(tab.bindings))
			// every registration order
			var orders [][]int
			permute(len(tab.bindings), func(p []int) { orders = append(orders, append([]int(nil), p...)) })
			if tab.addl {
				orders = orders[:1]
			}
			type world2 struct {
				tc  *vanguard.Transcoder
				got *c06Outcome
			}
			var worlds []*world2
			var accepted, rejected []string
			for _, ord := range orders {
				svc, err := c06Service(tab, ord)
				if err != nil {
					c.Fail("harness.setup", "%v", err)
					return
				}
				w2 := &world2{}
				handler := http.HandlerFunc(func(rw http.ResponseWriter, rq *http.Request) {
					seen := drive.Capture(rq)
					seen.ReadBody(rq.Body, nil)
					o := &c06Outcome{method: strings.TrimPrefix(rq.URL.Path, "/verif.route.Svc/")}
					if m, err := wire.Unmarshal("proto", world.MsgDesc(), seen.Body); err == nil {
						mr := m.ProtoReflect()
						f := mr.Descriptor().Fields()
						o.name = mr.Get(f.ByName("name")).String()
						o.extra = mr.Get(f.ByName("extra_text")).String()
						o.child = mr.Get(f.ByName("child")).Message().Get(f.ByName("name")).String()
					} else {
						o.name = "<undecodable>"
					}
					w2.got = o
					rw.Header().Set("Content-Type", "application/proto")
					rw.WriteHeader(200)
				})
				tc, err := world.Build(world.Config{Service: svc, Protocols: []vanguard.Protocol{vanguard.ProtocolConnect}, Codecs: []string{"proto"}}, handler)
				if err != nil {
					rejected = append(rejected, fmt.Sprintf("order %v: %v", ord, err))
					continue
				}
				w2.tc = tc
				worlds = append(worlds, w2)
				accepted = append(accepted, fmt.Sprint(ord))
			}
			if len(rejected) > 0 {
				if len(accepted) > 0 {
					// whether a table can be served does not depend on the order of its rules either
					c.Attr("class", "acceptance-depends-on-order")
					c.Fail("C06.depends-on-registration-order", "table %v is accepted by NewTranscoder in registration order(s) %v but rejected in another: %s", tab.bindings, accepted, rejected[0])
					return
				}
				c.Outcome("table-rejected")
				c.Note("table-rejected")
				return // not a table NewTranscoder accepts (C17 judges that)
			}
			c.Note("table-accepted")
			evals := 0
			for pi, path := range paths {
				if pi%8 != chunk {
					continue
				}
				// the reference verdict
				type cand struct {
					b    c06Binding
					bi   int
					caps map[string]string
					amb  bool
					zero bool
				}
				var matches []cand
				for bi, b := range tab.bindings {
					p := tmpls[b.tmpl]
					if caps, ok, amb, zero := p.t.Match2(path); ok {
						matches = append(matches, cand{b, bi, caps, amb, zero})
					}
				}
				// HTTP methods are case-sensitive tokens: a fourth request per path uses a method that
				// differs from a standard or configured one only in case (or is the custom kind itself)
				for hi, hm := range []string{"GET", "POST", "DELETE", []string{"get", "Delete", "Purge", "PURGE", "Post"}[pi%5]} {
					evals++
					var outs []c06Outcome
					for _, w2 := range worlds {
						w2.got = nil
						spec := &drive.ReqSpec{Method: hm, Target: path, Header: http.Header{}, ContentLength: -1, NoBody: true}
						if hm != "GET" {
							spec.NoBody = false
							spec.Body = drive.NewBody(nil)
							spec.Header.Set("Content-Type", "application/json")
						}
						req, err := spec.Build(context.Background())
						if err != nil {
							c.Fail("harness.setup", "path %q: %v", path, err)
							return
						}
						// The request line as the server saw it is not what routing is about: an
						// absolute-form request line, or a path rewritten by a middleware in front of
						// the transcoder (http.StripPrefix), leaves RequestURI different from URL.
						// Every path meets all three forms (one per HTTP method).
						switch (pi + hi) % 3 {
						case 1:
							req.RequestURI = "http://example.test" + path
						case 2:
							req.RequestURI = "/mounted/here" + path
						}
						rec := drive.NewRecorder()
						if pi := drive.Serve(w2.tc, rec, rec, req, spec.Body); pi != nil {
							c.Fail("C06.panic", "%s %s on table %v: %s\n%s", hm, path, tab.bindings, pi.Value, stackTop(pi.Stack))
							return
						}
						o := c06Outcome{status: rec.Status}
						if w2.got != nil {
							o = *w2.got
						} else {
							var al []string
							for _, v := range rec.Snapshot.Values("Allow") {
								for _, p := range strings.Split(v, ",") {
									al = append(al, strings.TrimSpace(p))
								}
							}
							sort.Strings(al)
							o.allow = strings.Join(al, ",")
						}
						outs = append(outs, o)
					}
					for i := 1; i < len(outs); i++ {
						if outs[i] != outs[0] {
							c.Fail("C06.depends-on-registration-order", "%s %s on table %v: registration order %v gives %s, order %v gives %s", hm, path, tab.bindings, orders[0], outs[0], orders[i], outs[i])
						}
					}
					got := outs[0]
					// acceptable outcomes per the reference
					ambiguous := false
					for _, m := range matches {
						ambiguous = ambiguous || m.amb
					}
					if ambiguous || strings.HasSuffix(path, ":") {
						// an empty segment under a wildcard, or an empty verb: the grammar does not say
						// whether that matches. But IF the transcoder dispatches to a binding that
						// matches under the lenient reading, what it captures must be the text the
						// wildcards matched - not something shorter.
						if got.method != "" {
							for _, m := range matches {
								id := fmt.Sprintf("M%d", m.bi)
								if tab.addl && m.bi == 1 {
									id = "M0"
								}
								if id != got.method || m.b.method != hm && m.b.method != "*" {
									continue
								}
								want := c06Outcome{method: id, name: m.caps["name"], extra: m.caps["extra_text"], child: m.caps["child.name"]}
								if got != want && len(matches) == 1 {
									c.Attr("class", "capture-differs-from-matched-text")
									c.Fail("C06.wrong-capture", "%s %s on table %v (a path with an empty segment): dispatched to %s with %s, but the text matched by its wildcards is %s", hm, path, tab.bindings, got.method, got, want)
								}
							}
						}
						continue
					}
					if len(matches) == 0 {
						if got.method != "" || got.status != 404 {
							c.Attr("class", "no-match")
							c.Fail("C06.dispatch-without-matching-binding", "%s %s matches no template of table %v but the transcoder answered: %s", hm, path, tab.bindings, got)
						}
						continue
					}
					// group by template
					byT := map[string][]cand{}
					lit := ""
					for _, m := range matches {
						canon := tmpls[m.b.tmpl].t.Canon()
						byT[canon] = append(byT[canon], m)
						if tmpls[m.b.tmpl].t.AllLiteral() {
							lit = canon
						}
					}
					okAny := false
					var wants []string
					for canon, cs := range byT {
						if lit != "" && canon != lit {
							continue // an all-literal template takes precedence
						}
						var chosen *cand
						var allowSet []string
						for i := range cs {
							allowSet = append(allowSet, cs[i].b.method)
							if cs[i].b.method == hm {
								chosen = &cs[i]
							}
						}
						if chosen == nil {
							for i := range cs {
								if cs[i].b.method == "*" {
									chosen = &cs[i]
								}
							}
						}
						if chosen != nil {
							want := c06Outcome{method: fmt.Sprintf("M%d", chosen.bi), name: chosen.caps["name"], extra: chosen.caps["extra_text"], child: chosen.caps["child.name"]}
							if tab.addl && chosen.bi == 1 {
								want.method = "M0"
							}
							wants = append(wants, want.String())
							if got == want {
								okAny = true
							}
						} else {
							wants = append(wants, fmt.Sprintf("405 with Allow within %v", allowSet))
							if got.method == "" && got.status == 405 && got.allow != "" {
								sub := true
								for _, a := range strings.Split(got.allow, ",") {
									if !inStrs(a, allowSet) {
										sub = false
									}
								}
								okAny = okAny || sub
							}
						}
					}
					if len(byT) > 1 || strings.Contains(path, "%") {
						c.Nontrivial(fmt.Sprint(tab.bindings, path, hm))
					}
					if !okAny {
						c.Attr("class", "wrong-dispatch")
						allZero := true
						for _, m := range matches {
							allZero = allZero && m.zero
						}
						if allZero && got.method == "" && got.status == 404 {
							c.Attr("class", "double-star-matching-zero-segments")
						}
						c.Fail("C06.wrong-dispatch", "%s %s on table %v: transcoder answered: %s; acceptable per the template grammar: %v", hm, path, tab.bindings, got, wants)
					}
				}
			}
			// A middleware in front of the transcoder that rewrites only URL.Path (the
			// strings.TrimPrefix(r.URL.Path, "/api") idiom, path aliasing) leaves URL.RawPath stale.
			// net/url's contract: RawPath is a hint that counts only while it is an encoding of Path
			// (EscapedPath ignores it otherwise). Differential: such a request must be routed exactly
			// like a fresh request for the path the URL now denotes.
			for pi, path := range paths {
				if pi%8 != chunk || !strings.ContainsAny(path, "%é") {
					continue
				}
				w2 := worlds[0]
				serve := func(req *http.Request) (c06Outcome, bool) {
					w2.got = nil
					rec := drive.NewRecorder()
					if pn := drive.Serve(w2.tc, rec, rec, req, nil); pn != nil {
						c.Fail("C06.panic", "GET %s (stale RawPath) on table %v: %s\n%s", path, tab.bindings, pn.Value, stackTop(pn.Stack))
						return c06Outcome{}, false
					}
					if w2.got != nil {
						return *w2.got, true
					}
					return c06Outcome{status: rec.Status}, true
				}
				mounted, err := (&drive.ReqSpec{Method: "GET", Target: "/api" + path, Header: http.Header{}, ContentLength: -1, NoBody: true}).Build(context.Background())
				if err != nil || mounted.URL.RawPath == "" {
					continue
				}
				mounted.URL.Path = strings.TrimPrefix(mounted.URL.Path, "/api") // RawPath still says /api/...
				eff := mounted.URL.EscapedPath()
				fresh, err := (&drive.ReqSpec{Method: "GET", Target: eff, Header: http.Header{}, ContentLength: -1, NoBody: true}).Build(context.Background())
				if err != nil {
					continue
				}
				evals++
				a, ok1 := serve(fresh)
				b, ok2 := serve(mounted)
				if ok1 && ok2 && a != b {
					c.Attr("class", "stale-rawpath")
					c.Fail("C06.routed-by-stale-rawpath", "GET with URL.Path %q and a stale URL.RawPath %q (a middleware rewrote Path only) on table %v: %s; a fresh request for %s gets: %s", mounted.URL.Path, mounted.URL.RawPath, tab.bindings, b, eff, a)
				}
				c.Note("stale-rawpath-compared")
			}
			c.AddEvaluations(evals * len(worlds))
			c.Outcome("table-checked")
		}
	}
	Register(&Check{
		ID:    "C06",
		Level: "exploration",
		Rule: "Route tables: every set of 1..2 (quick) / 1..3 (thorough) templates out of 26 (literals, *, **, single/multi-segment and nested variables, verbs, overlapping prefixes), optionally the same template under two HTTP methods, one binding switched to POST / custom '*' / DELETE, second binding as additional_binding; " +
			"each accepted table is registered in every permutation; every raw request path of up to 3 segments over {a, b, c, empty, a%2Fb, 100%25, a%2541, %C3%A9, x.y~z-_, b%3Av} with and without a verb (plus 5 longer ones) x {GET, POST, DELETE} is sent. " +
			"Oracle: an independent template parser/matcher on the raw path decides 404 / 405+Allow / dispatch with captures (literal over wildcard; any wildcard template when several match); all registration orders must agree. Non-trivial = (table, path) with two candidate templates or an escape in the path.",
		Assume: []string{"an empty path segment under a wildcard, and non-canonical escapes in literal positions, are not judged (the grammar is silent)"},
		Scenarios: []Scenario{
			{Name: "tables-1", Fn: mk(tables1), QuickBound: 2, ThoroughBound: 3},
			{Name: "tables-2", Fn: mk(tables2), QuickBound: 1, ThoroughBound: 2},
			{Name: "tables-3", Fn: mk(tables3), QuickBound: -1, ThoroughBound: 0},
		},
		RequireNotes: []string{"table-accepted"},
		MinOutcomes:  1,
	})
}

func permute(n int, f func([]int)) {
	p := make([]int, n)
	for i := range p {
		p[i] = i
	}
	var rec func(k int)
	rec = func(k int) {
		if k == n {
			f(p)
			return
		}
		for i := k; i < n; i++ {
			p[k], p[i] = p[i], p[k]
			rec(k + 1)
			p[k], p[i] = p[i], p[k]
		}
	}
	rec(0)
}
