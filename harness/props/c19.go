package props

import (
	"encoding/base64"
	"fmt"
	"net/http"
	"net/url"
	"strings"

	"connectrpc.com/vanguard"
	"google.golang.org/protobuf/proto"

	"connectrpc.com/vanguard/verifharness/drive"
	"connectrpc.com/vanguard/verifharness/wire"
	"connectrpc.com/vanguard/verifharness/world"
	"connectrpc.com/vanguard/verifharness/xplor"
)

// C19 — GET is accepted and issued only for side-effect-free methods.

var c19Methods = []struct {
	name string
	nse  bool
}{{"Unary", false}, {"Pure", true}, {"Idem", false}, {"NoRule", false}, {"SStream", false}, {"CStream", false}, {"Bidi", false}} // (the issue side uses the first three)

var c19Msgs = []string{`{"name":"a","num":7}`, `{"name":"a;b","tags":[";"]}`, `{}`, `{"name":"é/😀?&=+%","tags":["x y"]}`, `{"raw":"AP8+/w==","seq":"-1"}`, `{"extraText":"` + strings.Repeat("w", 300) + `"}`}

// c19GetTarget builds a Connect GET request-target with explicit knobs.
func c19GetTarget(path, codec, comp string, msg proto.Message, b64 int) (string, bool) {
	q := url.Values{}
	q.Set("connect", "v1")
	q.Set("encoding", codec)
	payload := Enc(codec, msg)
	if comp != "" {
		payload = wire.CompByName(comp).Compress(payload)
		q.Set("compression", comp)
	}
	binary := codec != "json" || comp != ""
	switch b64 {
	case 0: // absent
		if binary {
			return "", false
		}
		q.Set("message", string(payload))
	case 1: // base64=0
		if binary {
			return "", false
		}
		q.Set("base64", "0")
		q.Set("message", string(payload))
	case 2: // base64=1 unpadded url-safe
		q.Set("base64", "1")
		q.Set("message", base64.RawURLEncoding.EncodeToString(payload))
	case 3: // base64=1 padded url-safe
		q.Set("base64", "1")
		q.Set("message", base64.URLEncoding.EncodeToString(payload))
	}
	return path + "?" + q.Encode(), true
}

func init() {
	// ---- (a) client side: GET accepted only for side-effect-free methods, and decoded like POST
	accept := func(c *xplor.Ctx) {
		m := c19Methods[c.Free("method", len(c19Methods))]
		httpMethod := []string{"GET", "POST", "PUT", "HEAD", "DELETE"}[c.Free("http-method", 5)]
		codec := []string{"proto", "json", "alt"}[c.Free("codec", 3)]
		comp := []string{"", "gzip"}[c.Free("compression", 2)]
		b64 := c.Free("base64", 4)
		msg := MkMsg(c19Msgs[c.Free("message", len(c19Msgs))])
		tgt := allProtoOrder[c.Free("target-protocol", 3)] // Connect, gRPC, gRPC-Web
		c.Attr("method", m.name)
		c.Attr("http-method", httpMethod)
		c.Attr("target", tgt.String())
		target, ok := c19GetTarget(world.SvcPath+m.name, codec, comp, msg, b64)
		if !ok {
			c.Skip()
			return
		}
		// how the request says it is a Connect GET: the connect=v1 query parameter, the
		// Connect-Protocol-Version header, or both
		getForm := c.Free("get-form", 3)
		if getForm == 1 {
			target = strings.Replace(target, "connect=v1&", "", 1)
		}
		c.Attr("~get-form", []string{"query", "header", "query+header"}[getForm])
		if strings.Contains(target, "%3B") && c.Free("semicolon-spelling", 2) == 1 {
			// RFC 3986 allows a raw ';' in a query; Go's server hands it to the handler as it is
			target = strings.ReplaceAll(target, "%3B", ";")
			c.Attr("~semicolon", "raw")
		}
		run := func(spec *drive.ReqSpec) (*world.Backend, *world.Exchange) {
			be := &world.Backend{Respond: func(b *world.Backend, r *http.Request) *world.Reply {
				return world.EchoReply(b.Parsed, [][]byte{Enc(b.Parsed.Codec, MkMsg(`{"name":"ok"}`))}, "", nil)
			}}
			// the target accepts a different codec, so the request is really transcoded
			tcodec := map[string]string{"proto": "json", "json": "proto", "alt": "proto"}[codec]
			tc, err := world.Build(world.Config{Protocols: []vanguard.Protocol{tgt}, Codecs: []string{tcodec}, Compression: []string{"gzip"}, MaxMsg: 1 << 20}, be)
			if err != nil {
				c.Fail("harness.setup", "%v", err)
				return nil, nil
			}
			ex, err := world.Do(tc, spec)
			if err != nil {
				c.Fail("harness.setup", "%v", err)
				return nil, nil
			}
			return be, ex
		}
		spec := &drive.ReqSpec{Method: httpMethod, Target: target, Header: http.Header{}, ContentLength: -1, NoBody: true}
		if getForm > 0 {
			spec.Header.Set("Connect-Protocol-Version", "1")
		}
		if httpMethod != "GET" && httpMethod != "HEAD" {
			spec.NoBody, spec.Body = false, drive.NewBody(nil)
		}
		be, ex := run(spec)
		if be == nil {
			return
		}
		desc := fmt.Sprintf("%s %s (method %s, side-effect-free=%v) toward %s", httpMethod, short100(target), m.name, m.nse, tgt)
		if ex.Panic != nil {
			c.Fail("C19.panic", "%s: %s\n%s", desc, ex.Panic.Value, stackTop(ex.Panic.Stack))
			return
		}
		c.Nontrivial(desc)
		status := ex.Rec.Status
		if httpMethod != "GET" {
			// the Connect GET form with another HTTP method is not a valid request of any protocol here
			if be.Calls != 0 && !be.Direct {
				c.Fail("C19.non-get-accepted-as-connect-get", "%s: dispatched (backend calls=%d)", desc, be.Calls)
			}
			c.Outcome(fmt.Sprintf("non-get-%d", status))
			return
		}
		if !m.nse {
			allow := strings.Join(ex.Rec.Snapshot.Values("Allow"), ",")
			if be.Calls != 0 || status != 405 || allow == "" {
				c.Fail("C19.get-accepted-for-method-with-side-effects", "%s: want 405 with Allow and no dispatch; got HTTP %d, Allow %q, backend calls=%d", desc, status, allow, be.Calls)
			}
			c.Outcome("405")
			return
		}
		if be.Calls != 1 || status != 200 {
			c.Fail("C19.valid-get-rejected", "%s: HTTP %d %s, backend calls=%d", desc, status, short(ex.Rec.BodyBytes.String()), be.Calls)
			return
		}
		got := decodeAll(be.Parsed.Codec, world.MsgDesc(), be.Parsed.Msgs, be.Parsed.MsgBad)
		// differential: a POST carrying the same content
		cr := &wire.ClientReq{Form: wire.ConnectUnary, Path: world.SvcPath + m.name, Codec: codec, Compression: comp, Msgs: [][]byte{Enc(codec, msg)}}
		be2, ex2 := run(world.SpecFromClient(cr))
		if be2 == nil {
			return
		}
		if be2.Calls != 1 || ex2.Rec.Status != 200 {
			c.Fail("harness.base-not-ok", "POST equivalent of %s failed: HTTP %d", desc, ex2.Rec.Status)
			return
		}
		got2 := decodeAll(be2.Parsed.Codec, world.MsgDesc(), be2.Parsed.Msgs, be2.Parsed.MsgBad)
		if !msgsEqual(got, got2) || !msgsEqual(got, []proto.Message{msg}) {
			c.Fail("C19.get-decodes-differently-from-post", "%s: backend received %s via GET, %s via POST, client sent %s", desc, renderMsgs(got), renderMsgs(got2), renderMsgs([]proto.Message{msg}))
		}
		c.Outcome("get-accepted")
	}
	// ---- (b) server side: GET issued only if client sent GET, method is NSE, codec stable, URL fits
	type cli struct {
		name string
		form wire.Form
	}
	clients := []cli{{"connect-get", wire.ConnectGet}, {"connect-post", wire.ConnectUnary}, {"grpc", wire.GRPC}, {"grpc-web", wire.GRPCWeb}, {"rest-get", wire.REST}}
	issue := func(c *xplor.Ctx) {
		cl := clients[c.Free("client", len(clients))]
		m := c19Methods[c.Free("method", 3)]
		ccodec := []string{"proto", "json"}[c.Free("client-codec", 2)]
		tcodec := []string{"proto", "json", "alt"}[c.Free("target-codec", 3)]
		comp := []string{"", "gzip"}[c.Free("compression", 2)]
		msg := MkMsg(c19Msgs[c.Free("message", len(c19Msgs))])
		delta := c.Free("limit-delta", 7)      // 0: generous, 1: exact-1, 2: exact, 3: exact+1; limits no URL can meet: 4: 1, 5: length of the path, 6: length of the path + 1
		spelling := c.Free("path-spelling", 2) // 1: the client percent-escapes unreserved characters of the RPC path
		if cl.form == wire.REST && (m.name != "Pure" || ccodec != "json") {
			c.Skip()
			return
		}
		if cl.form == wire.ConnectGet && !m.nse {
			c.Skip()
			return
		}
		c.Attr("client", cl.name)
		c.Attr("method", m.name)
		c.Attr("target-codec", tcodec)
		if spelling == 1 {
			if cl.form == wire.REST {
				c.Skip()
				return
			}
			c.Attr("path-spelling", "percent-escaped unreserved characters")
		}
		run := func(limit uint32) (*world.Backend, *world.Exchange) {
			be := &world.Backend{Respond: func(b *world.Backend, r *http.Request) *world.Reply {
				return world.EchoReply(b.Parsed, [][]byte{Enc(b.Parsed.Codec, MkMsg(`{"name":"ok"}`))}, "", nil)
			}}
			cfg := world.Config{Protocols: []vanguard.Protocol{vanguard.ProtocolConnect}, Codecs: []string{tcodec}, Compression: []string{"gzip"}, MaxMsg: 1 << 20, MaxGetURL: limit}
			tc, err := world.Build(cfg, be)
			if err != nil {
				c.Fail("harness.setup", "%v", err)
				return nil, nil
			}
			var spec *drive.ReqSpec
			if cl.form == wire.REST {
				mm := msg.ProtoReflect()
				spec = &drive.ReqSpec{Method: "GET", Target: "/v1/pure/" + pctEncode(mm.Get(mm.Descriptor().Fields().ByName("name")).String()+"x") + "?num=3", Header: http.Header{}, ContentLength: -1, NoBody: true}
			} else {
				cr := &wire.ClientReq{Form: cl.form, Path: world.SvcPath + m.name, Codec: ccodec, Compression: comp, Msgs: [][]byte{Enc(ccodec, msg)}}
				spec = world.SpecFromClient(cr)
				if spelling == 1 {
					spec.Target = strings.Replace(spec.Target, "/"+m.name, "/"+fmt.Sprintf("%%%02X", m.name[0])+m.name[1:len(m.name)-1]+fmt.Sprintf("%%%02x", m.name[len(m.name)-1]), 1)
				}
			}
			ex, err := world.Do(tc, spec)
			if err != nil {
				c.Fail("harness.setup", "%v", err)
				return nil, nil
			}
			return be, ex
		}
		be0, ex0 := run(1 << 20)
		if be0 == nil {
			return
		}
		if ex0.Panic != nil {
			c.Fail("C19.panic", "%s", ex0.Panic.Value)
			return
		}
		if be0.Calls != 1 {
			c.Outcome("not-dispatched")
			return
		}
		clientGET := cl.form == wire.ConnectGet || cl.form == wire.REST
		stable := tcodec != "alt"
		judge := func(be *world.Backend, limit uint32, where string) {
			s := be.Seen
			desc := fmt.Sprintf("client %s codec %s comp %q, method %s (side-effect-free=%v), target codec %s, max GET URL %d (%s): backend saw %s %s", cl.name, ccodec, comp, m.name, m.nse, tcodec, limit, where, s.Method, short100(s.URL))
			if be.Direct {
				c.Outcome("pass-through")
				return // forwarded untouched (C13)
			}
			c.Nontrivial(desc)
			// what goes on the wire when the request is sent on (http.Transport, a reverse proxy):
			// the escaped path - URL.RawPath where it is a valid spelling of URL.Path
			urlLen := c19WireLen(s)
			switch s.Method {
			case "GET":
				switch {
				case !clientGET:
					c.Fail("C19.get-issued-for-non-get-client", "%s", desc)
				case !m.nse:
					c.Fail("C19.get-issued-for-method-with-side-effects", "%s", desc)
				case !stable:
					c.Fail("C19.get-issued-with-unstable-codec", "%s", desc)
				case uint32(urlLen) > limit:
					c.Fail("C19.get-url-exceeds-limit", "%s: URL length %d > limit %d", desc, urlLen, limit)
				}
				if len(s.Body) != 0 {
					c.Fail("C19.get-with-body", "%s: %d body bytes", desc, len(s.Body))
				}
				got := decodeAll(be.Parsed.Codec, world.MsgDesc(), be.Parsed.Msgs, be.Parsed.MsgBad)
				if cl.form != wire.REST && !msgsEqual(got, []proto.Message{msg}) {
					c.Fail("C19.get-query-does-not-decode-to-message", "%s: query decodes to %s, client sent %s (complaints %v)", desc, renderMsgs(got), renderMsgs([]proto.Message{msg}), be.Parsed.Complaints)
				}
				c.Outcome("issued-get")
			case "POST":
				if s.RawQuery != "" {
					c.Fail("C19.post-with-query", "%s", desc)
				}
				got := decodeAll(be.Parsed.Codec, world.MsgDesc(), be.Parsed.Msgs, be.Parsed.MsgBad)
				if cl.form != wire.REST && !msgsEqual(got, []proto.Message{msg}) {
					c.Fail("C19.post-body-is-not-the-message", "%s: body decodes to %s", desc, renderMsgs(got))
				}
				c.Outcome("issued-post")
			default:
				c.Fail("C19.unexpected-http-method", "%s", desc)
			}
		}
		if delta == 0 {
			judge(be0, 1<<20, "generous")
			return
		}
		if be0.Seen.Method != "GET" || be0.Direct {
			c.Skip() // the URL length only matters where a GET is issued
			return
		}
		exact := c19WireLen(be0.Seen)
		limit := uint32(exact + delta - 2)
		if delta >= 4 {
			// a limit smaller than any possible URL ("never use GET"): arithmetic on the limit must not wrap
			pathLen := exact - 1 - len(be0.Seen.RawQuery)
			limit = []uint32{1, uint32(pathLen), uint32(pathLen + 1)}[delta-4]
		}
		be1, ex1 := run(limit)
		if be1 == nil {
			return
		}
		if ex1.Panic != nil || be1.Calls != 1 {
			c.Fail("C19.limit-run-failed", "limit %d: backend calls=%d, HTTP %d", limit, be1.Calls, ex1.Rec.Status)
			return
		}
		judge(be1, limit, fmt.Sprintf("exact URL length %d", exact))
		if int(limit) >= exact && be1.Seen.Method == "GET" && be1.Seen.URL != be0.Seen.URL {
			c.Fail("C19.get-url-depends-on-limit", "URL changed with the limit: %s vs %s", short100(be1.Seen.URL), short100(be0.Seen.URL))
		}
	}
	Register(&Check{
		ID:    "C19",
		Level: "exploration",
		Rule: "Accept side (exhaustive cross): 7 methods (idempotency unset / NO_SIDE_EFFECTS / IDEMPOTENT / no rule / server, client and bidi streams) x HTTP methods {GET, POST, PUT, HEAD, DELETE} x client codec {proto, json, alt} x compression {none, gzip} x base64 {absent, 0, 1 unpadded, 1 padded} x 5 messages x 3 target protocols; an accepted GET is compared with the POST carrying the same content. " +
			"Issue side (exhaustive cross): 5 client forms x 3 methods x client codec x target codec {proto, json, alt (not stable)} x compression x 5 messages x max-GET-URL in {generous, exact-1, exact, exact+1, 1, length of the path, length of the path + 1} where exact is the length of the URL actually issued. Non-trivial = cases failing exactly one GET precondition or within +-1 of the URL limit.",
		Assume: []string{"requests forwarded untouched (same protocol, codec and compression) are C13's business, not judged against the URL limit"},
		Scenarios: []Scenario{
			{Name: "accept-get", Fn: accept, QuickBound: 0, ThoroughBound: 0},
			{Name: "issue-get", Fn: issue, QuickBound: 0, ThoroughBound: 0},
		},
		MinOutcomes: 5,
	})
}

// c19WireLen is the length of the request-target the backend's request renders to.
func c19WireLen(s *drive.Seen) int {
	u := url.URL{Path: s.Path, RawPath: s.RawPath}
	return len(u.EscapedPath()) + 1 + len(s.RawQuery)
}
