package props

import (
	"fmt"
	"os"
	"strings"

	"connectrpc.com/vanguard"
	"google.golang.org/protobuf/proto"

	"connectrpc.com/vanguard/verifharness/drive"
	"connectrpc.com/vanguard/verifharness/wire"
	"connectrpc.com/vanguard/verifharness/world"
	"connectrpc.com/vanguard/verifharness/xplor"
)

// C01 — messages arrive intact across every protocol, codec and compression pairing.

// msgAlphabet is ordered simplest first.
var msgAlphabet = []string{
	`{}`,
	`{"name":"a"}`,
	`{"name":"\u0000é😀 z"}`,
	`{"name":"a/b?c=d&e#f%g+h i:j;k,l=m@n[o]p{q}r|s\\t^u~v'w\"x<y>z"}`,
	`{"all":{"doubleValue":"NaN","floatValue":"NaN"}}`,
	`{"all":{"doubleValue":"Infinity","floatValue":"-Infinity"}}`,
	`{"all":{"doubleValue":-0.0,"floatValue":3.4028235e38,"doubleList":[1.7976931348623157e308,5e-324]}}`,
	`{"all":{"int32Value":-2147483648,"int64Value":"-9223372036854775808","uint32Value":4294967295,"uint64Value":"18446744073709551615","sint32Value":2147483647,"sint64Value":"9223372036854775807","fixed64Value":"18446744073709551615","sfixed64Value":"-9223372036854775808"}}`,
	`{"raw":"AP8="}`,
	`{"raw":"AAECAwQFBgcICQoLDA0ODxAREhMUFRYXGBkaGxwdHh8gISIjJCUmJygpKissLS4vMDEyMzQ1Njc4OTo7PD0+P0BBQkNERUZHSElKS0xNTk9QUVJTVFVWV1hZWltcXV5fYGFiY2RlZmdoaWprbG1ub3BxcnN0dXZ3eHl6e3x9fn+AgYKDhIWGh4iJiouMjY6PkJGSk5SVlpeYmZqbnJ2en6ChoqOkpaanqKmqq6ytrq+wsbKztLW2t7i5uru8vb6/wMHCw8TFxsfIycrLzM3Oz9DR0tPU1dbX2Nna29zd3t/g4eLj5OXm5+jp6uvs7e7v8PHy8/T19vf4+fr7/P3+/w=="}`,
	`{"all":{"int32ToStringMap":{"-1":"x"},"boolToStringMap":{"true":"t"},"uint64ToStringMap":{"18446744073709551615":"m"},"stringToStringMap":{"":"empty key"}}}`,
	`{"all":{"bytesMap":{"k":"/w=="},"doubleMap":{"k":"NaN"},"int64Map":{"k":"-1"}}}`,
	`{"anyValue":{"@type":"type.googleapis.com/verif.v1.Msg","name":"inside any","num":3}}`,
	`{"anyValue":{"@type":"type.googleapis.com/google.protobuf.Duration","value":"1.500s"},"kids":[{"anyValue":{"@type":"type.googleapis.com/verif.v1.Msg","tags":["t"]}}]}`,
	`{"pv":{"oneofDoubleValue":0}}`,
	`{"pv":{"oneofEnumValue":"ENUM_VALUE"}}`,
	`{"all":{"optInt32Value":0,"optDoubleValue":0}}`,
	`{"child":{"child":{"child":{"name":"deep"}}}}`,
	`{"tags":["","a","",""],"nums":[0,-1,2147483647],"kids":[{},{"name":"k2"}]}`,
	`{"all":{"boolList":[true,false,true],"bytesList":["","AA=="],"stringList":["","x"],"sint64List":["-1","1"],"fixed32List":[0,4294967295]}}`,
	`{"pv":{"timestamp":"1970-01-01T00:00:00Z","duration":"-315576000000.999999999s","fieldMask":"a.b,c","int64ValueWrapper":"0","stringValueWrapper":"","bytesValueWrapper":"","boolValueWrapper":false}}`,
	`{"pv":{"timestamp":"9999-12-31T23:59:59.999999999Z","doubleValueWrapper":"NaN","doubleValueList":[0,"Infinity"]}}`,
	`{"st":{"a":null,"b":[1,"x",true,{"c":{}}],"d":1.5}}`,
	`{"pv":{"structValue":{},"value":[null],"stringValueMap":{"k":""},"nestedMap":{"n":{"enumValue":"ENUM_VALUE"}},"enumMap":{"e":"ENUM_VALUE"}}}`,
	`{"body":{"contentType":"text/plain","data":"aGk="}}`,
	`{"extraText":"` + strings.Repeat("x", 300) + `"}`,
	`{"extraText":"` + strings.Repeat("\\u00e9y", 1700) + `"}`,
}

// smaller alphabets for the REST client forms, whose request shape limits what is carried
var restPureAlphabet = []string{`{"name":"a","num":7}`, `{"name":"x y","num":-1}`, `{"name":"é😀","num":2147483647}`, `{"name":"a%2Fb","num":0}`, `{"name":"-._~","num":1}`}
var restIdemAlphabet = []string{`{"name":"a","child":{"name":"k","num":3}}`, `{"name":"z","child":{}}`, `{"name":"q","child":{"tags":["t"],"raw":"AP8="}}`}

func noRESTBinding(method string) bool {
	switch method {
	case "CStream", "SStream", "Bidi", "NoRule":
		return true
	}
	return false
}

func init() {
	mk := func(wide, allSets bool) func(c *xplor.Ctx) {
		return func(c *xplor.Ctx) {
			b := pickBase(c, wide, allSets)
			if b.expectedServerProtocol() == vanguard.ProtocolREST && noRESTBinding(b.Client.method) {
				c.Skip()
				return
			}
			shape := b.Client.shape
			req, resp := defaultMsgs(shape)
			isREST := b.Client.form == wire.REST
			alpha := msgAlphabet
			switch {
			case isREST && b.Client.method == "Pure":
				alpha = restPureAlphabet
				req = []proto.Message{MkMsg(alpha[0])}
			case isREST && b.Client.method == "Idem":
				alpha = restIdemAlphabet
				req = []proto.Message{MkMsg(alpha[0])}
			}
			// ---- deviations
			if shape == "client" || shape == "bidi" {
				if n := c.Choose("req-count", 4); n > 0 {
					cnt := []int{0, 1, 3}[n-1]
					base := req
					req = nil
					for i := 0; i < cnt; i++ {
						req = append(req, base[i%len(base)])
					}
				}
			}
			if (shape == "unary" || shape == "server") && b.Client.form.Enveloped() && c.Choose("two-requests-where-one-is-due", 2) == 1 {
				req = append(req, MkMsg(`{"name":"second request","num":2,"tags":["x"]}`))
			}
			for i := range req {
				if v := c.Choose(fmt.Sprintf("req-msg%d", i), len(alpha)+1); v > 0 {
					req[i] = MkMsg(alpha[v-1])
				}
			}
			var reqFlags []bool
			if b.ClientComp != "" && b.Client.form.Enveloped() {
				for i := range req {
					if c.Choose(fmt.Sprintf("req-frame%d-uncompressed", i), 2) == 1 {
						if reqFlags == nil {
							reqFlags = make([]bool, len(req))
							for j := range reqFlags {
								reqFlags[j] = true
							}
						}
						reqFlags[i] = false
					}
				}
			}
			if shape == "server" || shape == "bidi" {
				if n := c.Choose("resp-count", 4); n > 0 {
					cnt := []int{0, 1, 3}[n-1]
					base := resp
					resp = nil
					for i := 0; i < cnt; i++ {
						resp = append(resp, base[i%len(base)])
					}
				}
			}
			// (a backend speaking a protocol without envelopes cannot even express a second message)
			flatBackend := b.expectedServerProtocol() == vanguard.ProtocolREST || b.expectedServerProtocol() == vanguard.ProtocolConnect && shape == "unary"
			if (shape == "unary" || shape == "client") && !flatBackend && c.Choose("two-responses-where-one-is-due", 2) == 1 {
				resp = append(resp, MkMsg(`{"name":"second response","num":2,"tags":["y"]}`))
			}
			for i := range resp {
				if v := c.Choose(fmt.Sprintf("resp-msg%d", i), len(msgAlphabet)+1); v > 0 {
					resp[i] = MkMsg(msgAlphabet[v-1])
				}
			}
			// fields the schema does not know (a newer client or server): carried through wherever
			// both legs speak the binary codec
			if b.ClientCodec == "proto" && inStrs("proto", b.TgtCodecs) && !isREST && b.expectedServerProtocol() != vanguard.ProtocolREST && c.Choose("unknown-fields", 2) == 1 {
				// (JSON has no place for them: toward or from a JSON leg they are dropped, which is not judged)
				raw := []byte{0x98, 0x06, 0x07, 0xC2, 0xA9, 0x07, 0x03, 'x', 'y', 'z'} // field 99 = varint 7, field 15000 = "xyz"
				for _, list := range [][]proto.Message{req, resp} {
					for i, m := range list {
						m = proto.Clone(m)
						m.ProtoReflect().SetUnknown(raw)
						list[i] = m
					}
				}
				c.Attr("~unknown-fields", "true")
			}
			accept := [][]string{{"gzip"}, nil, {"rev", "gzip"}, {"gzip", "rev", "br"}}[c.Choose("accept", 4)]
			respComp := []string{"auto", ""}[c.Choose("resp-compression", 2)]
			var respFlags []bool
			for i := range resp {
				if c.Choose(fmt.Sprintf("resp-frame%d-uncompressed", i), 2) == 1 {
					if respFlags == nil {
						respFlags = make([]bool, len(resp))
						for j := range respFlags {
							respFlags[j] = true
						}
					}
					respFlags[i] = false
				}
			}
			call := &mxCall{Base: b, ReqMsgs: req, ReqFlags: reqFlags, Accept: accept, RespMsgs: resp, RespFlags: respFlags, RespComp: respComp}
			// a request stream that stops inside a message must never yield a successful RPC
			cutKind := 0
			if b.Client.form.Enveloped() && len(req) > 0 {
				cutKind = c.Choose("req-truncated", 4) // 0 intact, 1 inside last envelope, 2 right after it, 3 inside its payload
			}
			if cutKind > 0 {
				call.SpecMut = func(s *drive.ReqSpec) {
					offs := frameOffsets(s.Body.Data)
					last := offs[len(offs)-1]
					at := []int{0, last + 2, last + 5, last + 5 + (len(s.Body.Data)-last-5+1)/2}[cutKind]
					if at >= len(s.Body.Data) {
						cutKind = 0 // (the last message is empty: nothing to cut inside it)
						return
					}
					s.Body.Data = s.Body.Data[:at]
				}
			}
			if b.Client.form == wire.ConnectGet && c.Choose("get-announced-by-header", 2) == 1 {
				// a Connect GET may say what it is with the Connect-Protocol-Version header instead of
				// the connect=v1 query parameter; the message still travels in the query
				call.SpecMut = func(s *drive.ReqSpec) {
					s.Target = strings.Replace(strings.Replace(s.Target, "connect=v1&", "", 1), "&connect=v1", "", 1)
					s.Header.Set("Connect-Protocol-Version", "1")
				}
				c.Attr("~get-form", "header")
			}
			// an informational (1xx) response before the real one must not change anything
			info := 0
			if cutKind == 0 {
				info = []int{0, 103, 100}[c.Choose("informational-response-first", 3)]
			}
			if info != 0 {
				plain := *call
				call.Mutate = func(sr *wire.ServerResp, rep *world.Reply) {
					if sr == nil {
						rep.Informational = info
					}
				}
				c.Attr("~informational", fmt.Sprint(info))
				if po := plain.run(); po.Err == nil && po.Ex.Panic == nil && po.CResp != nil && po.CResp.OK() {
					if ho := call.run(); ho.Err == nil && ho.Ex.Panic == nil && ho.CResp != nil && !ho.CResp.OK() {
						c.Fail("C01.informational-response-ended-the-rpc", "the handler sent HTTP %d before its (successful) response; without it the RPC succeeds, with it the client observed %s\n%s", info, short(semClient(b.Client.form, ho.Ex, world.MsgDesc())), b.key)
						return
					}
				}
			}
			obs := call.run()
			if cutKind > 0 && obs.Err == nil && obs.Ex.Panic == nil {
				c.Attr("truncated", "true")
				if obs.CResp.OK() {
					c.Fail("C01.partial-request-succeeded", "the request stream ended inside message %d, yet the RPC succeeded\n%s", len(req)-1, b.key)
				} else {
					c.Note("failure")
					c.Outcome("truncated-rejected")
				}
				flatBroken := obs.BReq != nil && !obs.BReq.Form.Enveloped() && obs.Backend.Seen.ReadErr != "" // told its body is broken
				if got := decodeAll(obs.BReqCodec(), world.MsgDesc(), obs.BReqMsgs(), nil); obs.Backend.Calls > 0 && obs.BReq != nil && obs.BReq.Form != wire.REST && !flatBroken && !msgsPrefix(dropTrailingNil(got), req[:len(req)-1]) {
					c.Fail("C01.request-altered", "request stream cut inside message %d; backend was handed %s\n%s", len(req)-1, renderMsgs(got), b.key)
				}
				return
			}
			if obs.Err != nil {
				c.Fail("harness.setup", "%v", obs.Err)
				return
			}
			if obs.Backend.Seen != nil && strings.Contains(obs.Backend.Seen.ReadErr, "did not terminate") {
				c.Fail("C01.backend-read-never-ends", "the backend's body reads return (0, nil) forever\n%s", b.key)
				return
			}
			if obs.Ex.Panic != nil {
				c.Fail("C01.panic", "ServeHTTP panicked: %s\n%s", obs.Ex.Panic.Value, stackTop(obs.Ex.Panic.Stack))
				return
			}
			if c.Replay {
				fmt.Fprintf(os.Stderr, "REPLAY backend-body=%x\n backend-response-body=%x\n client-head=%v\n client-body=%x\n client-trailers=%v\n", obs.Backend.Seen.Body, obs.SrvRespBody(), obs.Ex.Rec.Snapshot, obs.Ex.Rec.BodyBytes.Bytes(), obs.Ex.Rec.Trailers)
			}
			c01Judge(c, obs, req, resp)
		}
	}
	Register(&Check{
		ID:    "C01",
		Level: "exploration",
		Rule: "Base matrix (fully crossed): 16 client form/method cells (6 wire forms x 4 stream shapes where defined) x target protocol sets (4 singletons + all; thorough: all 15 subsets) x client codec x target codec list x client compression x target compression set. " +
			"Deviations (each costs 1, all combinations up to D): request count 0/1/3, each request message from a 25-value alphabet (every field kind, NaN/Inf/-0, 64-bit extremes, all 256 byte values, single-entry maps of every key kind, oneofs, optional-with-default, depth-3 nesting, repeated, well-known types, Struct/Value, HttpBody, 300 B and 5 kB), " +
			"per-frame compressed flag, response count, response values, Accept list, response compression on/off, per-frame response flags. Non-trivial = distinct scenario in which at least one message crossed each way successfully.",
		Assume: []string{"messages are compared after decoding with an independent codec (proto.Equal semantics, NaN == NaN, JSON null dropped)"},
		Scenarios: []Scenario{
			{Name: "matrix", Fn: mk(false, false), QuickBound: 1, ThoroughBound: 2},
			{Name: "matrix-wide", Fn: mk(true, true), QuickBound: -1, ThoroughBound: 1},
		},
		RequireNotes: []string{"success", "failure"},
		MinOutcomes:  2,
	})
}

func c01Judge(c *xplor.Ctx, obs *mxObs, req, resp []proto.Message) {
	b := obs.Call.Base
	be := obs.Backend
	desc := func() string {
		return fmt.Sprintf("%s\n request: %s\n response: %s\n backend: %s\n client: %s", b.key, renderMsgs(req), renderMsgs(resp), short(semBackend(be, world.MsgDesc())), short(semClient(b.Client.form, obs.Ex, world.MsgDesc())))
	}
	cr := obs.CResp
	clientOK := cr.OK()
	// ---- what the backend was handed
	judgeReq := false
	var got []proto.Message
	if be.Calls > 0 && obs.BReq != nil {
		switch obs.BReq.Form {
		case wire.REST:
			if b.Client.method == "Unary" {
				judgeReq = true
				got = decodeAll("json", world.MsgDesc(), obs.BReq.Msgs, obs.BReq.MsgBad)
			}
		default:
			judgeReq = true
			got = decodeAll(obs.BReq.Codec, world.MsgDesc(), obs.BReq.Msgs, obs.BReq.MsgBad)
			if obs.BReq.Form.Enveloped() == false && b.Client.form.Enveloped() && len(req) == 0 {
				judgeReq = false // empty stream toward a flat protocol: not a message question
			}
		}
	}
	if be.Calls > 1 {
		c.Fail("C01.duplicated-dispatch", "backend invoked %d times\n%s", be.Calls, desc())
	}
	// a message delivered under a wrong compression label: compressed flag over zero bytes
	// that the sender did not produce (zero bytes are no valid compressed stream)
	if obs.BReq != nil && obs.BReq.FlaggedEmpty > 0 && obs.Spec != nil && b.Client.form.Enveloped() && (obs.Spec.Body == nil || wire.CountFlaggedEmpty(obs.Spec.Body.Data) == 0) {
		c.Fail("C01.request-wrong-compression-label", "%d request message(s) reached the backend with the compressed flag over zero bytes; the client sent no such frame\n%s", obs.BReq.FlaggedEmpty, desc())
	}
	if obs.CResp != nil && obs.CResp.FlaggedEmpty > 0 && obs.SrvResp != nil && obs.SrvResp.Form.Enveloped() && wire.CountFlaggedEmpty(obs.SrvResp.Encode().Body) == 0 {
		c.Fail("C01.response-wrong-compression-label", "%d response message(s) reached the client with the compressed flag over zero bytes; the backend sent no such frame\n%s", obs.CResp.FlaggedEmpty, desc())
	}
	if judgeReq {
		if clientOK && !msgsEqual(got, req) {
			c.Fail("C01.request-altered", "RPC succeeded but the backend observed %s instead of the %d message(s) sent\n%s", renderMsgs(got), len(req), desc())
		} else if !clientOK && !msgsPrefix(got, req) {
			// whatever complete messages were delivered before the failure must be the sent ones
			ok := false
			if n := len(got); n > 0 && got[n-1] == nil && msgsPrefix(got[:n-1], req) {
				ok = true // trailing partial/undecodable unit on a failed RPC is not "delivered as success"
			}
			if !ok {
				c.Fail("C01.request-altered", "RPC failed, but the backend had been handed %s which is not a prefix of what was sent\n%s", renderMsgs(got), desc())
			}
		}
	}
	// ---- what the client received
	var cgot []proto.Message
	switch {
	case cr.BareHTTP || !clientOK:
		if !cr.BareHTTP {
			codec := cr.Codec
			if b.Client.form == wire.REST {
				codec = "json"
			}
			cgot = decodeAll(codec, world.MsgDesc(), cr.Msgs, cr.MsgBad)
			ok := msgsPrefix(cgot, resp)
			if n := len(cgot); !ok && n > 0 && cgot[n-1] == nil && msgsPrefix(cgot[:n-1], resp) {
				ok = true
			}
			if !ok && be.Calls > 0 && len(cr.Msgs) > 0 && cr.EndSeen > 0 {
				c.Fail("C01.response-altered", "RPC failed, but the client had been handed %s which is not a prefix of what the handler produced\n%s", renderMsgs(cgot), desc())
			}
		}
		c.Note("failure")
		if os.Getenv("VERIF_DEBUG") != "" {
			fmt.Fprintf(os.Stderr, "FAILURE %s\n\n", desc())
		}
		if cr.BareHTTP {
			c.Outcome(fmt.Sprintf("http-%d", cr.Status))
		} else {
			c.Outcome("error-" + wire.CodeName(cr.End.Code))
		}
		return
	}
	codec := cr.Codec
	if b.Client.form == wire.REST {
		codec = "json"
	}
	cgot = decodeAll(codec, world.MsgDesc(), cr.Msgs, cr.MsgBad)
	if be.Calls == 0 {
		c.Fail("C01.success-without-backend", "client observed success but no backend was invoked\n%s", desc())
		return
	}
	if !msgsEqual(cgot, resp) {
		c.Fail("C01.response-altered", "RPC succeeded but the client observed %s instead of the %d message(s) the handler produced\n%s", renderMsgs(cgot), len(resp), desc())
		return
	}
	c.Note("success")
	c.Outcome("ok")
	if len(req) > 0 && len(resp) > 0 {
		c.Nontrivial(b.key + "|" + fmt.Sprint(len(req), len(resp)) + "|" + strings.Join(attrsOf(c), ","))
	}
}

func attrsOf(c *xplor.Ctx) []string {
	var out []string
	for _, l := range c.ChoiceLabels() {
		if !strings.HasSuffix(l, "=0") && !strings.HasPrefix(l, "client") && !strings.HasPrefix(l, "target") {
			out = append(out, l)
		}
	}
	return out
}

func dropTrailingNil(ms []proto.Message) []proto.Message {
	for len(ms) > 0 && ms[len(ms)-1] == nil {
		ms = ms[:len(ms)-1]
	}
	return ms
}
