package props

import (
	"bytes"
	"fmt"
	"io"
	"net"
	"net/http"
	"os"
	"strings"
	"time"

	"google.golang.org/protobuf/reflect/protoreflect"

	"connectrpc.com/vanguard/verifharness/drive"
	"connectrpc.com/vanguard/verifharness/wire"
	"connectrpc.com/vanguard/verifharness/world"
)

// Conformance of the environment model. Every check drives Transcoder.ServeHTTP through the
// in-memory environment of package drive (request built "the way net/http's server would",
// strict recorder as ResponseWriter). That environment is the only modelled part of the
// system, so it is bound to the real thing here: the same scenario (same Transcoder
// configuration, same scripted backend, same request) is executed once in memory and
// once through a real net/http server on a loopback socket with a real net/http client
// (HTTP/1.1 for flat protocols, unencrypted HTTP/2 for enveloped ones), and what the
// client observes must be the same, semantically. A difference means the model of
// net/http misrepresents it (harness broken), never a property violation.

type conformCase struct {
	name string
	p    Pairing
	o    func() runOpts
}

func conformCases() []conformCase {
	var cs []conformCase
	for _, p := range stdPairings() {
		p := p
		cs = append(cs, conformCase{name: p.Name + "/clean", p: p, o: func() runOpts { return runOpts{} }})
		cs = append(cs, conformCase{name: p.Name + "/error-end", p: p, o: func() runOpts {
			return runOpts{Responder: func(b *world.Backend, r *http.Request) *world.Reply {
				return world.EchoReply(b.Parsed, nil, "", &wire.End{Code: 9, Message: "precondition: nope"})
			}}
		}})
		cs = append(cs, conformCase{name: p.Name + "/flush-each", p: p, o: func() runOpts {
			return runOpts{Reply: func(rep *world.Reply) { rep.FlushEach = true; rep.Cuts = []int{1, 5, 9} }}
		}})
		cs = append(cs, conformCase{name: p.Name + "/declared-trailers", p: p, o: func() runOpts {
			return runOpts{Reply: func(rep *world.Reply) { rep.DeclaredTrailers = true }}
		}})
		cs = append(cs, conformCase{name: p.Name + "/message-then-error", p: p, o: func() runOpts {
			return runOpts{Responder: func(b *world.Backend, r *http.Request) *world.Reply {
				req := b.Parsed
				var msgs [][]byte
				if world.ServerFormFor(req.Form).Enveloped() {
					msgs = [][]byte{Enc(req.Codec, MkMsg(smallMsgs[0]))}
				}
				return world.EchoReply(req, msgs, "", &wire.End{Code: 13, Message: "late failure"})
			}}
		}})
	}
	return cs
}

// conformView is what a client of the given form observed, from raw response parts.
func conformView(form wire.Form, status int, h http.Header, body []byte, trailers http.Header, out protoreflect.MessageDescriptor) string {
	if form == wire.ConnectGet {
		form = wire.ConnectUnary
	}
	h = h.Clone()
	for _, k := range []string{"Date", "Content-Length", "Transfer-Encoding", "Trailer", "Connection", "X-Content-Type-Options"} {
		h.Del(k)
	}
	pr := wire.ParseClientResponse(form, status, h, body, trailers)
	var sb strings.Builder
	fmt.Fprintf(&sb, "status=%d|ct=%s codec=%s comp=%s|app=%s|end=%d/%q/%q/%v seen=%d bare=%v|meta=%s|complaints=%v|",
		status, pr.ContentType, pr.Codec, pr.Compression, drive.CanonHeader(pr.AppHeaders), pr.End.Code, pr.End.CodeStr, pr.End.Message, pr.End.Details, pr.EndSeen, pr.BareHTTP, drive.CanonHeader(pr.Meta), pr.Complaints)
	for i, m := range pr.Msgs {
		switch {
		case pr.BareHTTP:
			fmt.Fprintf(&sb, "body=%x", m)
		case form == wire.REST:
			fmt.Fprintf(&sb, "msg%d=%s;", i, canonJSON(m))
		default:
			fmt.Fprintf(&sb, "msg%d(comp=%v)=%s;", i, pr.MsgWasComp[i], canonMsg(pr.Codec, out, m))
		}
	}
	return sb.String()
}

// conformOnce runs one case in memory and over real sockets; returns the two views.
func conformOnce(c conformCase) (mem, real string, err error) {
	// in memory
	res := c.p.run(c.o())
	if res.Err != nil {
		return "", "", res.Err
	}
	if res.Ex.Panic != nil {
		return "", "", fmt.Errorf("in-memory run panicked: %s", res.Ex.Panic.Value)
	}
	rec := res.Ex.Rec
	mem = conformView(c.p.Client, rec.Status, rec.HeadHeaders(), rec.BodyBytes.Bytes(), rec.Trailers, c.p.out())
	mem += "||backend:" + semBackend(res.Backend, c.p.in())

	// real net/http
	o := c.o()
	be := &world.Backend{ReadSizes: o.ReadSizes}
	resp := o.Responder
	if resp == nil {
		resp = c.p.echoResponder()
	}
	be.Respond = func(b *world.Backend, r *http.Request) *world.Reply {
		rep := resp(b, r)
		if rep != nil && o.Reply != nil {
			o.Reply(rep)
		}
		return rep
	}
	cfg := c.p.config()
	if o.Cfg != nil {
		o.Cfg(&cfg)
	}
	tc, err := world.Build(cfg, be)
	if err != nil {
		return "", "", err
	}
	spec := c.p.reqSpec()
	if o.Spec != nil {
		o.Spec(spec)
	}
	ln, err := net.Listen("tcp", "127.0.0.1:0")
	if err != nil {
		return "", "", fmt.Errorf("loopback listen: %w", err)
	}
	protos := new(http.Protocols)
	protos.SetHTTP1(true)
	protos.SetUnencryptedHTTP2(true)
	srv := &http.Server{Handler: tc, Protocols: protos}
	go func() { _ = srv.Serve(ln) }()
	defer srv.Close()
	cprotos := new(http.Protocols)
	if spec.ProtoMajor == 2 {
		cprotos.SetUnencryptedHTTP2(true)
	} else {
		cprotos.SetHTTP1(true)
	}
	tr := &http.Transport{Protocols: cprotos, DisableCompression: true}
	defer tr.CloseIdleConnections()
	client := &http.Client{Transport: tr, Timeout: 20 * time.Second}
	var body io.Reader
	if !spec.NoBody && spec.Body != nil {
		body = bytes.NewReader(spec.Body.Data)
	}
	req, err := http.NewRequest(spec.Method, "http://"+ln.Addr().String()+spec.Target, body)
	if err != nil {
		return "", "", err
	}
	for k, v := range spec.Header {
		req.Header[k] = append([]string(nil), v...)
	}
	req.Host = "example.test"
	if body != nil {
		switch {
		case spec.ContentLength == -2:
			req.ContentLength = int64(len(spec.Body.Data))
		case spec.ContentLength >= 0:
			req.ContentLength = spec.ContentLength
		default:
			req.ContentLength = -1
			req.Body = io.NopCloser(body) // hide the length from net/http: chunked / no content-length
		}
	}
	r, err := client.Do(req)
	if err != nil {
		return mem, "transport error: " + err.Error(), nil
	}
	data, rerr := io.ReadAll(r.Body)
	_ = r.Body.Close()
	if rerr != nil {
		return mem, "body read error: " + rerr.Error(), nil
	}
	trailers := http.Header{}
	for k, v := range r.Trailer {
		trailers[k] = v
	}
	real = conformView(c.p.Client, r.StatusCode, r.Header, data, trailers, c.p.out())
	real += "||backend:" + semBackend(be, c.p.in())
	return mem, real, nil
}

// conformanceAux is attached to checks as an auxiliary step.
func conformanceAux(rc *RunCtx, rep *Report) {
	cases := conformCases()
	if rc.Tier != "thorough" {
		// quick: every pairing, clean + error end
		var q []conformCase
		for _, c := range cases {
			if strings.HasSuffix(c.name, "/clean") || strings.HasSuffix(c.name, "/error-end") {
				q = append(q, c)
			}
		}
		cases = q
	}
	mismatches := 0
	var first string
	for _, c := range cases {
		mem, real, err := conformOnce(c)
		if err != nil {
			rep.Broken = append(rep.Broken, "environment conformance: "+c.name+": "+err.Error())
			return
		}
		if os.Getenv("VERIF_DEBUG") == "conform" {
			fmt.Fprintf(os.Stderr, "CONFORM %s\n  mem : %s\n  real: %s\n", c.name, short(mem), short(real))
		}
		if mem != real {
			mismatches++
			if first == "" {
				first = fmt.Sprintf("%s\n in-memory: %s\n net/http:  %s", c.name, short(mem), short(real))
			}
		}
	}
	rep.Extra["environment_conformance"] = map[string]any{"scenarios_replayed_through_real_net_http": len(cases), "mismatches": mismatches,
		"what": "same Transcoder, backend script and request executed in the in-memory environment and through a real net/http server + client on loopback (HTTP/1.1 and unencrypted HTTP/2); client-observed and backend-observed semantic views compared"}
	rep.TracesImpl += int64(len(cases))
	if mismatches > 0 {
		rep.Broken = append(rep.Broken, fmt.Sprintf("environment conformance: %d of %d scenarios are observed differently through real net/http than in the in-memory environment; first: %s", mismatches, len(cases), first))
	}
}
