package props

import (
	"bytes"
	"context"
	"encoding/base64"
	"encoding/binary"
	"fmt"
	"google.golang.org/genproto/googleapis/api/httpbody"
	"net/http"
	"os"
	"os/exec"
	"path/filepath"
	"strconv"
	"strings"
	"time"

	"connectrpc.com/vanguard"
	"connectrpc.com/vanguard/internal/verifsync"
	"google.golang.org/protobuf/proto"

	"connectrpc.com/vanguard/verifharness/drive"
	"connectrpc.com/vanguard/verifharness/sched"
	"connectrpc.com/vanguard/verifharness/wire"
	"connectrpc.com/vanguard/verifharness/world"
)

// C14 — concurrent RPCs are isolated from one another and race-free.
//
// Harness A: N complete RPCs on one shared Transcoder, each on its own controlled thread.
// Scheduling points are the operations on the shared state (every pool Get/Put and mutex
// operation) and every environment call (body read, header/body write, flush). All schedules within a preemption
// bound are explored; each RPC's observable outcome must equal its outcome when run alone.

type c14RPC struct {
	name      string
	spec      func() *drive.ReqSpec
	respond   func(b *world.Backend, r *http.Request) *world.Reply
	closeBody bool
	readSizes []int
	form      wire.Form
}

type c14World struct {
	name string
	cfg  world.Config
	rpcs []c14RPC
}

func c14Worlds() []c14World {
	big := MkMsg(`{"name":"big","extraText":"` + strings.Repeat("payload-", 60) + `"}`)
	small := MkMsg(`{"name":"small","num":3}`)
	other := MkMsg(`{"name":"other","tags":["t1","t2"],"seq":"9"}`)
	echo := func(msgs ...string) func(b *world.Backend, r *http.Request) *world.Reply {
		return func(b *world.Backend, r *http.Request) *world.Reply {
			req := b.Parsed
			if b.Seen.ReadErr != "" || len(req.Complaints) > 0 {
				return world.EchoReply(req, nil, "", &wire.End{Code: 3, Message: "bad request: " + b.Seen.ReadErr + fmt.Sprint(req.Complaints)})
			}
			var out [][]byte
			for _, m := range msgs {
				out = append(out, Enc(req.Codec, MkMsg(m)))
			}
			return world.EchoReply(req, out, world.PickAccepted(req, "gzip"), nil)
		}
	}
	mk := func(name string, form wire.Form, method, codec, comp string, closeBody bool, reply func(b *world.Backend, r *http.Request) *world.Reply, mut func(*drive.ReqSpec), msgs ...proto.Message) c14RPC {
		return c14RPC{name: name, form: form, closeBody: closeBody, respond: reply, spec: func() *drive.ReqSpec {
			cr := &wire.ClientReq{Form: form, Path: world.SvcPath + method, Codec: codec, Compression: comp, Accept: []string{"gzip"}}
			for _, m := range msgs {
				cr.Msgs = append(cr.Msgs, Enc(codec, m))
			}
			s := world.SpecFromClient(cr)
			s.Header.Set("X-Rpc", name)
			if mut != nil {
				mut(s)
			}
			return s
		}}
	}
	toGRPC := c14World{name: "target=gRPC/proto/gzip", cfg: world.Config{Protocols: []vanguard.Protocol{vanguard.ProtocolGRPC}, Codecs: []string{"proto"}, Compression: []string{"gzip"}, MaxMsg: 4000}}
	toGRPC.rpcs = []c14RPC{
		mk("web-json-gzip-big", wire.GRPCWeb, "Unary", "json", "gzip", true, echo(`{"name":"r1","extraText":"`+strings.Repeat("R", 400)+`"}`), nil, big),
		mk("cunary-proto-small", wire.ConnectUnary, "Unary", "proto", "", true, echo(`{"name":"r2"}`), nil, small),
		mk("cstream-json-bidi", wire.ConnectStream, "Bidi", "json", "gzip", false, echo(`{"name":"r3a"}`, `{"name":"r3b","num":5}`), nil, small, other),
		mk("web-corrupt-gzip", wire.GRPCWeb, "Unary", "json", "gzip", true, echo(`{"name":"r4"}`), func(s *drive.ReqSpec) {
			d := append([]byte(nil), s.Body.Data...)
			d[len(d)-6] ^= 0x40
			s.Body.Data = d
		}, big),
		mk("cunary-over-limit", wire.ConnectUnary, "Unary", "json", "", true, echo(`{"name":"r5"}`), nil, MkMsg(`{"extraText":"`+strings.Repeat("L", 5000)+`"}`)),
		mk("cunary-same-codec-aborted-upload", wire.ConnectUnary, "Unary", "proto", "", true, echo(`{"name":"r6"}`), func(s *drive.ReqSpec) {
			s.Body.FailAt, s.Body.FailErr = len(s.Body.Data)/2, fmt.Errorf("connection reset by peer")
		}, big),
		mk("web-proto-sstream", wire.GRPCWeb, "SStream", "proto", "", false, echo(`{"name":"r7a"}`, `{"name":"r7b"}`, `{}`), nil, other),
		// a response message that inflates fine but does not decode: the response adapter gives up
		// on a message whose buffer has been swapped for the inflated one
		mk("web-json-undecodable-gzip-response", wire.GRPCWeb, "Unary", "json", "gzip", true, func(b *world.Backend, r *http.Request) *world.Reply {
			rep := echo(`{"name":"r8"}`)(b, r)
			out := *rep.Out
			junk := wire.GzipCompress(bytes.Repeat([]byte{0xff, 0xff, 0x07}, 120))
			offs := frameOffsets(out.Body)
			out.Body = append(wire.AppendFrame(nil, 1, junk), out.Body[offs[0]+5+int(binary.BigEndian.Uint32(out.Body[offs[0]+1:])):]...)
			out.Header = out.Header.Clone()
			out.Header.Set("Grpc-Encoding", "gzip")
			rep.Out = &out
			return rep
		}, nil, big),
	}
	toConnect := c14World{name: "target=Connect/json/none", cfg: world.Config{Protocols: []vanguard.Protocol{vanguard.ProtocolConnect}, Codecs: []string{"json"}, NoCompress: true, MaxMsg: 4000}}
	toConnect.rpcs = []c14RPC{
		mk("grpc-proto-gzip-big", wire.GRPC, "Unary", "proto", "gzip", true, echo(`{"name":"q1","extraText":"`+strings.Repeat("Q", 400)+`"}`), nil, big),
		mk("web-json-small", wire.GRPCWeb, "Unary", "json", "", true, echo(`{"name":"q2"}`), nil, small),
		mk("grpc-proto-cstream", wire.GRPC, "CStream", "proto", "gzip", false, echo(`{"name":"q3"}`), nil, small, other, big),
		mk("grpc-undecodable", wire.GRPC, "Unary", "proto", "", true, echo(`{"name":"q4"}`), func(s *drive.ReqSpec) {
			s.Body.Data = wire.AppendFrame(nil, 0, []byte{0xff, 0xff, 0xff})
		}, small),
	}
	// re-framing toward a gRPC-Web backend: the end of the response is a frame that is buffered and decoded
	toWeb := c14World{name: "target=gRPC-Web/proto/gzip (re-framing)", cfg: world.Config{Protocols: []vanguard.Protocol{vanguard.ProtocolGRPCWeb}, Codecs: []string{"proto"}, Compression: []string{"gzip"}, MaxMsg: 4000}}
	webOK := echo(`{"name":"w1","extraText":"` + strings.Repeat("W", 100) + `"}`)
	toWeb.rpcs = []c14RPC{
		mk("grpc-proto-gzip", wire.GRPC, "Unary", "proto", "gzip", true, webOK, nil, big),
		mk("grpc-bad-trailer-frame", wire.GRPC, "Unary", "proto", "gzip", true, func(b *world.Backend, r *http.Request) *world.Reply {
			rep := webOK(b, r)
			out := *rep.Out
			offs := frameOffsets(out.Body)
			out.Body = wire.AppendFrame(append([]byte(nil), out.Body[:offs[len(offs)-1]]...), 0x80, []byte("grpc-status 0\r\n"))
			rep.Out = &out
			return rep
		}, nil, big),
		mk("cstream-proto-bidi", wire.ConnectStream, "Bidi", "proto", "", false, echo(`{"name":"w3a"}`, `{"name":"w3b"}`), nil, small, other),
	}
	// a Connect target with request compression: a GET issued toward the backend carries a compressed message in its URL
	toConnectGz := c14World{name: "target=Connect/proto/gzip", cfg: world.Config{Protocols: []vanguard.Protocol{vanguard.ProtocolConnect}, Codecs: []string{"proto"}, Compression: []string{"gzip"}, MaxMsg: 4000}}
	toConnectGz.rpcs = []c14RPC{
		mk("cget-json-gzip", wire.ConnectGet, "Pure", "json", "gzip", true, echo(`{"name":"z1"}`), nil, small),
		mk("cunary-json-gzip", wire.ConnectUnary, "Unary", "json", "gzip", true, echo(`{"name":"z2","extraText":"`+strings.Repeat("Z", 200)+`"}`), nil, big),
	}
	// REST clients whose bodies are google.api.HttpBody payloads (the decoded message's bytes may
	// alias the pooled buffer the body was read into) toward an uncompressed gRPC target
	httpBodies := c14World{name: "REST HttpBody bodies (target gRPC/proto, no compression)", cfg: world.Config{Protocols: []vanguard.Protocol{vanguard.ProtocolGRPC}, Codecs: []string{"proto"}, NoCompress: true, MaxMsg: 4000}}
	restUp := func(name, target, ct, chunk string, n int, reply func(b *world.Backend, r *http.Request) *world.Reply) c14RPC {
		return c14RPC{name: name, form: wire.REST, closeBody: true, respond: reply, spec: func() *drive.ReqSpec {
			return &drive.ReqSpec{Method: "POST", Target: target, Header: http.Header{"Content-Type": {ct}, "X-Rpc": {name}}, ContentLength: -2, Body: drive.NewBody([]byte(strings.Repeat(chunk, n)))}
		}}
	}
	hbReply := func(ct, chunk string, n int) func(b *world.Backend, r *http.Request) *world.Reply {
		return func(b *world.Backend, r *http.Request) *world.Reply {
			hb := MkMsgOf((&httpbody.HttpBody{}).ProtoReflect().Descriptor(), `{"contentType":"`+ct+`","data":"`+base64.StdEncoding.EncodeToString([]byte(strings.Repeat(chunk, n)))+`"}`)
			return world.EchoReply(b.Parsed, [][]byte{Enc(b.Parsed.Codec, hb)}, "", nil)
		}
	}
	httpBodies.rpcs = []c14RPC{
		restUp("rest-raw-upload-a", "/v1/raw", "application/octet-stream", "aaaa-upload.", 25, hbReply("image/png", "AAAA-download.", 20)),
		restUp("rest-raw-upload-b", "/v1/raw", "text/plain", "bbbbbb-upload.", 60, hbReply("text/plain", "BB.", 5)),
		restUp("rest-blob-upload", "/v1/blob/f1?num=2", "application/x-thing", "blob!", 70, echo(`{"name":"f1","body":{"contentType":"a/b","data":"`+base64.StdEncoding.EncodeToString([]byte(strings.Repeat("BLOB.", 50)))+`"}}`)),
		mk("web-json-small", wire.GRPCWeb, "Unary", "json", "", true, echo(`{"name":"h4","extraText":"`+strings.Repeat("h", 300)+`"}`), nil, small),
	}
	return []c14World{toGRPC, toConnect, toWeb, toConnectGz, httpBodies}
}

type c14Outcome struct {
	client  string
	backend string
	panic   string
}

// c14Exec runs the chosen RPCs of a world concurrently under one schedule (idx lists RPCs).
func c14Exec(w c14World, idx []int, prefix []int, solo bool) (*sched.Run, []c14Outcome, []verifsync.PoolStats, string) {
	outs := make([]c14Outcome, len(idx))
	var stats []verifsync.PoolStats
	problem := ""
	run := runScheduled(prefix, 2000000, false, func(r *sched.Run, h schedHooks) {
		verifsync.SetRegistry(true)
		verifsync.ResetRegistry()
		verifsync.SetPoison(!solo) // the solo baseline is the serial specification: it runs on a benign pool, so that a use after release (which garbles a run even alone once released buffers are poisoned) shows as a difference
		backends := map[string]*world.Backend{}
		closers := map[string]bool{}
		ids := make([]string, len(idx))
		for k, i := range idx {
			rpc := w.rpcs[i]
			ids[k] = fmt.Sprintf("%s#%d", rpc.name, k)
			backends[ids[k]] = &world.Backend{Respond: rpc.respond, ReadSizes: rpc.readSizes}
			closers[ids[k]] = rpc.closeBody
		}
		handler := http.HandlerFunc(func(rw http.ResponseWriter, rq *http.Request) {
			id := rq.Header.Get("X-Rpc")
			be := backends[id]
			if be == nil {
				problem = "handler got a request without its X-Rpc id: " + id
				return
			}
			be.ServeHTTP(rw, rq)
			if closers[id] {
				_ = rq.Body.Close()
				_ = rq.Body.Close() // (closing twice is legal; httputil.ReverseProxy over http.Transport does it)
			}
		})
		tc, err := world.Build(w.cfg, handler)
		if err != nil {
			problem = "setup: " + err.Error()
			return
		}
		for k, i := range idx {
			k, rpc := k, w.rpcs[i]
			spec := rpc.spec()
			spec.Header.Set("X-Rpc", ids[k])
			req, err := spec.Build(context.Background())
			if err != nil {
				problem = "setup: " + err.Error()
				return
			}
			rec := drive.NewRecorder()
			body := spec.Body
			// environment calls are scheduling points too: they are where a thread may be
			// descheduled between two uses of state that should have been private
			rec.H = h
			if body != nil {
				body.H = h
			}
			r.Go(fmt.Sprintf("rpc%d:%s", k, rpc.name), func() {
				pi := drive.Serve(tc, rec, rec, req, body)
				ex := &world.Exchange{Rec: rec, Body: body, Panic: pi, Req: req}
				outs[k].client = semClient(rpc.form, ex, world.MsgDesc()) + fmt.Sprintf("|poison=%v", strings.Contains(rec.BodyBytes.String(), strings.Repeat(string(rune(verifsync.Poison)), 3)) || containsPoison(rec.BodyBytes.Bytes()))
				outs[k].backend = strings.ReplaceAll(semBackend(backends[ids[k]], world.MsgDesc()), ids[k], rpc.name)
				if backends[ids[k]].Seen != nil && containsPoison(backends[ids[k]].Seen.Body) {
					outs[k].backend += "|poison=true"
				}
				if pi != nil {
					outs[k].panic = pi.Value + "\n" + stackTop(pi.Stack)
				}
			})
		}
	})
	for _, p := range verifsync.Pools() {
		st := p.Stats()
		st.WritesAfterPut += p.AuditPoison()
		stats = append(stats, st)
	}
	verifsync.SetRegistry(false)
	verifsync.ResetRegistry()
	verifsync.SetPoison(false)
	return run, outs, stats, problem
}

func containsPoison(b []byte) bool {
	n := 0
	for _, c := range b {
		if c == verifsync.Poison {
			n++
			if n >= 8 {
				return true
			}
		} else {
			n = 0
		}
	}
	return false
}

func init() {
	Register(&Check{
		ID:    "C14",
		Level: "model_checking",
		Rule: "Harness A: every pair (quick) / pair and triple (thorough) of RPCs from two worlds (7 + 4 RPCs of mixed protocols, codecs and compressions incl. gzip on both legs, JSON<->proto re-encoding, corrupt gzip, over-limit, aborted upload, undecodable message, streams) " +
			"runs concurrently on one shared Transcoder, one controlled thread per RPC; scheduling points are all operations on shared state (every sync.Pool Get/Put and mutex operation, through the verifsync shim) and every environment call (body read, header/body write, flush); all schedules with at most P preemptions are explored (P=2 quick, 3 thorough for pairs). " +
			"A fifth world has REST google.api.HttpBody uploads (the decoded message aliases the pooled buffer) toward an uncompressed gRPC target; handlers close the request body twice; one response inflates but does not decode. " +
			"Oracle: each RPC's semantic outcome (client and backend side) equals its solo outcome on a pool that does not poison released buffers; no pool element is Put twice or handed to two holders; poison written into every Put buffer never appears in any output. " +
			"Harness B: one bidirectional stream with a handler-reader and a handler-writer thread, a request-side fault (bad flags, oversize, transport cut, corrupt gzip) at message 0 or 1 while the writer emits two messages; every schedule within the bound must give a client-visible result that some serial order of the handler's calls gives (computed by the same explorer with handler calls made atomic). " +
			"A state is a scheduling decision point; a trace is one complete schedule of the real implementation. Non-trivial = distinct schedule in which the threads interleaved on the pools (at least one context switch).",
		Assume: []string{"memory-model level data races are only sampled by a separate free-running -race pass, not enumerated",
			"the shim's deterministic LIFO pool is the maximal-reuse behaviour the real sync.Pool may exhibit"},
		Custom:  c14Custom,
		Aux:     c14RaceAux,
		Sharded: true,
	})
}

func c14Custom(rc *RunCtx, rep *Report) {
	worlds := c14Worlds()
	jobs := c14Jobs(rc.Tier)
	// solo baselines
	solo := map[string]c14Outcome{}
	for wi, w := range worlds {
		for i := range w.rpcs {
			_, outs, stats, problem := c14Exec(w, []int{i}, nil, true)
			if problem != "" {
				rep.Broken = append(rep.Broken, problem)
				return
			}
			for _, st := range stats {
				if st.DoublePuts > 0 {
					rep.Violations = append(rep.Violations, Found{Scenario: "custom", V: xplorViolation("C14.pool-double-put", fmt.Sprintf("RPC %s run alone Puts a pool element twice (%d times)", w.rpcs[i].name, st.DoublePuts), map[string]string{"world": w.name, "rpcs": w.rpcs[i].name}, nil, nil)})
				}
			}
			if outs[0].panic != "" {
				rep.Violations = append(rep.Violations, Found{Scenario: "custom", V: xplorViolation("C14.panic", "solo run of "+w.rpcs[i].name+" panicked: "+outs[0].panic, map[string]string{"world": w.name, "rpcs": w.rpcs[i].name}, nil, nil)})
			}
			solo[fmt.Sprintf("%d/%d", wi, i)] = outs[0]
		}
	}
	start := time.Now()
	for ji, j := range jobs {
		if rc.NShards > 0 && ji%rc.NShards != rc.Shard {
			continue
		}
		if !rc.Deadline.IsZero() && time.Now().After(rc.Deadline) {
			rep.Exhaustive = false
			break
		}
		w := worlds[j.w]
		var names []string
		for _, i := range j.idx {
			names = append(names, w.rpcs[i].name)
		}
		bound := 2
		if rc.Tier == "thorough" && len(j.idx) == 2 {
			bound = 3
		}
		var last struct {
			outs    []c14Outcome
			stats   []verifsync.PoolStats
			problem string
		}
		ex := &sched.Explorer{Bound: bound, MaxRuns: 400000}
		ex.Exec = func(prefix []int) *sched.Run {
			run, outs, stats, problem := c14Exec(w, j.idx, prefix, false)
			last.outs, last.stats, last.problem = outs, stats, problem
			return run
		}
		jobViol := 0
		ex.Check = func(run *sched.Run) bool {
			rep.Executions++
			rep.TracesImpl++
			rep.States += int64(len(run.Points))
			attrs := map[string]string{"world": w.name, "rpcs": strings.Join(names, "+"), "~schedule": fmt.Sprint(run.Choices())}
			fail := func(clause, format string, args ...any) {
				jobViol++
				if jobViol <= 3 {
					rep.Violations = append(rep.Violations, Found{Scenario: "custom", V: xplorViolation(clause, fmt.Sprintf(format, args...)+fmt.Sprintf("\nworld %s, RPCs %v\nschedule (thread per step): %v", w.name, names, compressTrace(run.Trace)), attrs, run.Choices(), []string{fmt.Sprintf("job=%d", ji)})})
				}
			}
			switches := 0
			for i := 1; i < len(run.Trace); i++ {
				if run.Trace[i] != run.Trace[i-1] {
					switches++
				}
			}
			for _, f := range c14Judge(w, j.w, j.idx, solo, run, last.outs, last.stats, last.problem) {
				fail(f[0], "%s", f[1])
			}
			if switches > len(j.idx)-1 {
				rep.Nontrivial[fmt.Sprintf("%d:%v:%v", j.w, j.idx, run.Choices())] = struct{}{}
			}
			rep.Outcomes[fmt.Sprintf("switches=%d", min(switches, 6))]++
			if len(rep.Samples) < 3 && switches >= 3 {
				rep.Samples = append(rep.Samples, map[string]any{"world": w.name, "rpcs": names, "schedule": compressTrace(run.Trace), "choices": run.Choices()})
			}
			return true
		}
		ex.Explore()
		rep.Transitions += int64(ex.Transitions)
		if !ex.Exhaustive {
			rep.Exhaustive = false
		}
		if rc.Verbose {
			fmt.Fprintf(os.Stderr, "[C14] job %d/%d %s %v bound=%d runs=%d transitions=%d\n", ji, len(jobs), w.name, names, bound, ex.Runs, ex.Transitions)
		}
	}
	// ---- harness B: intra-stream reader/writer goroutines
	bcfgs := c14bConfigs()
	bbound := 2
	if rc.Tier == "thorough" {
		bbound = 3
	}
	for ci, k := range bcfgs {
		if rc.NShards > 0 && ci%rc.NShards != rc.Shard {
			continue
		}
		if !rc.Deadline.IsZero() && time.Now().After(rc.Deadline) {
			rep.Exhaustive = false
			break
		}
		c14bRun(k, bbound, rep, ci)
	}
	rep.Extra["intra_stream_configs"] = len(bcfgs)
	rep.Extra["jobs"] = len(jobs)
	rep.Extra["preemption_bound"] = map[string]int{"pairs_quick": 2, "pairs_thorough": 3, "triples_thorough": 2}
	rep.Notes["wall_ms"] = time.Since(start).Milliseconds()
}

// c14Judge is the oracle of harness A for one finished schedule.
func c14Judge(w c14World, wi int, idx []int, solo map[string]c14Outcome, run *sched.Run, outs []c14Outcome, stats []verifsync.PoolStats, problem string) [][2]string {
	var fails [][2]string
	fail := func(clause, format string, args ...any) {
		fails = append(fails, [2]string{clause, fmt.Sprintf(format, args...)})
	}
	if problem != "" {
		fail("harness.problem", "%s", problem)
	}
	if run.Deadlock {
		fail("C14.deadlock", "threads blocked: %v", run.Blocked)
	}
	if run.Livelock {
		fail("C14.livelock", "step horizon reached")
	}
	for _, st := range stats {
		if st.DoublePuts > 0 {
			fail("C14.pool-double-put", "a pool element was Put while it already was in the pool (%d times): two later Gets would hand the same element to two holders", st.DoublePuts)
		}
	}
	for _, st := range stats {
		if st.WritesAfterPut > 0 {
			fail("C14.write-after-put", "a pooled buffer was written to after it had been returned to the pool (%d buffers): with the real sync.Pool that write can land in another RPC's buffer", st.WritesAfterPut)
		}
	}
	for k, i := range idx {
		base := solo[fmt.Sprintf("%d/%d", wi, i)]
		o := outs[k]
		switch {
		case o.panic != "" && base.panic == "":
			fail("C14.panic", "RPC %s panicked only when run concurrently: %s", w.rpcs[i].name, o.panic)
		case o.client != base.client:
			fail("C14.outcome-differs-from-solo", "RPC %s: client-side result differs from its solo run\n solo:       %s\n concurrent: %s", w.rpcs[i].name, short(base.client), short(o.client))
		case o.backend != base.backend:
			fail("C14.outcome-differs-from-solo", "RPC %s: what its backend saw differs from its solo run\n solo:       %s\n concurrent: %s", w.rpcs[i].name, short(base.backend), short(o.backend))
		}
		if strings.Contains(o.client, "poison=true") || strings.Contains(o.backend, "poison=true") {
			fail("C14.use-after-put", "RPC %s: poison bytes (written into buffers when they are returned to the pool) reached an output", w.rpcs[i].name)
		}
	}
	return fails
}

// c14Jobs lists the RPC combinations of a tier.
func c14Jobs(tier string) (jobs []struct {
	w   int
	idx []int
}) {
	for wi, w := range c14Worlds() {
		n := len(w.rpcs)
		for a := 0; a < n; a++ {
			for b := a; b < n; b++ {
				jobs = append(jobs, struct {
					w   int
					idx []int
				}{wi, []int{a, b}})
			}
		}
		if tier == "thorough" {
			for a := 0; a < n; a++ {
				for b := a + 1; b < n; b++ {
					for c := b + 1; c < n; c++ {
						jobs = append(jobs, struct {
							w   int
							idx []int
						}{wi, []int{a, b, c}})
					}
				}
			}
		}
	}
	return jobs
}

func replayLabel(rf *ReplayFile, key string) (int, bool) {
	for _, l := range rf.Labels {
		if strings.HasPrefix(l, key+"=") {
			n, err := strconv.Atoi(strings.TrimPrefix(l, key+"="))
			return n, err == nil
		}
	}
	return 0, false
}

// replayReport prints the verdict of a replayed custom execution (run twice: both runs
// must observe the same thing, else the replay itself is not trustworthy).
func replayReport(rf *ReplayFile, path string, once func() ([][2]string, string)) int {
	f1, obs1 := once()
	f2, obs2 := once()
	if obs1 != obs2 || len(f1) != len(f2) {
		fmt.Printf("BROKEN: replaying the same schedule twice gave different observations\n 1: %s\n 2: %s\n", short(obs1), short(obs2))
		return 2
	}
	fmt.Printf("replay %s/%s choices=%v labels=%v\n", rf.Property, rf.Scenario, rf.Choices, rf.Labels)
	if len(f1) == 0 {
		fmt.Println("replay: no violation (property holds on this execution)")
		return 0
	}
	for _, f := range f1 {
		fmt.Printf("VIOLATION property=%s replay=%s\n  clause=%s\n  %s\n", rf.Property, path, f[0], f[1])
	}
	return 1
}

func init() {
	replayCustom["C14/custom"] = func(rf *ReplayFile, path string) int {
		if ci, ok := replayLabel(rf, "bconfig"); ok {
			cfgs := c14bConfigs()
			if ci >= len(cfgs) {
				fmt.Println("replay: unknown configuration")
				return 2
			}
			k := cfgs[ci]
			spec := c14bSpec(k, nil)
			return replayReport(rf, path, func() ([][2]string, string) {
				run, view, pi := c14bExec(k, rf.Choices, false)
				if run.Diverged != "" {
					return [][2]string{{"harness.replay-diverged", run.Diverged}}, view
				}
				return c14bJudge(run, view, pi, spec), view + compressTrace(run.Trace)
			})
		}
		ji, ok := replayLabel(rf, "job")
		jobs := c14Jobs(rf.Tier)
		if !ok || ji >= len(jobs) {
			fmt.Println("replay: the file does not name a job of this tier (solo-run findings have no schedule to replay)")
			return 2
		}
		j := jobs[ji]
		w := c14Worlds()[j.w]
		solo := map[string]c14Outcome{}
		for _, i := range j.idx {
			_, outs, _, _ := c14Exec(w, []int{i}, nil, true)
			solo[fmt.Sprintf("%d/%d", j.w, i)] = outs[0]
		}
		return replayReport(rf, path, func() ([][2]string, string) {
			run, outs, stats, problem := c14Exec(w, j.idx, rf.Choices, false)
			if run.Diverged != "" {
				return [][2]string{{"harness.replay-diverged", run.Diverged}}, ""
			}
			return c14Judge(w, j.w, j.idx, solo, run, outs, stats, problem), fmt.Sprint(outs) + compressTrace(run.Trace)
		})
	}
}

// compressTrace renders a schedule as runs: name x count.
func compressTrace(tr []string) string {
	var sb strings.Builder
	for i := 0; i < len(tr); {
		j := i
		for j < len(tr) && tr[j] == tr[i] {
			j++
		}
		fmt.Fprintf(&sb, "%s x%d; ", tr[i], j-i)
		i = j
	}
	return sb.String()
}

// c14RaceAux runs the free-running race-detector pass (a -race build of this binary, made by
// bin/check) over the same harness bodies. Auxiliary: it samples schedules and catches what
// the cooperative scheduler cannot see (unsynchronised accesses between scheduling points).
func c14RaceAux(rc *RunCtx, rep *Report) {
	bin := os.Getenv("VERIF_RACE_BIN")
	if bin == "" {
		rep.Extra["free_running_race_pass"] = "not run (no -race binary; use bin/check)"
		return
	}
	iter := 2
	if rc.Tier == "thorough" {
		iter = 20
	}
	logBase := filepath.Join(VerifDir, "replays", "C14-race")
	_ = os.MkdirAll(filepath.Dir(logBase), 0o755)
	old, _ := filepath.Glob(logBase + ".*")
	for _, f := range old {
		_ = os.Remove(f)
	}
	cmd := exec.Command(bin, "-race-pass", strconv.Itoa(iter))
	cmd.Env = append(os.Environ(), "GORACE=halt_on_error=0 exitcode=66 log_path="+logBase)
	out, err := cmd.CombinedOutput()
	logs, _ := filepath.Glob(logBase + ".*")
	res := map[string]any{"iterations_per_combination": iter, "output": strings.TrimSpace(string(out)), "race_reports": len(logs)}
	rep.Extra["free_running_race_pass"] = res
	switch {
	case len(logs) > 0:
		b, _ := os.ReadFile(logs[0])
		rep.Violations = append(rep.Violations, Found{Scenario: "race-pass", V: xplorViolation("C14.data-race", "the Go race detector reported a data race while RPCs shared one Transcoder (free-running pass); report: "+logs[0]+"\n"+short(string(b)), map[string]string{"harness": "free-running"}, nil, []string{"racelog=" + logs[0]})})
	case err != nil && !strings.Contains(string(out), "race-pass: runs="):
		rep.Broken = append(rep.Broken, "race pass did not run: "+err.Error()+" "+short(string(out)))
	case err != nil:
		rep.Violations = append(rep.Violations, Found{Scenario: "race-pass", V: xplorViolation("C14.race-pass-problem", short(string(out)), map[string]string{"harness": "free-running"}, nil, nil)})
	}
}
