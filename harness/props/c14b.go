package props

import (
	"context"
	"fmt"
	"io"
	"net/http"
	"sort"
	"strings"

	"connectrpc.com/vanguard"

	"connectrpc.com/vanguard/verifharness/drive"
	"connectrpc.com/vanguard/verifharness/sched"
	"connectrpc.com/vanguard/verifharness/wire"
	"connectrpc.com/vanguard/verifharness/world"
)

// C14 harness B: one bidirectional stream whose request side and response side are driven
// from different goroutines of the handler, with a failure injected on the request side
// while the writer is active. The unrestricted interleavings are judged against the
// outcomes reachable when each handler call into the transcoder (Body.Read, Write, Flush)
// is atomic (some serial order of those calls).

type c14bConfig struct {
	Client    wire.Form
	ClientCod string
	TargetCod string
	Comp      bool
	Fault     int // 0 none, 1 bad flags, 2 oversize length, 3 transport cut inside frame, 4 corrupt compressed payload
	FaultAt   int // request message index (0 or 1)
	Split     bool
	// HdrLate: the writer goroutine itself puts the response headers into the shared header
	// map (instead of the handler doing so before it starts its goroutines)
	HdrLate bool
}

func (k c14bConfig) String() string {
	return fmt.Sprintf("%s/%s>grpc/%s comp=%v fault=%d@%d split=%v hdrlate=%v", k.Client, k.ClientCod, k.TargetCod, k.Comp, k.Fault, k.FaultAt, k.Split, k.HdrLate)
}

func c14bConfigs() []c14bConfig {
	var out []c14bConfig
	for _, cl := range []wire.Form{wire.GRPCWeb, wire.ConnectStream} {
		for _, codecs := range [][2]string{{"proto", "proto"}, {"json", "proto"}} {
			for _, comp := range []bool{false, true} {
				for fault := 0; fault <= 4; fault++ {
					if fault == 4 && !comp {
						continue
					}
					for at := 0; at < 2; at++ {
						if fault == 0 && at == 1 {
							continue
						}
						for _, split := range []bool{false, true} {
							out = append(out, c14bConfig{cl, codecs[0], codecs[1], comp, fault, at, split, false})
							if !split {
								out = append(out, c14bConfig{cl, codecs[0], codecs[1], comp, fault, at, split, true})
							}
						}
					}
				}
			}
		}
	}
	return out
}

// c14bExec runs one schedule. atomic: handler calls into the transcoder are serialised.
func c14bExec(k c14bConfig, prefix []int, atomic bool) (*sched.Run, string, *drive.PanicInfo) {
	var view string
	var pinfo *drive.PanicInfo
	run := runScheduled(prefix, 400000, true, func(r *sched.Run, h schedHooks) {
		cfg := world.Config{Protocols: []vanguard.Protocol{vanguard.ProtocolGRPC}, Codecs: []string{k.TargetCod}, MaxMsg: 4000}
		compName := ""
		if k.Comp {
			compName = "gzip"
			cfg.Compression = []string{"gzip"}
		} else {
			cfg.NoCompress = true
		}
		msgs := []string{`{"name":"req0","extraText":"aaaaaaaaaaaaaaaaaaaaaaaaaaaa"}`, `{"name":"req1","extraText":"bbbbbbbbbbbbbbbbbbbbbbbbbbbb"}`, `{"name":"req2"}`}
		cr := &wire.ClientReq{Form: k.Client, Path: world.SvcPath + "Bidi", Codec: k.ClientCod, Compression: compName, Accept: []string{"gzip"}}
		for _, m := range msgs {
			cr.Msgs = append(cr.Msgs, Enc(k.ClientCod, MkMsg(m)))
		}
		spec := world.SpecFromClient(cr)
		offs := frameOffsets(spec.Body.Data)
		o := offs[k.FaultAt]
		d := append([]byte(nil), spec.Body.Data...)
		switch k.Fault {
		case 1:
			d[o] = 0x44
		case 2:
			d[o+1], d[o+2] = 0x7f, 0xff
		case 3:
			spec.Body.FailAt, spec.Body.FailErr = o+7, io.ErrUnexpectedEOF
		case 4:
			d[o+5+12] ^= 0x5a
		}
		spec.Body.Data = d
		spec.Body.H = h
		rec := drive.NewRecorder()
		rec.H = h
		lockHeld := false
		r.StateKeyFn = func() string {
			return fmt.Sprintf("%s|%x|%x|%d|%v", r.PCs(), spec.Body.Hist, rec.Hist, spec.Body.Offset(), lockHeld)
		}
		enter := func() {
			h.Point("handler.call", nil) // a call boundary is a scheduling point in both modes
			if atomic {
				for lockHeld {
					h.Block("handler.lock", nil, func() bool { return !lockHeld })
				}
				lockHeld = true
			}
		}
		leave := func() { lockHeld = false }
		handler := http.HandlerFunc(func(w http.ResponseWriter, rq *http.Request) {
			readerDone, writerDone := false, false
			setHeaders := func() {
				w.Header().Set("Content-Type", "application/grpc+"+k.TargetCod)
				if k.Comp {
					w.Header().Set("Grpc-Encoding", "gzip")
				}
			}
			if !k.HdrLate {
				setHeaders()
			}
			r.Go("reader", func() {
				defer func() { readerDone = true }()
				buf := make([]byte, 64)
				for i := 0; i < 10000; i++ {
					enter()
					_, err := rq.Body.Read(buf)
					leave()
					if err != nil {
						return
					}
				}
			})
			r.Go("writer", func() {
				defer func() { writerDone = true }()
				enter()
				if k.HdrLate {
					setHeaders()
				}
				w.WriteHeader(200)
				leave()
				for i := 0; i < 2; i++ {
					p := Enc(k.TargetCod, MkMsg(fmt.Sprintf(`{"name":"resp%d","extraText":"cccccccccccccccccccccccccccccccc"}`, i)))
					fl := byte(0)
					if k.Comp {
						p, fl = wire.GzipCompress(p), 1
					}
					frame := wire.AppendFrame(nil, fl, p)
					if k.Split {
						enter()
						_, _ = w.Write(frame[:5])
						leave()
						enter()
						_, _ = w.Write(frame[5:])
						leave()
					} else {
						enter()
						_, _ = w.Write(frame)
						leave()
					}
				}
				enter()
				w.Header().Set(http.TrailerPrefix+"Grpc-Status", "0")
				leave()
			})
			h.Block("handler.join", nil, func() bool { return readerDone && writerDone })
		})
		tc, err := world.Build(cfg, handler)
		if err != nil {
			view = "setup: " + err.Error()
			return
		}
		req, err := spec.Build(context.Background())
		if err != nil {
			view = "setup: " + err.Error()
			return
		}
		r.Go("server", func() {
			pinfo = drive.Serve(tc, rec, rec, req, spec.Body)
			ex := &world.Exchange{Rec: rec, Body: spec.Body, Panic: pinfo, Req: req}
			view = semClient(k.Client, ex, world.MsgDesc())
		})
	})
	return run, view, pinfo
}

// c14bRun explores one configuration; returns violations through fail.
func c14bRun(k c14bConfig, bound int, rep *Report, ci int) {
	// 1. the sequential specification: outcomes under atomic handler calls (all schedules)
	var lastView string
	var lastPanic *drive.PanicInfo
	atExhaustive := true
	spec := c14bSpec(k, func(at *sched.Explorer, runs, states int64) {
		rep.Executions += runs
		rep.TracesImpl += runs
		rep.States += states
		rep.Transitions += int64(at.Transitions)
		atExhaustive = at.Exhaustive
	})
	attrs := map[string]string{"harness": "intra-stream", "headers-set-by": map[bool]string{false: "handler-before-goroutines", true: "writer-goroutine"}[k.HdrLate], "~client": k.Client.String(), "~codecs": k.ClientCod + ">" + k.TargetCod, "~fault": fmt.Sprint(k.Fault), "~config": k.String()}
	nviol := 0
	ex := &sched.Explorer{Bound: bound, MaxRuns: 400000}
	ex.Exec = func(prefix []int) *sched.Run {
		run, view, pi := c14bExec(k, prefix, false)
		lastView, lastPanic = view, pi
		return run
	}
	ex.Check = func(run *sched.Run) bool {
		rep.Executions++
		rep.TracesImpl++
		rep.States += int64(len(run.Points))
		fail := func(clause, format string, args ...any) {
			nviol++
			if nviol <= 2 {
				rep.Violations = append(rep.Violations, Found{Scenario: "custom", V: xplorViolation(clause, fmt.Sprintf(format, args...)+"\nconfig: "+k.String()+"\nschedule: "+compressTrace(run.Trace), attrs, run.Choices(), []string{fmt.Sprintf("bconfig=%d", ci)})})
			}
		}
		for _, f := range c14bJudge(run, lastView, lastPanic, spec) {
			fail(f[0], "%s", f[1])
		}
		rep.Nontrivial["B:"+k.String()+fmt.Sprint(run.Choices())] = struct{}{}
		rep.Outcomes["intra-stream"]++
		return true
	}
	ex.Explore()
	rep.Transitions += int64(ex.Transitions)
	if !ex.Exhaustive || !atExhaustive {
		rep.Exhaustive = false
	}
}

// c14bSpec computes the sequential specification of a configuration: the set of client-visible
// outcomes over every serial order of the handler's (atomic) Read / Write calls.
func c14bSpec(k c14bConfig, account func(at *sched.Explorer, runs, states int64)) map[string]bool {
	spec := map[string]bool{}
	var lastView string
	var lastPanic *drive.PanicInfo
	var runs, states int64
	at := &sched.Explorer{Bound: -1, MaxRuns: 200000, Prune: true} // every serial order, no bound (states merged on thread progress + environment history)
	at.Exec = func(prefix []int) *sched.Run {
		run, view, pi := c14bExec(k, prefix, true)
		lastView, lastPanic = view, pi
		return run
	}
	at.Check = func(run *sched.Run) bool {
		runs++
		states += int64(len(run.Points))
		if !run.Deadlock && !run.Livelock && lastPanic == nil {
			spec[lastView] = true
		}
		return true
	}
	at.Explore()
	if account != nil {
		account(at, runs, states)
	}
	return spec
}

// c14bJudge is the oracle of harness B for one finished schedule.
func c14bJudge(run *sched.Run, view string, pi *drive.PanicInfo, spec map[string]bool) [][2]string {
	switch {
	case run.Deadlock:
		return [][2]string{{"C14.deadlock", fmt.Sprintf("threads blocked: %v", run.Blocked)}}
	case run.Livelock:
		return [][2]string{{"C14.livelock", "step horizon reached"}}
	case pi != nil:
		return [][2]string{{"C14.panic", fmt.Sprintf("ServeHTTP panicked: %s\n%s", pi.Value, stackTop(pi.Stack))}}
	case !spec[view]:
		var alts []string
		for v := range spec {
			alts = append(alts, short(v))
		}
		sort.Strings(alts)
		if len(alts) > 3 {
			alts = alts[:3]
		}
		return [][2]string{{"C14.stream-outcome-not-serializable", fmt.Sprintf("the client-visible result of the stream is not one that any serial order of the handler's Read/Write calls produces\n observed: %s\n serial outcomes (%d): %s", short(view), len(spec), strings.Join(alts, "\n   "))}}
	}
	return nil
}
