package props

import (
	"encoding/binary"
	"encoding/json"
	"fmt"
	"io"
	"net/http"
	"net/url"
	"strings"

	"connectrpc.com/vanguard/verifharness/drive"
	"connectrpc.com/vanguard/verifharness/wire"
	"connectrpc.com/vanguard/verifharness/world"
	"connectrpc.com/vanguard/verifharness/xplor"
)

// C09 — truncated or malformed streams never surface as success.

// strictResponder is a reference server that rejects anything malformed in the request
// (as a real server of that protocol would) and otherwise echoes NResp messages.
func (p *Pairing) strictResponder(intended *[]string) func(b *world.Backend, r *http.Request) *world.Reply {
	echo := p.echoResponder()
	return func(b *world.Backend, r *http.Request) *world.Reply {
		req := b.Parsed
		reject := func(code int, why string) *world.Reply {
			return world.EchoReply(req, nil, "", &wire.End{Code: code, Message: why})
		}
		if b.Seen.ReadErr != "" {
			return reject(1, "request body read error: "+b.Seen.ReadErr)
		}
		for _, c := range req.Complaints {
			if strings.HasPrefix(c.Clause, "req.envelope") || strings.HasPrefix(c.Clause, "req.flat") || strings.HasPrefix(c.Clause, "req.content-length") || strings.HasPrefix(c.Clause, "req.get") {
				return reject(3, "malformed request: "+c.String())
			}
		}
		if req.Form != wire.REST {
			for i, m := range req.Msgs {
				if _, err := wire.Unmarshal(req.Codec, p.in(), m); err != nil {
					return reject(3, fmt.Sprintf("message %d undecodable: %v", i, err))
				}
			}
		}
		rep := echo(b, r)
		if intended != nil {
			pr := wire.ParseClientResponse(world.ServerFormFor(req.Form), rep.Out.Status, rep.Out.Header, rep.Out.Body, rep.Out.Trailer)
			for _, m := range pr.Msgs {
				if req.Form == wire.REST {
					*intended = append(*intended, canonJSON(m))
				} else {
					*intended = append(*intended, canonMsg(req.Codec, p.out(), m))
				}
			}
		}
		return rep
	}
}

// clientMsgs returns the canonical messages the client received and its parse.
func (p *Pairing) clientMsgs(ex *world.Exchange) ([]string, *wire.ClientResp) {
	out, pr, _ := p.clientMsgs2(ex)
	return out, pr
}

// clientMsgs2 also reports whether every received message decodes under the client's codec
// (a client that cannot decode what it was sent does not observe success).
func (p *Pairing) clientMsgs2(ex *world.Exchange) ([]string, *wire.ClientResp, bool) {
	decodable := true
	form := p.Client
	if form == wire.ConnectGet {
		form = wire.ConnectUnary
	}
	r := ex.Rec
	pr := wire.ParseClientResponse(form, r.Status, r.HeadHeaders(), r.BodyBytes.Bytes(), r.Trailers)
	var out []string
	if pr.BareHTTP || !(pr.End.Code == 0 && pr.End.CodeStr == "") {
		return nil, pr, true
	}
	for _, m := range pr.Msgs {
		codec := pr.Codec
		if form == wire.REST {
			if !p.restWholeResponse() {
				if !json.Valid(m) {
					decodable = false
				}
				out = append(out, canonJSON(m))
				continue
			}
			codec = "json"
		}
		if _, err := wire.Unmarshal(codec, p.out(), m); err != nil {
			decodable = false
		}
		out = append(out, canonMsg(codec, p.out(), m))
	}
	return out, pr, decodable
}

// restWholeResponse: the REST response body is the whole response message as JSON.
func (p *Pairing) restWholeResponse() bool {
	switch p.Method {
	case "Nested", "Scalar", "Blob", "RawIO", "Download":
		return false
	}
	return true
}

// backendMsgs returns the canonical complete messages the backend was handed.
func (p *Pairing) backendMsgs(be *world.Backend) []string {
	if be.Parsed == nil {
		return nil
	}
	var out []string
	for _, m := range be.Parsed.Msgs {
		if be.Parsed.Form == wire.REST {
			out = append(out, canonJSON(m))
		} else {
			out = append(out, canonMsg(be.Parsed.Codec, p.in(), m))
		}
	}
	return out
}

func isPrefix(a, b []string) bool {
	if len(a) > len(b) {
		return false
	}
	for i := range a {
		if a[i] != b[i] {
			return false
		}
	}
	return true
}

func eqStrs(a, b []string) bool { return len(a) == len(b) && isPrefix(a, b) }

// frameOffsets returns the start offsets of the envelopes of an enveloped body.
func frameOffsets(body []byte) []int {
	var offs []int
	for o := 0; o+5 <= len(body); {
		offs = append(offs, o)
		o += 5 + int(binary.BigEndian.Uint32(body[o+1:o+5]))
	}
	return offs
}

type c09base struct {
	p         *Pairing
	reqBody   []byte
	reqMsgs   []string // what the backend decodes in the intact run
	respBody  []byte
	respMsgs  []string // what the client decodes in the intact run
	respIsEnv bool
}

func c09Base(c *xplor.Ctx, p *Pairing) *c09base {
	b := &c09base{p: p}
	var intended []string
	base := p.run(runOpts{Responder: p.strictResponder(&intended), Reply: func(r *world.Reply) { b.respBody = append([]byte(nil), r.Out.Body...) }})
	if base.Err != nil {
		c.Fail("harness.setup", "pairing %s: %v", p.Name, base.Err)
		return nil
	}
	cm, pr := p.clientMsgs(base.Ex)
	if base.Backend.Calls != 1 || !pr.OK() || len(pr.Complaints) > 0 {
		c.Fail("harness.base-not-ok", "pairing %s intact run: backend calls=%d client=%s", p.Name, base.Backend.Calls, short(semClient(p.Client, base.Ex, p.out())))
		return nil
	}
	if base.Ex.Body != nil {
		b.reqBody = base.Ex.Body.Data
	}
	b.reqMsgs = p.backendMsgs(base.Backend)
	b.respMsgs = cm
	b.respIsEnv = world.ServerFormFor(base.Backend.Parsed.Form).Enveloped()
	c.Note("base.ok")
	return b
}

func init() {
	pairings := stdPairings()
	// ------------------------------------------------------------------ request side
	reqSide := func(c *xplor.Ctx) {
		p := pairings[c.Free("pairing", len(pairings))]
		c.Attr("pairing", p.Name)
		c.Attr("path", p.Path)
		c.Attr("side", "request")
		b := c09Base(c, &p)
		if b == nil {
			return
		}
		n := len(b.reqBody)
		if n == 0 {
			c.Skip()
			return
		}
		enveloped := p.Client.Enveloped()
		kind := c.Free("fault", 7)
		var mutated []byte
		var failAt = -1
		var failErr error
		declCL := int64(-3) // -3 = leave as the pairing defines
		desc := ""
		inside := false // fault strictly inside a frame or compressed payload
		boundaryCut := false
		switch kind {
		case 0: // cut with a transport error at every offset
			k := c.Free("cut-at", n)
			mutated, failAt, failErr = b.reqBody, k, io.ErrUnexpectedEOF
			desc = fmt.Sprintf("cut@%d+ErrUnexpectedEOF", k)
			inside = true
		case 1: // clean EOF at every offset (only meaningful without a declared length)
			if p.KnownCL {
				c.Skip()
				return
			}
			k := c.Free("cut-at", n)
			mutated = b.reqBody[:k]
			desc = fmt.Sprintf("cut@%d+EOF", k)
			if enveloped {
				for _, o := range frameOffsets(b.reqBody) {
					if o == k {
						boundaryCut = true
					}
				}
			} else if k == 0 {
				boundaryCut = true // an empty flat body is a (different) complete request
			}
			inside = !boundaryCut
		case 2: // every value of every envelope flag byte
			if !enveloped {
				c.Skip()
				return
			}
			offs := frameOffsets(b.reqBody)
			o := offs[c.Free("frame", len(offs))]
			v := byte(c.Free("flag", 256))
			if v == b.reqBody[o] {
				c.Skip()
				return
			}
			mutated = append([]byte(nil), b.reqBody...)
			mutated[o] = v
			desc = fmt.Sprintf("flag[%d]=%#x", o, v)
			inside = true
		case 3: // length field mutations
			if !enveloped {
				c.Skip()
				return
			}
			offs := frameOffsets(b.reqBody)
			o := offs[c.Free("frame", len(offs))]
			l := binary.BigEndian.Uint32(b.reqBody[o+1:])
			nl := []uint32{l - 1, l + 1, l * 2, 0xFFFFFFFF, l + 5}[c.Free("lenmut", 5)]
			if nl == l {
				c.Skip()
				return
			}
			mutated = append([]byte(nil), b.reqBody...)
			binary.BigEndian.PutUint32(mutated[o+1:], nl)
			desc = fmt.Sprintf("len[%d]=%d(was %d)", o, nl, l)
			inside = true
		case 4: // single-bit corruption of every payload byte (compressed or not)
			k := c.Free("byte", n)
			bit := c.Free("bit", 8)
			if enveloped {
				for _, o := range frameOffsets(b.reqBody) {
					if k >= o && k < o+5 {
						c.Skip() // envelope bytes are covered by fault kinds 2 and 3
						return
					}
				}
			}
			mutated = append([]byte(nil), b.reqBody...)
			mutated[k] ^= 1 << bit
			desc = fmt.Sprintf("bitflip@%d.%d", k, bit)
			inside = true
		case 5: // declared Content-Length over/under-stated (flat forms with known length)
			if !p.KnownCL {
				c.Skip()
				return
			}
			switch c.Free("clmut", 3) {
			case 0:
				declCL, mutated, failAt, failErr = int64(n+1), b.reqBody, n, io.ErrUnexpectedEOF
				desc = "content-length+1"
			case 1:
				declCL, mutated = int64(n-1), b.reqBody[:n-1]
				desc = "content-length-1(truncated by server)"
			case 2:
				declCL, mutated, failAt, failErr = int64(2*n), b.reqBody, n, io.ErrUnexpectedEOF
				desc = "content-length*2"
			}
			inside = true
		case 6: // one more message begun after the complete request: every proper prefix of a further frame
			if !enveloped {
				c.Skip()
				return
			}
			offs := frameOffsets(b.reqBody)
			end := n
			if len(offs) > 1 {
				end = offs[1]
			}
			frame := b.reqBody[offs[0]:end]
			k := 1 + c.Free("extra-bytes", len(frame)-1)
			mutated = append(append([]byte(nil), b.reqBody...), frame[:k]...)
			desc = fmt.Sprintf("complete request + %d of %d bytes of a further frame", k, len(frame))
			if c.Free("then", 2) == 1 {
				failAt, failErr = len(mutated), io.ErrUnexpectedEOF
				desc += " + ErrUnexpectedEOF"
			} else {
				desc += " + EOF"
			}
			inside = true
		}
		c.Attr("fault", []string{"cut-error", "cut-eof", "flag", "length", "bitflip", "content-length", "further-frame-cut"}[kind])
		c.Attr("~detail", desc)
		var specCopy *drive.ReqSpec
		v := p.run(runOpts{Responder: p.strictResponder(nil), Spec: func(s *drive.ReqSpec) {
			if s.Body == nil {
				return
			}
			s.Body.Data = mutated
			if failAt >= 0 {
				s.Body.FailAt, s.Body.FailErr = failAt, failErr
			}
			if declCL != -3 {
				s.ContentLength = declCL
			}
			specCopy = s
		}})
		if v.Err != nil {
			c.Fail("harness.setup", "%v", v.Err)
			return
		}
		if spun(c, "C09", v) {
			return
		}
		if inside {
			c.Nontrivial(p.Name + "|" + desc)
		}
		delivered := mutated
		if failAt >= 0 && failAt < len(delivered) {
			delivered = delivered[:failAt]
		}
		id := p.idealRequest(specCopy, delivered, failErr != nil)
		c09Judge(c, b, &p, v, id, desc, true, boundaryCut)
	}
	// ----------------------------------------------------------------- response side
	respSide := func(c *xplor.Ctx) {
		p := pairings[c.Free("pairing", len(pairings))]
		c.Attr("pairing", p.Name)
		c.Attr("path", p.Path)
		c.Attr("side", "response")
		c.Attr("target", p.Target.String())
		b := c09Base(c, &p)
		if b == nil {
			return
		}
		n := len(b.respBody)
		kind := c.Free("fault", 9)
		desc := ""
		mut := func(r *world.Reply) {}
		switch kind {
		case 8: // an end-of-stream frame whose payload is one JSON document FOLLOWED BY MORE (length honoured)
			if p.Target != wire.ConnectStream {
				c.Skip()
				return
			}
			offs := frameOffsets(b.respBody)
			last := offs[len(offs)-1]
			if b.respBody[last]&0x01 != 0 {
				c.Skip() // (compressed end frame: the tail would have to go inside the compressed stream)
				return
			}
			tail := []string{"junk", `{"error":{"code":"data_loss"}}`, "}", "\x00", ",{}"}[c.Free("tail", 5)]
			desc = fmt.Sprintf("end-of-stream payload followed by %q inside the frame", tail)
			mut = func(r *world.Reply) {
				body := append([]byte(nil), r.Out.Body[:last+5]...)
				payload := append(append([]byte(nil), r.Out.Body[last+5:]...), tail...)
				binary.BigEndian.PutUint32(body[1+last:], uint32(len(payload)))
				r.Out.Body = append(body, payload...)
			}
		case 7: // body ends after every proper prefix, but the status (HTTP trailers) still says what it says
			if n == 0 || p.Target != wire.GRPC {
				c.Skip()
				return
			}
			k := c.Free("cut-at", n)
			for _, o := range frameOffsets(b.respBody) {
				if k == o {
					// a cut at a frame boundary is a complete stream with fewer messages, not a
					// stream that stops in the middle of an envelope or message
					c.Skip()
					return
				}
			}
			desc = fmt.Sprintf("body-cut@%d/%d-with-trailers", k, n)
			mut = func(r *world.Reply) { r.Out.Body = r.Out.Body[:k] }
		case 0: // handler returns after every proper prefix of the body
			if n == 0 {
				c.Skip()
				return
			}
			k := c.Free("return-after", n)
			desc = fmt.Sprintf("return-after@%d/%d", k, n)
			mut = func(r *world.Reply) { r.ReturnAfter = k }
			if c.Free("exit", 2) == 1 {
				// ... or does not return at all: it panics with http.ErrAbortHandler (what
				// httputil.ReverseProxy does when its upstream breaks off mid-body)
				desc = fmt.Sprintf("panic-after@%d/%d", k, n)
				mut = func(r *world.Reply) { r.ReturnAfter, r.Panic = k, http.ErrAbortHandler }
			}
			if c.Free("declares-length", 2) == 1 {
				// ... after having declared the honest length of the whole body (what every net/http
				// handler that knows its body does): fewer bytes than declared is a fault any client of
				// the backend would see - also when NO byte follows the head and zero bytes would decode
				inner := mut
				desc += "-of-declared"
				mut = func(r *world.Reply) { inner(r); r.HasCL, r.ContentLength = true, int64(n) }
			}
		case 1: // every flag byte value
			if !b.respIsEnv {
				c.Skip()
				return
			}
			offs := frameOffsets(b.respBody)
			o := offs[c.Free("frame", len(offs))]
			v := byte(c.Free("flag", 256))
			if v == b.respBody[o] {
				c.Skip()
				return
			}
			desc = fmt.Sprintf("flag[%d]=%#x(was %#x)", o, v, b.respBody[o])
			mut = func(r *world.Reply) { r.Out.Body = append([]byte(nil), r.Out.Body...); r.Out.Body[o] = v }
		case 2: // length mutations
			if !b.respIsEnv {
				c.Skip()
				return
			}
			offs := frameOffsets(b.respBody)
			o := offs[c.Free("frame", len(offs))]
			l := binary.BigEndian.Uint32(b.respBody[o+1:])
			nl := []uint32{l - 1, l + 1, l * 2, 0xFFFFFFFF, l + 5}[c.Free("lenmut", 5)]
			if nl == l {
				c.Skip()
				return
			}
			desc = fmt.Sprintf("len[%d]=%d(was %d)", o, nl, l)
			mut = func(r *world.Reply) {
				r.Out.Body = append([]byte(nil), r.Out.Body...)
				binary.BigEndian.PutUint32(r.Out.Body[o+1:], nl)
			}
		case 3: // bit flips
			if n == 0 {
				c.Skip()
				return
			}
			k := c.Free("byte", n)
			bit := c.Free("bit", 8)
			if b.respIsEnv {
				for _, o := range frameOffsets(b.respBody) {
					if k >= o && k < o+5 {
						c.Skip()
						return
					}
				}
			}
			desc = fmt.Sprintf("bitflip@%d.%d", k, bit)
			mut = func(r *world.Reply) { r.Out.Body = append([]byte(nil), r.Out.Body...); r.Out.Body[k] ^= 1 << bit }
		case 4: // declared Content-Length over/under-stated
			if n == 0 {
				c.Skip()
				return
			}
			ds := []int64{int64(n + 1), int64(n - 1), int64(2 * n), int64(n + 30)}
			if !b.respIsEnv {
				// a flat body: every under-statement (the declared length may end the body
				// exactly at a field boundary, where the remainder still decodes)
				for k := 0; k < n-1; k++ {
					ds = append(ds, int64(k))
				}
			}
			d := ds[c.Free("clmut", len(ds))]
			desc = fmt.Sprintf("content-length=%d(body %d)", d, n)
			mut = func(r *world.Reply) { r.HasCL, r.ContentLength = true, d }
		case 5: // missing terminal disposition
			desc = "missing-end"
			switch p.Target {
			case wire.GRPC:
				mut = func(r *world.Reply) { r.Out.Trailer = nil }
			case wire.GRPCWeb, wire.ConnectStream:
				offs := frameOffsets(b.respBody)
				last := offs[len(offs)-1]
				mut = func(r *world.Reply) { r.Out.Body = r.Out.Body[:last] }
			default:
				c.Skip()
				return
			}
		case 6: // end frame duplicated / data after end (dropped from the alphabet: nothing after the end is the transcoder's to judge)
			c.Skip()
			return
		case 99:
			if p.Target != wire.GRPCWeb && p.Target != wire.ConnectStream {
				c.Skip()
				return
			}
			offs := frameOffsets(b.respBody)
			last := offs[len(offs)-1]
			if c.Free("after-end", 2) == 0 {
				desc = "end-frame-twice"
				mut = func(r *world.Reply) { r.Out.Body = append(append([]byte(nil), r.Out.Body...), r.Out.Body[last:]...) }
			} else {
				if last == 0 {
					c.Skip()
					return
				}
				desc = "data-after-end"
				mut = func(r *world.Reply) { r.Out.Body = append(append([]byte(nil), r.Out.Body...), b.respBody[:last]...) }
			}
		}
		c.Attr("fault", []string{"early-return", "flag", "length", "bitflip", "content-length", "missing-end", "after-end", "cut-keep-status", "end-payload-trailing-data"}[kind])
		c.Attr("~detail", desc)
		var id ideal
		v := p.run(runOpts{Responder: p.strictResponder(nil), Reply: func(r *world.Reply) {
			mut(r)
			id = p.idealResponse(r)
			if r.Panic != nil {
				// a handler that panics has not produced a complete response, whatever it wrote
				id.wellFormed, id.why = false, "the handler panicked (http.ErrAbortHandler) after writing a part of its response"
			}
		}})
		if v.Err != nil {
			c.Fail("harness.setup", "%v", v.Err)
			return
		}
		if spun(c, "C09", v) {
			return
		}
		c.Nontrivial(p.Name + "|" + desc)
		c09Judge(c, b, &p, v, id, desc, false, false)
	}
	Register(&Check{
		ID:    "C09",
		Level: "fault_enumeration",
		Rule: "For one pairing per adapter path: the request body cut at every byte offset (transport error, and clean EOF where no length is declared), every value 0..255 of every envelope flag byte, " +
			"length fields -1/+1/x2/2^32-1/+5, every single-bit flip of every payload byte, mis-stated Content-Length, every proper prefix of a further frame after the complete request; and on the response side: handler return - and handler panic (http.ErrAbortHandler) - after every prefix (with and without the honest length declared up front), every flag value, " +
			"length mutations, every single-bit flip, mis-stated Content-Length, missing end, duplicated end / data after end. A case is non-trivial when the fault lies strictly inside a frame or payload.",
		Assume: []string{"reference backend rejects malformed requests as a real server of its protocol would", "strict ResponseWriter model mirrors net/http"},
		Scenarios: []Scenario{
			{Name: "request-faults", Fn: reqSide, QuickBound: 0, ThoroughBound: 0},
			{Name: "response-faults", Fn: respSide, QuickBound: 0, ThoroughBound: 0},
		},
		RequireNotes: []string{"base.ok", "nonok", "benign"},
		MinOutcomes:  4,
	})
}

// ideal is what an ideal peer of the sender's own protocol would make of a (faulted) stream.
type ideal struct {
	wellFormed  bool     // the stream is a complete, valid stream of its protocol
	complete    []string // canonical complete messages (undecodable ones as hex), in order
	why         string
	rest        bool // REST client: messages cannot be compared unit by unit
	transportOK bool
}

// idealRequest parses the bytes the client actually delivered, as its own protocol.
// transportOK: the body arrived without a transport error and honours any declared length.
func (p *Pairing) idealRequest(spec *drive.ReqSpec, delivered []byte, transportErr bool) ideal {
	var id ideal
	cl := spec.ContentLength
	if cl == -2 {
		cl = int64(len(delivered))
	}
	transportOK := !transportErr && (cl < 0 || cl == int64(len(delivered)))
	if !transportOK {
		id.why = "transport error / declared length not honoured"
	}
	if p.Client == wire.REST {
		id.wellFormed = transportOK && (len(delivered) == 0 || json.Valid(delivered))
		id.rest = true
		id.transportOK = transportOK
		return id
	}
	u, _ := url.ParseRequestURI(spec.Target)
	h := spec.Header.Clone()
	pr := wire.ParseBackendRequest(spec.Method, u, h, -1, delivered)
	id.wellFormed = transportOK && len(pr.Complaints) == 0
	id.transportOK = transportOK
	if len(pr.Complaints) > 0 {
		id.why += fmt.Sprint(pr.Complaints)
	}
	if !pr.Form.Enveloped() && !transportOK {
		return id // a flat body that did not arrive intact contains no complete message
	}
	for _, m := range pr.Msgs {
		if _, err := wire.Unmarshal(pr.Codec, p.in(), m); err != nil {
			id.wellFormed = false
			id.why += " undecodable message"
		}
		id.complete = append(id.complete, canonMsg(pr.Codec, p.in(), m))
	}
	return id
}

// backendComplete lists the complete-looking messages the backend was handed.
func (p *Pairing) backendComplete(be *world.Backend) []string {
	if be.Parsed == nil {
		return nil
	}
	if !be.Parsed.Form.Enveloped() && be.Seen.ReadErr != "" {
		return nil // the backend was told its body is broken
	}
	return p.backendMsgs(be)
}

// c09Judge applies the oracle of C09 to one faulted execution.
func c09Judge(c *xplor.Ctx, b *c09base, p *Pairing, v runResult, id ideal, desc string, reqSide, boundary bool) {
	if v.Ex.Panic != nil && !strings.Contains(v.Ex.Panic.Value, "abort Handler") {
		c.Fail("C09.no-terminated-response", "%s %s: ServeHTTP panicked: %s\n%s", p.Name, desc, v.Ex.Panic.Value, stackTop(v.Ex.Panic.Stack))
		return
	}
	// (the handler's own http.ErrAbortHandler passes through ServeHTTP; what the client holds by then is judged)
	cm, pr, decodable := p.clientMsgs2(v.Ex)
	clientOK := pr.OK() && decodable
	be := v.Backend
	restInvolved := p.Client == wire.REST || p.Target == wire.REST
	if reqSide {
		got := p.backendComplete(be)
		emptyEdge := len(id.complete) == 0 && id.transportOK && len(id.why) == 0 || boundary
		switch {
		case emptyEdge:
			// a complete but empty (or cleanly shortened) request: what an empty stream or
			// body means for the method is not a truncation question; not judged here
		case restInvolved:
			if !id.transportOK && len(got) > 0 && be.Parsed.Form != wire.ConnectGet && !(be.Parsed.Form == wire.REST && len(be.Seen.Body) == 0) {
				c.Fail("C09.backend-got-unsent-message", "%s %s: the client's request never completed (%s) but the backend was handed complete-looking %v", p.Name, desc, id.why, got)
			}
		case !isPrefix(got, id.complete):
			c.Fail("C09.backend-got-unsent-message", "%s %s: backend was handed complete-looking %v; the client completely sent only %v", p.Name, desc, got, id.complete)
		}
		if clientOK {
			if !emptyEdge && (!id.wellFormed || (!restInvolved && !eqStrs(got, id.complete))) {
				c.Fail("C09.fault-surfaced-as-success", "%s %s: client saw OK (messages %v) although the request stream was faulted (%s); backend processed %v, client completely sent %v", p.Name, desc, cm, id.why, got, id.complete)
				return
			}
			c.Note("benign")
			c.Outcome("ok-benign")
			return
		}
	} else if clientOK {
		if !id.wellFormed || !eqStrs(cm, id.complete) {
			c.Fail("C09.fault-surfaced-as-success", "%s %s: client saw OK with messages %v although the backend's response was faulted (%s); an ideal client of the backend's protocol gets %v", p.Name, desc, cm, id.why, id.complete)
			return
		}
		c.Note("benign")
		c.Outcome("ok-benign")
		return
	}
	c.Note("nonok")
	if v.Ex.Panic != nil {
		// the panic leaves ServeHTTP: the server aborts the connection, the client gets a transport
		// error whatever had been written
		c.Outcome("aborted-by-handler-panic")
		return
	}
	// Well-formedness of the error response is demanded where the transcoder is in control of
	// the whole response: for request-side faults, and for clients whose response it buffers.
	// When a backend breaks off inside a frame that is already being streamed to an enveloped
	// client nothing well-formed can follow; the non-OK outcome is what counts there.
	if len(pr.Complaints) > 0 && (reqSide || !p.Client.Enveloped()) {
		c.Fail("C09.malformed-error-response", "%s %s: non-OK response is not well-formed: %v\n client: %s", p.Name, desc, pr.Complaints, short(semClient(p.Client, v.Ex, p.out())))
	}
	if pr.BareHTTP {
		c.Outcome(fmt.Sprintf("http-%d", pr.Status))
	} else {
		c.Outcome("rpc-error-" + wire.CodeName(pr.End.Code))
	}
}

// idealResponse parses the (faulted) reply as an ideal client of the backend's protocol.
func (p *Pairing) idealResponse(r *world.Reply) ideal {
	var id ideal
	form := world.ServerFormFor(p.Target)
	if p.Target == wire.ConnectUnary || p.Target == wire.ConnectStream {
		if p.methodIsUnary() {
			form = wire.ConnectUnary
		} else {
			form = wire.ConnectStream
		}
	}
	body := r.Out.Body
	h := r.Out.Header.Clone()
	tr := r.Out.Trailer
	if r.ReturnAfter >= 0 && r.ReturnAfter <= len(body) {
		body = body[:r.ReturnAfter]
		tr = nil // an early return never sets the trailers
		if r.ReturnAfter == len(r.Out.Body) {
			tr = r.Out.Trailer
		}
	}
	if r.HasCL {
		h.Set("Content-Length", fmt.Sprint(r.ContentLength))
	}
	if endFlag := map[wire.Form]byte{wire.GRPCWeb: 0x80, wire.ConnectStream: 0x02}[form]; endFlag != 0 && !r.HasCL {
		// bytes that follow a complete end-of-stream frame are not part of the RPC any more
		// (what a peer does with them is C11's robustness question, not truncation)
		for _, o := range frameOffsets(body) {
			if body[o]&endFlag != 0 {
				if n := o + 5 + int(binary.BigEndian.Uint32(body[o+1:])); n <= len(body) {
					body = body[:n]
				}
				break
			}
		}
	}
	pr := wire.ParseClientResponse(form, r.Out.Status, h, body, tr)
	// (the letter case of a field name in a BACKEND's trailer frame is not a fault of the stream:
	// field names are case-insensitive to whoever reads them, only what the transcoder itself
	// writes is held to the lower-case rule - by C03)
	var faults []wire.Complaint
	for _, cp := range pr.Complaints {
		if cp.Clause != "resp.trailer-frame.key-not-lower-case" {
			faults = append(faults, cp)
		}
	}
	// (a flat body without declared length that simply ends early is, to any client of that
	// protocol, a complete shorter body: only what the protocol itself can detect counts)
	id.wellFormed = len(faults) == 0 && pr.OK()
	if len(faults) > 0 {
		id.why = fmt.Sprint(faults)
	}
	for _, m := range pr.Msgs {
		if form == wire.REST && !p.restWholeResponse() {
			if !json.Valid(m) {
				id.wellFormed = false
				id.why += " invalid JSON"
			}
			id.complete = append(id.complete, canonJSON(m))
			continue
		}
		if form == wire.REST {
			if _, err := wire.Unmarshal("json", p.out(), m); err != nil {
				id.wellFormed = false
				id.why += " undecodable message"
			}
			id.complete = append(id.complete, canonMsg("json", p.out(), m))
			continue
		}
		if _, err := wire.Unmarshal(pr.Codec, p.out(), m); err != nil {
			id.wellFormed = false
			id.why += " undecodable message"
		}
		id.complete = append(id.complete, canonMsg(pr.Codec, p.out(), m))
	}
	return id
}

func (p *Pairing) methodIsUnary() bool {
	switch p.Method {
	case "CStream", "SStream", "Bidi", "Upload", "Download":
		return false
	}
	return true
}
