// Package props holds one bounded-exhaustive check per property (C01..C20).
package props

import (
	"bufio"
	"crypto/sha256"
	"encoding/hex"
	"encoding/json"
	"fmt"
	"os"
	"os/exec"
	"path/filepath"
	"sort"
	"strings"
	"time"

	"connectrpc.com/vanguard/verifharness/xplor"
)

// VerifDir is the root of the verification tree.
var VerifDir = "/verif"

// Scenario is one named scenario space of a property.
type Scenario struct {
	Name string
	// Fn is the scenario body.
	Fn func(*xplor.Ctx)
	// Bound per tier (deviation bound).
	QuickBound, ThoroughBound int
	// Serial: one worker (the scenario touches what could be process-global in a broken tree).
	Serial bool
	// StopIfViolated: later scenarios of the check are not run when this one reported a violation.
	StopIfViolated bool
}

// Check is the registration of one property's check.
type Check struct {
	ID        string
	Level     string // exploration | fault_enumeration | model_checking
	Rule      string // how cases are enumerated and what makes one non-trivial
	Assume    []string
	Scenarios []Scenario
	// Custom, if set, runs instead of (after) the xplor scenarios and may add to the
	// report (scheduler-based checks).
	Custom func(rc *RunCtx, rep *Report)
	// Guards: notes that must be > 0 and minimal number of distinct outcomes.
	RequireNotes []string
	MinOutcomes  int
	// Aux, if set, runs once in the parent process after everything else (auxiliary passes
	// that are not the deciding enumeration, e.g. the free-running race-detector pass).
	Aux func(rc *RunCtx, rep *Report)
	// Sharded: Custom is run in NShards worker processes (scheduler worlds are process-global);
	// each worker handles the work items i with i % NShards == Shard.
	Sharded bool
}

// RunCtx carries run parameters.
type RunCtx struct {
	Tier     string
	Seed     int64
	Workers  int
	Deadline time.Time
	Only     string // restrict to one scenario (debugging)
	Verbose  bool
	Shard    int // -1: coordinator / unsharded
	NShards  int
	Partial  string // worker: write the partial report here instead of finishing
}

// Report accumulates what a run covered.
type Report struct {
	Executions int64
	Skipped    int64
	Nontrivial map[string]struct{}
	// nontrivialHashed: hashed keys from the xplor scenarios (counted together with Nontrivial)
	nontrivialHashed map[uint64]struct{}
	Outcomes         map[string]int64
	Notes            map[string]int64
	Samples          []any
	Violations       []Found
	Exhaustive       bool
	Bounds           map[string]int
	States           int64
	Transitions      int64
	TracesImpl       int64
	Extra            map[string]any
	Broken           []string // harness errors (exit 2)
}

// Found is a violation with its scenario.
type Found struct {
	Scenario string
	V        xplor.Violation
}

var registry = map[string]*Check{}

// Register adds a check.
func Register(c *Check) { registry[c.ID] = c }

// Get looks up a check.
func Get(id string) *Check { return registry[id] }

// IDs lists registered checks.
func IDs() []string {
	var out []string
	for k := range registry {
		out = append(out, k)
	}
	sort.Strings(out)
	return out
}

// ---------------------------------------------------------------------------------
// known findings

type knownFinding struct {
	Property string
	Clause   string
	Attrs    map[string]string
	What     string
	used     bool
}

func loadKnown() ([]*knownFinding, error) {
	f, err := os.Open(filepath.Join(VerifDir, "known_findings.txt"))
	if os.IsNotExist(err) {
		return nil, nil
	}
	if err != nil {
		return nil, err
	}
	defer f.Close()
	var out []*knownFinding
	sc := bufio.NewScanner(f)
	for sc.Scan() {
		line := strings.TrimSpace(sc.Text())
		if !strings.HasPrefix(line, "known:") {
			continue // comments and "fixed:" lines match nothing
		}
		line = strings.TrimSpace(strings.TrimPrefix(line, "known:"))
		what := ""
		if i := strings.Index(line, " -- "); i >= 0 {
			what = strings.TrimSpace(line[i+4:])
			line = line[:i]
		}
		k := &knownFinding{Attrs: map[string]string{}, What: what}
		for _, tok := range strings.Fields(line) {
			key, val, ok := strings.Cut(tok, "=")
			if !ok {
				continue
			}
			switch key {
			case "property":
				k.Property = val
			case "clause":
				k.Clause = val
			case "attrs":
				for _, kv := range strings.Split(val, ",") {
					a, b, ok := strings.Cut(kv, ":")
					if ok {
						k.Attrs[a] = b
					}
				}
			}
		}
		if k.Property != "" && k.Clause != "" {
			out = append(out, k)
		}
	}
	return out, sc.Err()
}

func (k *knownFinding) matches(prop string, v *xplor.Violation) bool {
	if k.Property != prop || k.Clause != v.Clause {
		return false
	}
	for a, b := range k.Attrs {
		got := v.Attrs[a]
		if strings.HasSuffix(b, "*") {
			if !strings.HasPrefix(got, strings.TrimSuffix(b, "*")) {
				return false
			}
			continue
		}
		if got != b {
			return false
		}
	}
	return true
}

// ---------------------------------------------------------------------------------

// ReplayFile is the on-disk form of one violating execution.
type ReplayFile struct {
	Property string            `json:"property"`
	Scenario string            `json:"scenario"`
	Tier     string            `json:"tier"`
	Clause   string            `json:"clause"`
	Detail   string            `json:"detail"`
	Attrs    map[string]string `json:"attrs"`
	Choices  []int             `json:"choices"`
	Labels   []string          `json:"labels"`
	Schedule []int             `json:"schedule,omitempty"`
	Note     string            `json:"note,omitempty"`
}

func writeReplay(prop, tier string, f Found) string {
	rf := ReplayFile{Property: prop, Scenario: f.Scenario, Tier: tier, Clause: f.V.Clause, Detail: f.V.Detail,
		Attrs: f.V.Attrs, Choices: f.V.Choices, Labels: f.V.Labels}
	b, _ := json.MarshalIndent(rf, "", " ")
	sum := sha256.Sum256([]byte(fmt.Sprint(prop, f.Scenario, f.V.Clause, f.V.Choices, f.V.Labels, sig(f.V.Attrs))))
	dir := filepath.Join(VerifDir, "replays")
	_ = os.MkdirAll(dir, 0o755)
	path := filepath.Join(dir, fmt.Sprintf("%s-%s.json", prop, hex.EncodeToString(sum[:6])))
	_ = os.WriteFile(path, b, 0o644)
	return path
}

// runScenario explores one xplor scenario at the given bound and merges the result into rep.
func runScenario(c *Check, rc *RunCtx, rep *Report, s Scenario, bound int) {
	scn := s
	ex := &xplor.Explorer{Bound: bound, Workers: rc.Workers, Scenario: scn.Fn, Deadline: rc.Deadline}
	if s.Serial {
		ex.Workers = 1
	}
	res := ex.Explore()
	rep.Executions += res.Executions
	rep.Skipped += res.Skipped
	rep.Bounds[s.Name] = bound
	for k := range res.Nontrivial {
		rep.nontrivialHashed[k^xplor.HashKey(s.Name)] = struct{}{}
	}
	for k, v := range res.Outcomes {
		rep.Outcomes[k] += v
	}
	for k, v := range res.Notes {
		rep.Notes[k] += v
	}
	for _, sm := range res.Samples {
		sm["scenario"] = s.Name
		rep.Samples = append(rep.Samples, sm)
	}
	for _, v := range res.Violations {
		rep.Violations = append(rep.Violations, Found{Scenario: s.Name, V: v})
	}
	if !res.Exhaustive {
		rep.Exhaustive = false
	}
	if rc.Verbose {
		fmt.Fprintf(os.Stderr, "[%s/%s] bound=%d executions=%d skipped=%d violations=%d wall=%s\n", c.ID, s.Name, bound, res.Executions, res.Skipped, res.NViolations, res.Wall.Round(time.Millisecond))
	}
}

// RunCheck executes a check and returns the process exit code.
func RunCheck(c *Check, rc *RunCtx) int {
	start := time.Now()
	rep := &Report{Nontrivial: map[string]struct{}{}, nontrivialHashed: map[uint64]struct{}{}, Outcomes: map[string]int64{}, Notes: map[string]int64{},
		Exhaustive: true, Bounds: map[string]int{}, Extra: map[string]any{}}
	for _, s := range c.Scenarios {
		if rc.Only != "" && rc.Only != s.Name {
			continue
		}
		bound := s.QuickBound
		if rc.Tier == "thorough" {
			bound = s.ThoroughBound
		}
		if bound < 0 {
			continue // scenario not part of this tier
		}
		nv := len(rep.Violations)
		runScenario(c, rc, rep, s, bound)
		if s.StopIfViolated && len(rep.Violations) > nv {
			rep.Exhaustive = false
			fmt.Fprintf(os.Stderr, "[%s/%s] reported violations: the remaining scenarios are not run\n", c.ID, s.Name)
			break
		}
	}
	if c.Custom != nil && (rc.Only == "" || rc.Only == "custom") {
		switch {
		case c.Sharded && rc.Partial == "":
			runShards(c, rc, rep)
		default:
			c.Custom(rc, rep)
		}
	}
	if c.Aux != nil && rc.Partial == "" && rc.Only == "" {
		c.Aux(rc, rep)
	}
	if rc.Partial != "" {
		b, _ := json.Marshal(rep)
		if err := os.WriteFile(rc.Partial, b, 0o644); err != nil {
			fmt.Fprintln(os.Stderr, "cannot write partial report:", err)
			return 2
		}
		return 0
	}
	return finish(c, rc, rep, start)
}

func finish(c *Check, rc *RunCtx, rep *Report, start time.Time) int {
	known, err := loadKnown()
	if err != nil {
		rep.Broken = append(rep.Broken, "known_findings.txt: "+err.Error())
	}
	// classify violations
	type group struct {
		first Found
		n     int
	}
	unknown := map[string]*group{}
	var unknownOrder []string
	knownHits := map[*knownFinding]int{}
	harness := 0
	for _, f := range rep.Violations {
		if strings.HasPrefix(f.V.Clause, "harness.") {
			harness++
			rep.Broken = append(rep.Broken, f.V.Clause+": "+f.V.Detail)
			continue
		}
		matched := false
		for _, k := range known {
			if k.matches(c.ID, &f.V) {
				knownHits[k]++
				matched = true
				break
			}
		}
		if matched {
			continue
		}
		key := f.Scenario + "|" + f.V.Clause + "|" + classSig(f.V.Attrs)
		g := unknown[key]
		if g == nil {
			g = &group{first: f}
			unknown[key] = g
			unknownOrder = append(unknownOrder, key)
		}
		g.n++
	}
	// vacuity guards
	if rc.Only == "" {
		for _, n := range c.RequireNotes {
			if rep.Notes[n] == 0 {
				rep.Broken = append(rep.Broken, fmt.Sprintf("vacuity guard: note %q never hit", n))
			}
		}
		if c.MinOutcomes > 0 && len(rep.Outcomes) < c.MinOutcomes {
			rep.Broken = append(rep.Broken, fmt.Sprintf("vacuity guard: only %d distinct outcomes (< %d)", len(rep.Outcomes), c.MinOutcomes))
		}
		if rep.nNontrivial() < 2 {
			rep.Broken = append(rep.Broken, fmt.Sprintf("vacuity guard: only %d distinct non-trivial cases", rep.nNontrivial()))
		}
	}
	wall := time.Since(start).Seconds()
	// evidence
	samples := rep.Samples
	if len(samples) == 0 {
		samples = []any{"(no non-trivial sample recorded)"}
	}
	if len(samples) > 8 {
		samples = samples[:8]
	}
	outc := map[string]int64{}
	for k, v := range rep.Outcomes {
		outc[k] = v
	}
	cov := map[string]any{
		"evaluations":         rep.Executions,
		"distinct_nontrivial": rep.nNontrivial(),
		"rule":                c.Rule,
		"samples":             samples,
		"exhaustive":          rep.Exhaustive && len(rep.Broken) == 0,
		"bounds":              rep.Bounds,
		"skipped_invalid":     rep.Skipped,
		"distinct_outcomes":   len(rep.Outcomes),
		"outcomes":            topN(outc, 40),
		"notes":               rep.Notes,
	}
	if c.Level == "model_checking" {
		cov["states"] = rep.States
		cov["transitions"] = rep.Transitions
		cov["traces_validated_against_impl"] = rep.TracesImpl
	}
	for k, v := range rep.Extra {
		cov[k] = v
	}
	nUnknown := 0
	for _, g := range unknown {
		nUnknown += g.n
	}
	ev := map[string]any{
		"property_id": c.ID,
		"tier":        rc.Tier,
		"seed":        rc.Seed,
		"level":       c.Level,
		"coverage":    cov,
		"assumptions": c.Assume,
		"wall_s":      wall,
		"violations":  nUnknown,
	}
	kf := []string{}
	for k, n := range knownHits {
		kf = append(kf, fmt.Sprintf("%s %s (%d executions)", k.Clause, k.What, n))
	}
	sort.Strings(kf)
	ev["known_findings_observed"] = kf
	if len(rep.Broken) > 0 {
		ev["harness_errors"] = rep.Broken
	}
	if rc.Only == "" {
		b, _ := json.MarshalIndent(ev, "", " ")
		_ = os.MkdirAll(filepath.Join(VerifDir, "evidence"), 0o755)
		if err := os.WriteFile(filepath.Join(VerifDir, "evidence", c.ID+".json"), b, 0o644); err != nil {
			fmt.Fprintln(os.Stderr, "cannot write evidence:", err)
		}
	}
	fmt.Printf("%s %s: executions=%d distinct_nontrivial=%d outcomes=%d exhaustive=%v wall=%.1fs\n",
		c.ID, rc.Tier, rep.Executions, rep.nNontrivial(), len(rep.Outcomes), rep.Exhaustive, wall)
	var kkeys []*knownFinding
	for k := range knownHits {
		kkeys = append(kkeys, k)
	}
	sort.Slice(kkeys, func(i, j int) bool { return kkeys[i].Clause+sig(kkeys[i].Attrs) < kkeys[j].Clause+sig(kkeys[j].Attrs) })
	for _, k := range kkeys {
		fmt.Printf("KNOWN-FINDING: property=%s %s [%s %s] (%d executions)\n", c.ID, k.What, k.Clause, sig(k.Attrs), knownHits[k])
	}
	_ = os.Remove(filepath.Join(VerifDir, ".build", "last-"+c.ID+".json"))
	if len(rep.Broken) > 0 {
		for i, b := range rep.Broken {
			if i >= 10 {
				fmt.Printf("BROKEN: ... %d more\n", len(rep.Broken)-i)
				break
			}
			fmt.Printf("BROKEN: %s\n", firstLines(b, 12))
		}
		return 2
	}
	if len(unknown) > 0 || len(knownHits) > 0 {
		// full dump for triage (not evidence): every violation group with its first instance
		type dumpGroup struct {
			Key   string
			Count int
			First Found
		}
		var dump []dumpGroup
		for _, key := range unknownOrder {
			dump = append(dump, dumpGroup{key, unknown[key].n, unknown[key].first})
		}
		db, _ := json.MarshalIndent(dump, "", " ")
		_ = os.MkdirAll(filepath.Join(VerifDir, ".build"), 0o755)
		_ = os.WriteFile(filepath.Join(VerifDir, ".build", "last-"+c.ID+".json"), db, 0o644)
	}
	if len(unknown) > 0 {
		for i, key := range unknownOrder {
			g := unknown[key]
			path := writeReplay(c.ID, rc.Tier, g.first)
			if i < 25 {
				fmt.Printf("VIOLATION property=%s replay=%s\n", c.ID, path)
				fmt.Printf("  clause=%s scenario=%s count=%d attrs=%s\n  %s\n", g.first.V.Clause, g.first.Scenario, g.n, sig(g.first.V.Attrs), firstLines(g.first.V.Detail, 6))
			}
		}
		if len(unknownOrder) > 25 {
			fmt.Printf("  ... %d more violation groups\n", len(unknownOrder)-25)
		}
		return 1
	}
	return 0
}

func firstLines(s string, n int) string {
	lines := strings.Split(s, "\n")
	if len(lines) > n {
		lines = append(lines[:n], "...")
	}
	return strings.Join(lines, "\n  ")
}

// classSig is sig over the class attributes only (keys not starting with '~').
func classSig(m map[string]string) string {
	c := map[string]string{}
	for k, v := range m {
		if !strings.HasPrefix(k, "~") {
			c[k] = v
		}
	}
	return sig(c)
}

func sig(m map[string]string) string {
	keys := make([]string, 0, len(m))
	for k := range m {
		keys = append(keys, k)
	}
	sort.Strings(keys)
	var sb strings.Builder
	for i, k := range keys {
		if i > 0 {
			sb.WriteByte(',')
		}
		sb.WriteString(k + ":" + m[k])
	}
	return sb.String()
}

func topN(m map[string]int64, n int) map[string]int64 {
	if len(m) <= n {
		return m
	}
	type kv struct {
		k string
		v int64
	}
	var all []kv
	for k, v := range m {
		all = append(all, kv{k, v})
	}
	sort.Slice(all, func(i, j int) bool { return all[i].v > all[j].v })
	out := map[string]int64{}
	for _, e := range all[:n] {
		out[e.k] = e.v
	}
	return out
}

// Replay re-executes one recorded scenario without the explorer.
func Replay(path string) int {
	b, err := os.ReadFile(path)
	if err != nil {
		fmt.Println("replay:", err)
		return 2
	}
	var rf ReplayFile
	if err := json.Unmarshal(b, &rf); err != nil {
		fmt.Println("replay:", err)
		return 2
	}
	c := Get(rf.Property)
	if c == nil {
		fmt.Println("replay: unknown property", rf.Property)
		return 2
	}
	if replayCustom != nil {
		if fn, ok := replayCustom[rf.Property+"/"+rf.Scenario]; ok {
			return fn(&rf, path)
		}
	}
	for _, s := range c.Scenarios {
		if s.Name != rf.Scenario {
			continue
		}
		ctx := xplor.RunOne(s.Fn, rf.Choices, true)
		vs := ctx.Violations()
		fmt.Printf("replay %s/%s choices=%v attrs=%s\n", rf.Property, rf.Scenario, rf.Choices, sig(ctx.Attrs))
		if len(vs) == 0 {
			fmt.Println("replay: no violation (property holds on this execution)")
			return 0
		}
		for _, v := range vs {
			fmt.Printf("VIOLATION property=%s replay=%s\n  clause=%s\n  %s\n", rf.Property, path, v.Clause, v.Detail)
		}
		return 1
	}
	fmt.Println("replay: unknown scenario", rf.Scenario)
	return 2
}

var replayCustom = map[string]func(*ReplayFile, string) int{}

func xplorViolation(clause, detail string, attrs map[string]string, choices []int, labels []string) xplor.Violation {
	return xplor.Violation{Clause: clause, Detail: detail, Attrs: attrs, Choices: choices, Labels: labels}
}

// runShards runs the check's Custom part in worker processes and merges their reports.
func runShards(c *Check, rc *RunCtx, rep *Report) {
	n := rc.Workers
	if n < 1 {
		n = 1
	}
	exe, err := os.Executable()
	if err != nil {
		rep.Broken = append(rep.Broken, "cannot find own executable: "+err.Error())
		return
	}
	dir := filepath.Join(VerifDir, ".build")
	_ = os.MkdirAll(dir, 0o755)
	type result struct {
		i   int
		err error
		out []byte
	}
	ch := make(chan result, n)
	for i := 0; i < n; i++ {
		go func(i int) {
			partial := filepath.Join(dir, fmt.Sprintf("partial-%s-%d-%d.json", c.ID, os.Getpid(), i))
			args := []string{"-shard", fmt.Sprintf("%d/%d", i, n), "-partial", partial}
			if !rc.Deadline.IsZero() {
				args = append(args, "-budget", time.Until(rc.Deadline).String())
			}
			args = append(args, c.ID, rc.Tier)
			cmd := exec.Command(exe, args...)
			cmd.Env = append(os.Environ(), "GOMAXPROCS=2")
			out, err := cmd.CombinedOutput()
			ch <- result{i, err, out}
		}(i)
	}
	for k := 0; k < n; k++ {
		r := <-ch
		partial := filepath.Join(dir, fmt.Sprintf("partial-%s-%d-%d.json", c.ID, os.Getpid(), r.i))
		if r.err != nil {
			rep.Broken = append(rep.Broken, fmt.Sprintf("shard %d failed: %v\n%s", r.i, r.err, firstLines(string(r.out), 15)))
			continue
		}
		b, err := os.ReadFile(partial)
		_ = os.Remove(partial)
		var p Report
		if err == nil {
			err = json.Unmarshal(b, &p)
		}
		if err != nil {
			rep.Broken = append(rep.Broken, fmt.Sprintf("shard %d: unreadable partial report: %v", r.i, err))
			continue
		}
		rep.Executions += p.Executions
		rep.Skipped += p.Skipped
		rep.States += p.States
		rep.Transitions += p.Transitions
		rep.TracesImpl += p.TracesImpl
		for k2 := range p.Nontrivial {
			rep.Nontrivial[k2] = struct{}{}
		}
		for k2, v := range p.Outcomes {
			rep.Outcomes[k2] += v
		}
		for k2, v := range p.Notes {
			rep.Notes[k2] += v
		}
		for k2, v := range p.Extra {
			if _, ok := rep.Extra[k2]; !ok {
				rep.Extra[k2] = v
			}
		}
		if len(rep.Samples) < 6 {
			rep.Samples = append(rep.Samples, p.Samples...)
		}
		rep.Violations = append(rep.Violations, p.Violations...)
		rep.Broken = append(rep.Broken, p.Broken...)
		if !p.Exhaustive {
			rep.Exhaustive = false
		}
	}
}

func (r *Report) nNontrivial() int { return len(r.Nontrivial) + len(r.nontrivialHashed) }
