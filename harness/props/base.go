package props

import (
	"encoding/json"
	"fmt"
	"net/http"
	"net/url"
	"sort"
	"strings"

	"connectrpc.com/vanguard"
	"google.golang.org/protobuf/encoding/protojson"
	"google.golang.org/protobuf/proto"
	"google.golang.org/protobuf/reflect/protoreflect"
	"google.golang.org/protobuf/testing/protocmp"

	"github.com/google/go-cmp/cmp"
	"github.com/google/go-cmp/cmp/cmpopts"

	"connectrpc.com/vanguard/verifharness/drive"
	"connectrpc.com/vanguard/verifharness/wire"
	"connectrpc.com/vanguard/verifharness/world"
)

// MkMsg builds a verif.v1.Msg from protojson text.
func MkMsg(js string) proto.Message {
	m := wire.NewMessage(world.MsgDesc())
	if err := (protojson.UnmarshalOptions{Resolver: wire.Resolver()}).Unmarshal([]byte(js), m); err != nil {
		panic(fmt.Sprintf("MkMsg(%s): %v", js, err))
	}
	return m
}

// MkMsgOf builds a message of the given descriptor from protojson text.
func MkMsgOf(desc protoreflect.MessageDescriptor, js string) proto.Message {
	m := wire.NewMessage(desc)
	if err := (protojson.UnmarshalOptions{Resolver: wire.Resolver()}).Unmarshal([]byte(js), m); err != nil {
		panic(fmt.Sprintf("MkMsgOf(%s): %v", js, err))
	}
	return m
}

// Enc marshals or panics.
func Enc(codec string, m proto.Message) []byte {
	b, err := wire.Marshal(codec, m)
	if err != nil {
		panic(err)
	}
	return b
}

// MsgEqual compares messages field for field (NaN == NaN).
func MsgEqual(a, b proto.Message) bool {
	return cmp.Equal(a, b, protocmp.Transform(), cmpopts.EquateNaNs())
}

// MsgDiff renders a diff.
func MsgDiff(a, b proto.Message) string {
	return cmp.Diff(a, b, protocmp.Transform(), cmpopts.EquateNaNs())
}

// Pairing is a client wire form against a target configuration.
type Pairing struct {
	Name        string
	Client      wire.Form
	ClientCodec string
	ClientComp  string // request compression the client uses
	Accept      []string
	Method      string // method name of verif.v1.Svc
	Target      wire.Form
	TgtCodecs   []string
	TgtComp     []string // nil = none
	// REST client request (Client == wire.REST)
	RESTMethod, RESTTarget string
	RESTBody               func() []byte
	KnownCL                bool
	// RespComp: response compression the backend uses if the request advertises it.
	RespComp string
	RespCL   bool // backend declares Content-Length (flat server protocols)
	NMsgs    int  // number of request messages (streams)
	NResp    int  // number of response messages
	Path     string
	In, Out  protoreflect.MessageDescriptor // nil = verif.v1.Msg
}

func (p *Pairing) in() protoreflect.MessageDescriptor {
	if p.In != nil {
		return p.In
	}
	return world.MsgDesc()
}

func (p *Pairing) out() protoreflect.MessageDescriptor {
	if p.Out != nil {
		return p.Out
	}
	return world.MsgDesc()
}

func (p *Pairing) config() world.Config {
	// a finite limit keeps hostile length fields from turning into multi-GiB allocations
	cfg := world.Config{Protocols: []vanguard.Protocol{world.FormToProtocol(p.Target)}, Codecs: p.TgtCodecs, MaxMsg: 1 << 16}
	if len(p.TgtComp) == 0 {
		cfg.NoCompress = true
	} else {
		cfg.Compression = p.TgtComp
	}
	return cfg
}

var smallMsgs = []string{
	`{"name":"a","num":7}`,
	`{"name":"bc","tags":["x"]}`,
	`{"seq":"3","child":{"name":"k"}}`,
}

// reqSpec builds the client's request for the pairing.
func (p *Pairing) reqSpec() *drive.ReqSpec {
	if p.Client == wire.REST {
		spec := &drive.ReqSpec{Method: p.RESTMethod, Target: p.RESTTarget, Header: http.Header{}, ContentLength: -1, ProtoMajor: 1}
		if p.RESTBody != nil {
			body := p.RESTBody()
			if p.ClientComp != "" {
				body = wire.CompByName(p.ClientComp).Compress(body)
				spec.Header.Set("Content-Encoding", p.ClientComp)
			}
			spec.Header.Set("Content-Type", "application/json")
			spec.Body = drive.NewBody(body)
			if p.KnownCL {
				spec.ContentLength = -2
			}
		} else {
			spec.NoBody = true
		}
		if len(p.Accept) > 0 {
			spec.Header.Set("Accept-Encoding", strings.Join(p.Accept, ", "))
		}
		return spec
	}
	n := p.NMsgs
	if n == 0 {
		n = 1
	}
	cr := &wire.ClientReq{Form: p.Client, Path: world.SvcPath + p.Method, Codec: p.ClientCodec, Compression: p.ClientComp, Accept: p.Accept}
	for i := 0; i < n; i++ {
		cr.Msgs = append(cr.Msgs, Enc(p.ClientCodec, MkMsg(smallMsgs[i%len(smallMsgs)])))
	}
	spec := world.SpecFromClient(cr)
	if p.KnownCL && spec.Body != nil {
		spec.ContentLength = -2
	}
	return spec
}

// echoResponder answers with NResp copies derived from the request messages.
func (p *Pairing) echoResponder() func(b *world.Backend, r *http.Request) *world.Reply {
	return func(b *world.Backend, r *http.Request) *world.Reply {
		req := b.Parsed
		n := p.NResp
		if n == 0 {
			n = 1
		}
		var msgs [][]byte
		codec := req.Codec
		for i := 0; i < n; i++ {
			msgs = append(msgs, Enc(codec, MkMsg(smallMsgs[(i+1)%len(smallMsgs)])))
		}
		rep := world.EchoReply(req, msgs, world.PickAccepted(req, p.RespComp), nil)
		if p.RespCL {
			rep.HasCL, rep.ContentLength = true, int64(len(rep.Out.Body))
		}
		return rep
	}
}

// stdPairings enumerates one protocol pairing per adapter path of DESIGN Appendix A.
func stdPairings() []Pairing {
	jsonBody := func(s string) func() []byte { return func() []byte { return []byte(s) } }
	ps := []Pairing{
		{Name: "Q1W1.grpc>grpcweb.proto", Client: wire.GRPC, ClientCodec: "proto", Method: "Bidi", Target: wire.GRPCWeb, TgtCodecs: []string{"proto"}, NMsgs: 2, NResp: 2},
		{Name: "Q1W1.grpcweb>connect.proto", Client: wire.GRPCWeb, ClientCodec: "proto", Method: "SStream", Target: wire.ConnectStream, TgtCodecs: []string{"proto"}, NMsgs: 1, NResp: 2},
		{Name: "Q1W1.connect>grpc.json", Client: wire.ConnectStream, ClientCodec: "json", Method: "CStream", Target: wire.GRPC, TgtCodecs: []string{"json"}, NMsgs: 2, NResp: 1},
		{Name: "Q2W6.grpc.json>grpc.proto", Client: wire.GRPC, ClientCodec: "json", Method: "Bidi", Target: wire.GRPC, TgtCodecs: []string{"proto"}, NMsgs: 2, NResp: 2}, // (both ends carry the status in HTTP trailers)
		{Name: "Q2W6.grpc.json>grpcweb.proto", Client: wire.GRPC, ClientCodec: "json", Method: "Bidi", Target: wire.GRPCWeb, TgtCodecs: []string{"proto"}, NMsgs: 2, NResp: 2},
		{Name: "Q2W6.connect.proto>grpc.json.gzip", Client: wire.ConnectStream, ClientCodec: "proto", ClientComp: "gzip", Accept: []string{"gzip"}, Method: "Bidi", Target: wire.GRPC, TgtCodecs: []string{"json"}, TgtComp: []string{"gzip"}, RespComp: "gzip", NMsgs: 2, NResp: 2},
		{Name: "Q2W1.grpcweb.gzip>grpc.nocomp", Client: wire.GRPCWeb, ClientCodec: "proto", ClientComp: "gzip", Method: "Bidi", Target: wire.GRPC, TgtCodecs: []string{"proto"}, NMsgs: 2, NResp: 2},
		{Name: "Q3W4.cunary>grpc.proto.cl", Client: wire.ConnectUnary, ClientCodec: "proto", Method: "Unary", Target: wire.GRPC, TgtCodecs: []string{"proto"}, KnownCL: true},
		{Name: "Q4W4.cunary>grpc.proto.nocl", Client: wire.ConnectUnary, ClientCodec: "proto", Method: "Unary", Target: wire.GRPC, TgtCodecs: []string{"proto"}},
		{Name: "Q5W6.cunary.json>grpcweb.proto", Client: wire.ConnectUnary, ClientCodec: "json", Method: "Unary", Target: wire.GRPCWeb, TgtCodecs: []string{"proto"}},
		{Name: "Q5W6.cunary.json.gzip>grpc.proto.gzip", Client: wire.ConnectUnary, ClientCodec: "json", ClientComp: "gzip", Accept: []string{"gzip"}, Method: "Unary", Target: wire.GRPC, TgtCodecs: []string{"proto"}, TgtComp: []string{"gzip"}, RespComp: "gzip", KnownCL: true},
		{Name: "Q6W4.grpc>cunary.proto", Client: wire.GRPC, ClientCodec: "proto", Method: "Unary", Target: wire.ConnectUnary, TgtCodecs: []string{"proto"}},
		{Name: "Q6W5.grpcweb>cunary.proto.cl", Client: wire.GRPCWeb, ClientCodec: "proto", Method: "Unary", Target: wire.ConnectUnary, TgtCodecs: []string{"proto"}, RespCL: true},
		{Name: "Q7W7.grpc.json>cunary.proto", Client: wire.GRPC, ClientCodec: "json", Method: "Unary", Target: wire.ConnectUnary, TgtCodecs: []string{"proto"}},
		{Name: "Q10W7.grpcweb.gzip>rest.gzip", Client: wire.GRPCWeb, ClientCodec: "proto", ClientComp: "gzip", Accept: []string{"gzip"}, Method: "Unary", Target: wire.REST, TgtCodecs: []string{"json"}, TgtComp: []string{"gzip"}, RespComp: "gzip"},
		{Name: "Q8W3.rest>cunary.json", Client: wire.REST, RESTMethod: "POST", RESTTarget: "/v1/unary", RESTBody: jsonBody(`{"name":"a","num":7}`), Method: "Unary", Target: wire.ConnectUnary, TgtCodecs: []string{"json"}},
		{Name: "Q9W6.rest.get>grpc.proto", Client: wire.REST, RESTMethod: "GET", RESTTarget: "/v1/pure/abc?num=3", Method: "Pure", Target: wire.GRPC, TgtCodecs: []string{"proto"}},
		{Name: "Q9W7.rest.put>cunary.proto", Client: wire.REST, RESTMethod: "PUT", RESTTarget: "/v1/idem/abc?num=3", RESTBody: jsonBody(`{"name":"kid"}`), Method: "Idem", Target: wire.ConnectUnary, TgtCodecs: []string{"proto"}, KnownCL: true},
		{Name: "Q9W2.cget>grpc.proto", Client: wire.ConnectGet, ClientCodec: "proto", Method: "Pure", Target: wire.GRPC, TgtCodecs: []string{"proto"}},
		{Name: "Q10W7.grpc>rest.body", Client: wire.GRPC, ClientCodec: "proto", Method: "Unary", Target: wire.REST, TgtCodecs: []string{"json"}},
		{Name: "Q10W7.cunary>rest.nobody", Client: wire.ConnectUnary, ClientCodec: "json", Method: "Pure", Target: wire.REST, TgtCodecs: []string{"json"}},
		{Name: "Q10W7.grpcweb>rest.nobody", Client: wire.GRPCWeb, ClientCodec: "proto", Method: "Pure", Target: wire.REST, TgtCodecs: []string{"json"}}, // (the backend's request has no body: the rest of the client's stream is only drained)
		{Name: "Q10W7.grpcweb>rest.bodyfield", Client: wire.GRPCWeb, ClientCodec: "json", Method: "Idem", Target: wire.REST, TgtCodecs: []string{"json"}},
		{Name: "Q2W6.grpc>connectstream.sstream.json", Client: wire.GRPC, ClientCodec: "proto", Method: "SStream", Target: wire.ConnectStream, TgtCodecs: []string{"json"}, NResp: 3},
		{Name: "Q2W6.connect.proto.crc>grpc.json.crc", Client: wire.ConnectStream, ClientCodec: "proto", ClientComp: "crc", Accept: []string{"crc"}, Method: "Bidi", Target: wire.GRPC, TgtCodecs: []string{"json"}, TgtComp: []string{"crc"}, RespComp: "crc", NMsgs: 2, NResp: 2},
		{Name: "Q5W6.cunary.json.crc>grpc.proto", Client: wire.ConnectUnary, ClientCodec: "json", ClientComp: "crc", Accept: []string{"crc"}, Method: "Unary", Target: wire.GRPC, TgtCodecs: []string{"proto"}, KnownCL: true},
		{Name: "Q1W1.connect>grpcweb.gzip", Client: wire.ConnectStream, ClientCodec: "proto", ClientComp: "gzip", Accept: []string{"gzip"}, Method: "Bidi", Target: wire.GRPCWeb, TgtCodecs: []string{"proto"}, TgtComp: []string{"gzip"}, RespComp: "gzip", NMsgs: 2, NResp: 2},
	}
	for i := range ps {
		ps[i].Path = strings.SplitN(ps[i].Name, ".", 2)[0]
	}
	return ps
}

// run pushes the pairing's request through a fresh transcoder. mutate hooks allow the
// caller to vary the request, the backend's reading and the reply.
type runOpts struct {
	Spec      func(*drive.ReqSpec)
	ReadSizes []int
	Reply     func(*world.Reply)
	Responder func(b *world.Backend, r *http.Request) *world.Reply
	Cfg       func(*world.Config)
	// RespondFirst: the backend writes this reply BEFORE it reads the request body.
	RespondFirst *world.Reply
}

type runResult struct {
	Ex      *world.Exchange
	Backend *world.Backend
	Err     error
}

func (p *Pairing) run(o runOpts) runResult {
	be := &world.Backend{ReadSizes: o.ReadSizes}
	resp := o.Responder
	if resp == nil {
		resp = p.echoResponder()
	}
	be.Respond = func(b *world.Backend, r *http.Request) *world.Reply {
		rep := resp(b, r)
		if rep != nil && o.Reply != nil {
			o.Reply(rep)
		}
		return rep
	}
	if o.RespondFirst != nil {
		be.Raw = func(b *world.Backend, w http.ResponseWriter, r *http.Request) {
			world.WriteReply(w, o.RespondFirst, &b.WriteErrs)
			b.Seen.ReadBody(r.Body, b.ReadSizes)
		}
	}
	cfg := p.config()
	if o.Cfg != nil {
		o.Cfg(&cfg)
	}
	tc, err := world.Build(cfg, be)
	if err != nil {
		return runResult{Err: err}
	}
	spec := p.reqSpec()
	if o.Spec != nil {
		o.Spec(spec)
	}
	ex, err := world.Do(tc, spec)
	return runResult{Ex: ex, Backend: be, Err: err}
}

// clientView canonicalises what the client received.
func clientView(ex *world.Exchange) string {
	r := ex.Rec
	var sb strings.Builder
	if ex.Panic != nil {
		fmt.Fprintf(&sb, "PANIC %s|", ex.Panic.Value)
	}
	fmt.Fprintf(&sb, "status=%d|hdr=%s|body=%x|trailers=%s|excess=%v|super=%d", r.Status, drive.CanonHeader(r.HeadHeaders(), "Trailer"), r.BodyBytes.Bytes(), drive.CanonHeader(r.Trailers), r.ExcessWrite, r.Superfluous)
	return sb.String()
}

func backendView(be *world.Backend) string {
	if be.Seen == nil {
		return fmt.Sprintf("calls=%d (no request seen)", be.Calls)
	}
	s := be.Seen
	return fmt.Sprintf("calls=%d|%s %s %s|hdr=%s|cl=%d|body=%x|readerr=%s", be.Calls, s.Method, s.URL, s.Proto, drive.CanonHeader(s.Header), s.ContentLength, s.Body, s.ReadErr)
}

func short(s string) string {
	if len(s) > 600 {
		return s[:600] + "..."
	}
	return s
}

// canonMsg renders a codec-encoded payload as canonical JSON of the decoded message
// (hex if it does not decode).
func canonMsg(codec string, desc protoreflect.MessageDescriptor, payload []byte) string {
	m, err := wire.Unmarshal(codec, desc, payload)
	if err != nil {
		return fmt.Sprintf("undecodable(%s):%x", codec, payload)
	}
	b, err := protojson.MarshalOptions{Resolver: wire.Resolver()}.Marshal(m)
	if err != nil {
		return fmt.Sprintf("unmarshalable:%x", payload)
	}
	// Normalise: JSON null is dropped. (protojson cannot distinguish an unset
	// google.protobuf.Value field from one holding NullValue once EmitUnpopulated output is
	// re-parsed; that is a property of the JSON mapping, not of the transcoder.)
	var v any
	if json.Unmarshal(b, &v) != nil {
		return string(b)
	}
	out, _ := json.Marshal(dropNulls(v))
	return string(out)
}

func dropNulls(v any) any {
	switch t := v.(type) {
	case map[string]any:
		for k, e := range t {
			if e == nil {
				delete(t, k)
			} else {
				t[k] = dropNulls(e)
			}
		}
	case []any:
		for i, e := range t {
			t[i] = dropNulls(e)
		}
	}
	return v
}

// semBackend is a semantic (encoding-order independent) view of what the backend saw.
func semBackend(be *world.Backend, in protoreflect.MessageDescriptor) string {
	if be.Seen == nil {
		return fmt.Sprintf("calls=%d (no request seen)", be.Calls)
	}
	s := be.Seen
	u, _ := url.ParseRequestURI(s.URL)
	if u == nil {
		u = &url.URL{Path: s.Path, RawQuery: s.RawQuery}
	}
	pr := wire.ParseBackendRequest(s.Method, u, s.Header, s.ContentLength, s.Body)
	var sb strings.Builder
	fmt.Fprintf(&sb, "calls=%d|%s %s %s|form=%s codec=%s comp=%s accept=%v timeout=%q|app=%s|cl=%d|readerr=%s|complaints=%v|",
		be.Calls, s.Method, s.Path, s.Proto, pr.Form, pr.Codec, pr.Compression, pr.Accept, pr.TimeoutRaw, drive.CanonHeader(pr.AppHeaders), s.ContentLength, s.ReadErr, pr.Complaints)
	if pr.Form == wire.ConnectGet || pr.Form == wire.REST {
		fmt.Fprintf(&sb, "query=%s|", u.Query().Encode())
	}
	for i, m := range pr.Msgs {
		if pr.Form == wire.REST {
			fmt.Fprintf(&sb, "msg%d=%s;", i, canonJSON(m))
			continue
		}
		fmt.Fprintf(&sb, "msg%d(comp=%v)=%s;", i, pr.MsgWasComp[i], canonMsg(pr.Codec, in, m))
	}
	return sb.String()
}

func canonJSON(b []byte) string {
	var v any
	if err := json.Unmarshal(b, &v); err != nil {
		return fmt.Sprintf("raw:%x", b)
	}
	out, _ := json.Marshal(v)
	return string(out)
}

// semClient is a semantic view of what a client of the given form received.
func semClient(form wire.Form, ex *world.Exchange, out protoreflect.MessageDescriptor) string {
	r := ex.Rec
	var sb strings.Builder
	if ex.Panic != nil {
		fmt.Fprintf(&sb, "PANIC %s|", ex.Panic.Value)
	}
	if form == wire.ConnectGet {
		form = wire.ConnectUnary
	}
	pr := wire.ParseClientResponse(form, r.Status, r.HeadHeaders(), r.BodyBytes.Bytes(), r.Trailers)
	fmt.Fprintf(&sb, "status=%d|ct=%s codec=%s comp=%s accept=%v|app=%s|end=%d/%q/%q/%v seen=%d bare=%v|meta=%s|complaints=%v|excess=%v super=%d|",
		r.Status, pr.ContentType, pr.Codec, pr.Compression, pr.Accept, drive.CanonHeader(pr.AppHeaders), pr.End.Code, pr.End.CodeStr, pr.End.Message, pr.End.Details, pr.EndSeen, pr.BareHTTP,
		drive.CanonHeader(pr.Meta), pr.Complaints, r.ExcessWrite, r.Superfluous)
	for i, m := range pr.Msgs {
		switch {
		case pr.BareHTTP:
			fmt.Fprintf(&sb, "body=%x", m)
		case form == wire.REST:
			fmt.Fprintf(&sb, "msg%d=%s;", i, canonJSON(m))
		default:
			fmt.Fprintf(&sb, "msg%d(comp=%v)=%s;", i, pr.MsgWasComp[i], canonMsg(pr.Codec, out, m))
		}
	}
	if pr.BareHTTP {
		fmt.Fprintf(&sb, "rawbody=%x", r.BodyBytes.Bytes())
	}
	return sb.String()
}

// stackTop extracts the first vanguard frames of a panic stack.
func stackTop(stack string) string {
	lines := strings.Split(stack, "\n")
	var out []string
	for i := 0; i+1 < len(lines); i++ {
		if strings.HasPrefix(lines[i], "connectrpc.com/vanguard.") || strings.HasPrefix(lines[i], "connectrpc.com/vanguard/vanguardgrpc.") {
			out = append(out, strings.TrimSpace(lines[i])+" @ "+strings.TrimSpace(lines[i+1]))
			if len(out) >= 6 {
				break
			}
		}
	}
	return strings.Join(out, "\n")
}

type (
	protoreflectName = protoreflect.Name
	protoreflectMD   = protoreflect.MessageDescriptor
)

// normNullValues clears singular google.protobuf.Value fields that hold NullValue. protojson
// cannot distinguish "unset" from "null" for such a field once a message has been rendered
// with unpopulated fields (null is emitted for unset and parsed back as NullValue), so the
// distinction is not something any JSON leg can carry; it is not judged.
func normNullValues(m proto.Message) proto.Message {
	if m == nil {
		return nil
	}
	c := proto.Clone(m)
	normNullValuesIn(c.ProtoReflect())
	return c
}

func normNullValuesIn(m protoreflect.Message) {
	m.Range(func(fd protoreflect.FieldDescriptor, v protoreflect.Value) bool {
		switch {
		case fd.IsMap():
			if fd.MapValue().Message() != nil {
				v.Map().Range(func(_ protoreflect.MapKey, mv protoreflect.Value) bool {
					normNullValuesIn(mv.Message())
					return true
				})
			}
		case fd.IsList():
			if fd.Message() != nil {
				for i := 0; i < v.List().Len(); i++ {
					normNullValuesIn(v.List().Get(i).Message())
				}
			}
		case fd.Message() != nil:
			if fd.Message().FullName() == "google.protobuf.Value" {
				vm := v.Message()
				if od := vm.Descriptor().Oneofs().ByName("kind"); od != nil {
					if w := vm.WhichOneof(od); w == nil || w.Name() == "null_value" {
						m.Clear(fd)
					}
				}
				return true
			}
			if fd.Message().FullName() == "google.protobuf.Struct" || fd.Message().FullName() == "google.protobuf.ListValue" {
				return true
			}
			normNullValuesIn(v.Message())
		}
		return true
	})
}

// spun reports (as a violation of the running check) a backend whose body reads never end.
func spun(c interface {
	Fail(string, string, ...any)
}, id string, r runResult) bool {
	if r.Backend != nil && r.Backend.Seen != nil && strings.Contains(r.Backend.Seen.ReadErr, "did not terminate") {
		c.Fail(id+".backend-read-never-ends", "the request body handed to the backend never reports EOF or an error")
		return true
	}
	return false
}

type drive_ReqSpec = drive.ReqSpec

func sortStrings(s []string) { sort.Strings(s) }

// normEmptyMsgs additionally clears singular message fields that are present but empty: a
// REST body field cannot express "absent" other than by an empty value, so presence of an
// empty sub-message is not judged on REST legs.
func normEmptyMsgs(m proto.Message) proto.Message {
	if m == nil {
		return nil
	}
	c := normNullValues(m)
	var walk func(m protoreflect.Message)
	walk = func(m protoreflect.Message) {
		m.Range(func(fd protoreflect.FieldDescriptor, v protoreflect.Value) bool {
			if fd.Message() != nil && !fd.IsList() && !fd.IsMap() {
				walk(v.Message())
				empty := true
				v.Message().Range(func(protoreflect.FieldDescriptor, protoreflect.Value) bool { empty = false; return false })
				if empty && len(v.Message().GetUnknown()) == 0 {
					m.Clear(fd)
				}
			}
			return true
		})
	}
	walk(c.ProtoReflect())
	return c
}

func worldSpec(cr *wire.ClientReq) *drive.ReqSpec { return world.SpecFromClient(cr) }
