// Package wire is an independent reference implementation of the wire formats that
// vanguard transcodes between: Connect unary (POST and GET), Connect streaming, gRPC,
// gRPC-Web and REST (google.api.http + google.rpc.Status errors). It is written from the
// published protocol documents (see DESIGN.md Appendix B) and imports neither vanguard
// nor connect-go. It contains encoders (used by the scripted peers, with knobs for legal
// per-frame choices and for illegal ones) and strict decoders/validators (the oracles).
package wire

import (
	"bytes"
	"compress/gzip"
	"encoding/base64"
	"encoding/binary"
	"encoding/json"
	"errors"
	"fmt"
	"hash/crc32"
	"io"
	"net/http"
	"net/textproto"
	"net/url"
	"sort"
	"strconv"
	"strings"
	"sync"
	"unicode/utf8"

	"google.golang.org/protobuf/encoding/protojson"
	"google.golang.org/protobuf/proto"
	"google.golang.org/protobuf/reflect/protoreflect"
	"google.golang.org/protobuf/reflect/protoregistry"
	"google.golang.org/protobuf/types/dynamicpb"
	"google.golang.org/protobuf/types/known/anypb"

	statuspb "google.golang.org/genproto/googleapis/rpc/status"
)

// Form is a wire form of one leg of an RPC.
type Form int

const (
	ConnectUnary Form = iota // Connect unary, POST
	ConnectGet               // Connect unary, GET (client side only)
	ConnectStream
	GRPC
	GRPCWeb
	REST
	Unknown
)

var formNames = [...]string{"connect-unary", "connect-get", "connect-stream", "grpc", "grpc-web", "rest", "unknown"}

func (f Form) String() string { return formNames[f] }

// Enveloped reports whether the form frames messages in 5-byte envelopes.
func (f Form) Enveloped() bool { return f == ConnectStream || f == GRPC || f == GRPCWeb }

// Family returns the protocol family name (connect, grpc, grpc-web, rest).
func (f Form) Family() string {
	switch f {
	case ConnectUnary, ConnectGet, ConnectStream:
		return "connect"
	case GRPC:
		return "grpc"
	case GRPCWeb:
		return "grpc-web"
	case REST:
		return "rest"
	}
	return "unknown"
}

// ---------------------------------------------------------------------------------
// Compression

// Comp is a compression algorithm as pure functions.
type Comp struct {
	Name       string
	Compress   func([]byte) []byte
	Decompress func([]byte) ([]byte, error)
}

// GzipCompress compresses with gzip (default level).
func GzipCompress(b []byte) []byte {
	key := string(b)
	if len(b) <= 4096 {
		if v, ok := gzCache.Load(key); ok {
			return append([]byte(nil), v.([]byte)...)
		}
	}
	var buf bytes.Buffer
	zw, _ := gzWriters.Get().(*gzip.Writer)
	if zw == nil {
		zw = gzip.NewWriter(&buf)
	} else {
		zw.Reset(&buf)
	}
	_, _ = zw.Write(b)
	_ = zw.Close()
	gzWriters.Put(zw)
	if len(b) <= 4096 {
		gzCache.Store(key, append([]byte(nil), buf.Bytes()...))
	}
	return buf.Bytes()
}

var (
	gzWriters sync.Pool
	gzCache   sync.Map
)

// GzipDecompress inflates one complete gzip stream; trailing garbage is an error.
func GzipDecompress(b []byte) ([]byte, error) {
	zr, err := gzip.NewReader(bytes.NewReader(b))
	if err != nil {
		return nil, err
	}
	zr.Multistream(true)
	out, err := io.ReadAll(zr)
	if err != nil {
		return nil, err
	}
	if err := zr.Close(); err != nil {
		return nil, err
	}
	return out, nil
}

// RevCompress is the harness's second, trivially invertible algorithm: magic "RV",
// the bytes reversed, and a one-byte additive checksum.
func RevCompress(b []byte) []byte {
	out := make([]byte, 0, len(b)+3)
	out = append(out, 'R', 'V')
	var sum byte
	for i := len(b) - 1; i >= 0; i-- {
		out = append(out, b[i])
		sum += b[i]
	}
	return append(out, sum)
}

// RevDecompress inverts RevCompress, validating magic and checksum.
func RevDecompress(b []byte) ([]byte, error) {
	if len(b) < 3 || b[0] != 'R' || b[1] != 'V' {
		return nil, errors.New("rev: bad magic")
	}
	body := b[2 : len(b)-1]
	out := make([]byte, len(body))
	var sum byte
	for i := range body {
		out[len(body)-1-i] = body[i]
		sum += body[i]
	}
	if sum != b[len(b)-1] {
		return nil, errors.New("rev: bad checksum")
	}
	return out, nil
}

// RLECompress is the harness's run-length algorithm (C10's compression bombs): magic
// "RL", then (uvarint run length, byte) pairs. A run of n equal bytes costs <= 4 bytes.
func RLECompress(b []byte) []byte {
	out := []byte{'R', 'L'}
	for i := 0; i < len(b); {
		j := i
		for j < len(b) && b[j] == b[i] {
			j++
		}
		out = binary.AppendUvarint(out, uint64(j-i))
		out = append(out, b[i])
		i = j
	}
	return out
}

// RLEMaxInflate caps what the harness itself is willing to inflate.
const RLEMaxInflate = 256 << 20

// RLEDecompress inverts RLECompress.
func RLEDecompress(b []byte) ([]byte, error) {
	if len(b) < 2 || b[0] != 'R' || b[1] != 'L' {
		return nil, errors.New("rle: bad magic")
	}
	b = b[2:]
	var out []byte
	for len(b) > 0 {
		n, k := binary.Uvarint(b)
		if k <= 0 || k >= len(b) || n == 0 {
			return nil, errors.New("rle: bad run")
		}
		if uint64(len(out))+n > RLEMaxInflate {
			return nil, errors.New("rle: harness inflate cap")
		}
		c := b[k]
		b = b[k+1:]
		for ; n > 0; n-- {
			out = append(out, c)
		}
	}
	return out, nil
}

// CRCCompress is the harness's integrity-checked identity algorithm: magic "CK", the bytes,
// and their CRC-32 (big endian). Its streaming decompressor (package world) hands out the
// bytes as they come and reports a mismatch only from Close - as a connect.Decompressor may.
func CRCCompress(b []byte) []byte {
	out := append([]byte{'C', 'K'}, b...)
	return binary.BigEndian.AppendUint32(out, crc32.ChecksumIEEE(b))
}

// CRCDecompress inverts CRCCompress.
func CRCDecompress(b []byte) ([]byte, error) {
	if len(b) < 6 || b[0] != 'C' || b[1] != 'K' {
		return nil, errors.New("crc: bad magic")
	}
	body := b[2 : len(b)-4]
	if crc32.ChecksumIEEE(body) != binary.BigEndian.Uint32(b[len(b)-4:]) {
		return nil, errors.New("crc: checksum mismatch")
	}
	return append([]byte(nil), body...), nil
}

var comps = map[string]*Comp{
	"crc":  {Name: "crc", Compress: CRCCompress, Decompress: CRCDecompress},
	"gzip": {Name: "gzip", Compress: GzipCompress, Decompress: GzipDecompress},
	"rev":  {Name: "rev", Compress: RevCompress, Decompress: RevDecompress},
	"rle":  {Name: "rle", Compress: RLECompress, Decompress: RLEDecompress},
}

// CompByName returns the algorithm or nil ("" and "identity" mean none).
func CompByName(name string) *Comp { return comps[name] }

// ---------------------------------------------------------------------------------
// Codecs (message <-> bytes), independent of vanguard's codec wrappers

// AltPrefix marks payloads of the harness's third codec "alt" (proto with a prefix).
const AltPrefix = 'A'

// Marshal encodes msg with the named codec.
func Marshal(codec string, msg proto.Message) ([]byte, error) {
	switch codec {
	case "proto":
		return proto.MarshalOptions{Deterministic: true}.Marshal(msg)
	case "json":
		return protojson.MarshalOptions{Resolver: resolverFor(msg)}.Marshal(msg)
	case "alt":
		b, err := proto.MarshalOptions{Deterministic: true}.Marshal(msg)
		return append([]byte{AltPrefix}, b...), err
	}
	return nil, fmt.Errorf("wire: unknown codec %q", codec)
}

// Unmarshal decodes data into a new message of the given type.
func Unmarshal(codec string, desc protoreflect.MessageDescriptor, data []byte) (proto.Message, error) {
	msg := NewMessage(desc)
	switch codec {
	case "proto":
		return msg, proto.UnmarshalOptions{Resolver: resolverFor(msg)}.Unmarshal(data, msg)
	case "json":
		// unknown JSON fields are tolerated (the specs leave this open; vanguard's codec discards them)
		return msg, protojson.UnmarshalOptions{Resolver: resolverFor(msg), DiscardUnknown: true}.Unmarshal(data, msg)
	case "alt":
		if len(data) < 1 || data[0] != AltPrefix {
			return nil, errors.New("alt: missing prefix")
		}
		return msg, proto.UnmarshalOptions{Resolver: resolverFor(msg)}.Unmarshal(data[1:], msg)
	}
	return nil, fmt.Errorf("wire: unknown codec %q", codec)
}

// NewMessage instantiates a message (generated type if registered, else dynamic).
func NewMessage(desc protoreflect.MessageDescriptor) proto.Message {
	if mt, err := protoregistry.GlobalTypes.FindMessageByName(desc.FullName()); err == nil && mt.Descriptor() == desc {
		return mt.New().Interface()
	}
	return dynamicpb.NewMessage(desc)
}

type anyResolver interface {
	protoregistry.MessageTypeResolver
	protoregistry.ExtensionTypeResolver
}

// ExtraTypes lets the harness's codecs resolve messages inside google.protobuf.Any whose
// types exist only as dynamic descriptors (set once by package world before any traffic).
var ExtraTypes protoregistry.MessageTypeResolver

type extraFirst struct{}

func (extraFirst) FindMessageByName(n protoreflect.FullName) (protoreflect.MessageType, error) {
	if ExtraTypes != nil {
		if mt, err := ExtraTypes.FindMessageByName(n); err == nil {
			return mt, nil
		}
	}
	return protoregistry.GlobalTypes.FindMessageByName(n)
}
func (extraFirst) FindMessageByURL(u string) (protoreflect.MessageType, error) {
	if ExtraTypes != nil {
		if mt, err := ExtraTypes.FindMessageByURL(u); err == nil {
			return mt, nil
		}
	}
	return protoregistry.GlobalTypes.FindMessageByURL(u)
}
func (extraFirst) FindExtensionByName(n protoreflect.FullName) (protoreflect.ExtensionType, error) {
	return protoregistry.GlobalTypes.FindExtensionByName(n)
}
func (extraFirst) FindExtensionByNumber(m protoreflect.FullName, f protoreflect.FieldNumber) (protoreflect.ExtensionType, error) {
	return protoregistry.GlobalTypes.FindExtensionByNumber(m, f)
}

func resolverFor(proto.Message) anyResolver { return extraFirst{} }

// Resolver is the type resolver of the harness's own codecs (global types plus ExtraTypes).
func Resolver() interface {
	protoregistry.MessageTypeResolver
	protoregistry.ExtensionTypeResolver
} {
	return extraFirst{}
}

// ---------------------------------------------------------------------------------
// Envelopes

// Frame is one enveloped message as it appears on the wire.
type Frame struct {
	Flags   byte
	Payload []byte
}

// AppendFrame appends flag byte, big-endian length and payload.
func AppendFrame(dst []byte, flags byte, payload []byte) []byte {
	var hdr [5]byte
	hdr[0] = flags
	binary.BigEndian.PutUint32(hdr[1:], uint32(len(payload)))
	dst = append(dst, hdr[:]...)
	return append(dst, payload...)
}

// SplitFrames parses a complete enveloped body strictly. complaint is non-empty if the
// body does not consist of whole frames.
func SplitFrames(body []byte) (frames []Frame, complaint string) {
	for len(body) > 0 {
		if len(body) < 5 {
			return frames, fmt.Sprintf("truncated envelope: %d trailing bytes", len(body))
		}
		n := int(binary.BigEndian.Uint32(body[1:5]))
		if n > len(body)-5 {
			return frames, fmt.Sprintf("envelope declares %d payload bytes but only %d follow", n, len(body)-5)
		}
		frames = append(frames, Frame{Flags: body[0], Payload: append([]byte(nil), body[5:5+n]...)})
		body = body[5+n:]
	}
	return frames, ""
}

// ---------------------------------------------------------------------------------
// Errors

// Detail is one typed error detail.
type Detail struct {
	TypeURL string // full type URL, e.g. type.googleapis.com/google.protobuf.Duration
	Value   []byte
}

// End is the terminal disposition of an RPC. Code 0 = OK.
type End struct {
	Code    int
	CodeStr string // the literal the peer sent when it is not a plain in-range number/name
	// DetailsCodeSet: (encoding a gRPC status) the google.rpc.Status in grpc-status-details-bin
	// carries DetailsCode instead of Code.
	DetailsCodeSet bool
	// OmitGrpcMessage: with details, the (optional) Grpc-Message header is left out; the message is in the
	// google.rpc.Status of Grpc-Status-Details-Bin only
	OmitGrpcMessage bool
	// RawGrpcMessage: Grpc-Message is written as it is, without percent-encoding. For a message with a
	// '%' that does not start an escape, the gRPC document obliges readers NOT to fail or throw the
	// status away ("at worst ... the raw percent-encoded form").
	RawGrpcMessage bool
	DetailsCode    int32
	// PadBase64: error details (Connect "value", grpc-status-details-bin) are written as padded base64.
	PadBase64 bool
	Message string
	Details []Detail
}

var codeNames = [...]string{"ok", "canceled", "unknown", "invalid_argument", "deadline_exceeded", "not_found",
	"already_exists", "permission_denied", "resource_exhausted", "failed_precondition", "aborted", "out_of_range",
	"unimplemented", "internal", "unavailable", "data_loss", "unauthenticated"}

// CodeName is the Connect name of an RPC code (code_N for values outside 1..16).
func CodeName(c int) string {
	if c >= 1 && c <= 16 {
		return codeNames[c]
	}
	return "code_" + strconv.Itoa(c)
}

// CodeFromName inverts CodeName; ok=false if the string is neither a known name nor code_N.
func CodeFromName(s string) (int, bool) {
	for i := 1; i <= 16; i++ {
		if codeNames[i] == s {
			return i, true
		}
	}
	if rest, ok := strings.CutPrefix(s, "code_"); ok {
		if n, err := strconv.ParseUint(rest, 10, 32); err == nil {
			return int(n), true
		}
	}
	return 0, false
}

// HTTPStatusFromCode is the published RPC code -> HTTP status table (Connect unary and
// google.rpc.Code/REST agree).
func HTTPStatusFromCode(c int) int {
	switch c {
	case 0:
		return 200
	case 1:
		return 499
	case 2:
		return 500
	case 3:
		return 400
	case 4:
		return 504
	case 5:
		return 404
	case 6:
		return 409
	case 7:
		return 403
	case 8:
		return 429
	case 9:
		return 400
	case 10:
		return 409
	case 11:
		return 400
	case 12:
		return 501
	case 13:
		return 500
	case 14:
		return 503
	case 15:
		return 500
	case 16:
		return 401
	}
	return 500
}

// CodeFromHTTPStatus is the published HTTP status -> RPC code table for bare failures.
func CodeFromHTTPStatus(s int) int {
	switch s {
	case 400:
		return 13
	case 401:
		return 16
	case 403:
		return 7
	case 404:
		return 12
	case 429, 502, 503, 504:
		return 14
	}
	return 2
}

// GRPCPercentEncode encodes a grpc-message value.
func GRPCPercentEncode(s string) string {
	var sb strings.Builder
	for i := 0; i < len(s); i++ {
		c := s[i]
		if c < ' ' || c > '~' || c == '%' {
			fmt.Fprintf(&sb, "%%%02X", c)
		} else {
			sb.WriteByte(c)
		}
	}
	return sb.String()
}

// GRPCPercentDecode decodes a grpc-message value; invalid escapes are kept literally
// (the gRPC spec says decoders must not fail on them).
func GRPCPercentDecode(s string) string {
	var out []byte
	for i := 0; i < len(s); i++ {
		if s[i] == '%' && i+2 < len(s)+0 && i+2 <= len(s)-1 && ishex(s[i+1]) && ishex(s[i+2]) {
			out = append(out, unhex(s[i+1])<<4|unhex(s[i+2]))
			i += 2
			continue
		}
		out = append(out, s[i])
	}
	return string(out)
}

func ishex(c byte) bool {
	return '0' <= c && c <= '9' || 'a' <= c && c <= 'f' || 'A' <= c && c <= 'F'
}

func unhex(c byte) byte {
	switch {
	case '0' <= c && c <= '9':
		return c - '0'
	case 'a' <= c && c <= 'f':
		return c - 'a' + 10
	}
	return c - 'A' + 10
}

func decodeB64Any(s string) ([]byte, error) {
	s = strings.TrimRight(s, "=")
	if b, err := base64.RawStdEncoding.DecodeString(s); err == nil {
		return b, nil
	}
	return base64.RawURLEncoding.DecodeString(s)
}

// StatusProto builds the google.rpc.Status for an End.
func StatusProto(e *End) *statuspb.Status {
	st := &statuspb.Status{Code: int32(e.Code), Message: e.Message}
	for _, d := range e.Details {
		st.Details = append(st.Details, &anypb.Any{TypeUrl: d.TypeURL, Value: d.Value})
	}
	return st
}

func endFromStatus(st *statuspb.Status) End {
	e := End{Code: int(uint32(st.GetCode())), Message: st.GetMessage()}
	for _, d := range st.GetDetails() {
		e.Details = append(e.Details, Detail{TypeURL: d.GetTypeUrl(), Value: d.GetValue()})
	}
	return e
}

// ---------------------------------------------------------------------------------
// Complaints

// Complaint is one precise defect found by a strict decoder.
type Complaint struct {
	Clause string // stable identifier
	Detail string
}

func (c Complaint) String() string { return c.Clause + ": " + c.Detail }

type complaints []Complaint

func (c *complaints) add(clause, format string, args ...any) {
	*c = append(*c, Complaint{clause, fmt.Sprintf(format, args...)})
}

// ---------------------------------------------------------------------------------
// Timeouts

// ---------------------------------------------------------------------------------
// Requests as received by a backend

// BackendReq is a strictly parsed request as received by a backend handler.
type BackendReq struct {
	Form        Form
	Codec       string
	Compression string   // declared request compression ("" = none)
	Accept      []string // advertised response compressions
	HasTimeout  bool
	TimeoutRaw  string
	Path        string
	Frames      []Frame
	Msgs        [][]byte // uncompressed, codec-encoded payloads, in order
	MsgWasComp  []bool
	MsgBad      []bool // flagged/declared compressed but not decompressible: unreadable
	GetQuery    url.Values
	// FlaggedEmpty counts frames that carry the compressed flag over a zero-length payload.
	// Zero bytes are not a valid stream of any real compression algorithm (grpc-go fails such
	// a message with "failed to decompress"), but lenient peers read them as an empty message,
	// so this is not a complaint by itself: checks decide whether the transcoder produced it.
	FlaggedEmpty int
	Complaints   []Complaint
	AppHeaders   http.Header
	ContentType  string
	BodyComplete bool
}

// ControlHeader reports whether key is a protocol control (or hop / framing) header
// for any of the protocols, i.e. not application metadata.
func ControlHeader(key string) bool {
	k := textproto.CanonicalMIMEHeaderKey(key)
	switch k {
	case "Content-Type", "Content-Length", "Content-Encoding", "Accept-Encoding", "Te", "Trailer",
		"Transfer-Encoding", "Connection", "Keep-Alive", "Upgrade", "Host", "User-Agent", "Accept", "Date",
		"Connect-Protocol-Version", "Connect-Timeout-Ms", "Connect-Content-Encoding", "Connect-Accept-Encoding",
		"Grpc-Timeout", "Grpc-Encoding", "Grpc-Accept-Encoding", "Grpc-Status", "Grpc-Message",
		"Grpc-Status-Details-Bin", "X-Server-Timeout", "Grpc-Message-Type":
		return true
	}
	return false
}

func appHeaders(h http.Header) http.Header {
	out := http.Header{}
	for k, v := range h {
		if ControlHeader(k) {
			continue
		}
		out[textproto.CanonicalMIMEHeaderKey(k)] = append([]string(nil), v...)
	}
	return out
}

func splitList(vals []string) []string {
	var out []string
	for _, v := range vals {
		for _, p := range strings.Split(v, ",") {
			p = strings.TrimSpace(p)
			if p != "" {
				out = append(out, p)
			}
		}
	}
	return out
}

// ClassifyRequest decides which protocol a request is in, the way a server of each
// protocol would recognise it. multi is true when more than one protocol would claim it.
func ClassifyRequest(method string, u *url.URL, h http.Header) (f Form, codec string, cs complaints) {
	cts := h.Values("Content-Type")
	ct := ""
	if len(cts) > 1 {
		cs.add("req.content-type.multiple", "%q", cts)
	}
	if len(cts) > 0 {
		ct = cts[0]
	}
	base := strings.TrimSpace(strings.SplitN(ct, ";", 2)[0])
	switch {
	case strings.HasPrefix(base, "application/connect+"):
		return ConnectStream, strings.TrimPrefix(base, "application/connect+"), cs
	case base == "application/grpc":
		return GRPC, "proto", cs
	case strings.HasPrefix(base, "application/grpc+"):
		return GRPC, strings.TrimPrefix(base, "application/grpc+"), cs
	case base == "application/grpc-web":
		return GRPCWeb, "proto", cs
	case strings.HasPrefix(base, "application/grpc-web+"):
		return GRPCWeb, strings.TrimPrefix(base, "application/grpc-web+"), cs
	}
	q := u.Query()
	if method == http.MethodGet && q.Get("connect") == "v1" {
		return ConnectGet, q.Get("encoding"), cs
	}
	// (a Connect unary request addresses /<qualified service>/<method>; a REST path with a stray
	// Connect-Protocol-Version header is still a REST request)
	seg := strings.Split(strings.TrimPrefix(u.Path, "/"), "/")
	rpcPath := len(seg) == 2 && strings.Contains(seg[0], ".") && seg[1] != ""
	if h.Get("Connect-Protocol-Version") == "1" && strings.HasPrefix(base, "application/") && method == http.MethodPost && rpcPath {
		return ConnectUnary, strings.TrimPrefix(base, "application/"), cs
	}
	if base == "application/json" || base == "" {
		return REST, "json", cs
	}
	return REST, "json", cs
}

// ParseBackendRequest strictly parses what a backend handler received.
func ParseBackendRequest(method string, u *url.URL, h http.Header, contentLength int64, body []byte) *BackendReq {
	var cs complaints
	f, codec, c0 := ClassifyRequest(method, u, h)
	cs = append(cs, c0...)
	r := &BackendReq{Form: f, Codec: codec, Path: u.Path, ContentType: h.Get("Content-Type"), AppHeaders: appHeaders(h)}
	if codec == "" {
		cs.add("req.codec.empty", "content-type %q names no codec", r.ContentType)
	}
	// Content-Length agreement
	if contentLength >= 0 && contentLength != int64(len(body)) {
		cs.add("req.content-length.mismatch", "ContentLength=%d but body has %d bytes", contentLength, len(body))
	}
	if v := h.Get("Content-Length"); v != "" {
		if n, err := strconv.ParseInt(v, 10, 64); err != nil || n != int64(len(body)) {
			cs.add("req.content-length.header-mismatch", "Content-Length header %q but body has %d bytes", v, len(body))
		}
	}
	switch f {
	case ConnectStream:
		r.Compression = h.Get("Connect-Content-Encoding")
		r.Accept = splitList(h.Values("Connect-Accept-Encoding"))
		r.TimeoutRaw, r.HasTimeout = h.Get("Connect-Timeout-Ms"), len(h.Values("Connect-Timeout-Ms")) > 0
		if method != http.MethodPost {
			cs.add("req.method", "connect streaming request uses %s", method)
		}
		if v := h.Get("Content-Encoding"); v != "" && v != "identity" {
			cs.add("req.contradicting-header", "Content-Encoding %q on a Connect streaming request", v)
		}
		for _, v := range h.Values("Connect-Protocol-Version") {
			if v != "1" {
				cs.add("req.contradicting-header", "Connect-Protocol-Version %q on a Connect streaming request", v)
			}
		}
	case GRPC, GRPCWeb:
		r.Compression = h.Get("Grpc-Encoding")
		r.Accept = splitList(h.Values("Grpc-Accept-Encoding"))
		r.TimeoutRaw, r.HasTimeout = h.Get("Grpc-Timeout"), len(h.Values("Grpc-Timeout")) > 0
		if method != http.MethodPost {
			cs.add("req.method", "%s request uses %s", f, method)
		}
		if f == GRPC && !strings.Contains(strings.ToLower(strings.Join(h.Values("Te"), ",")), "trailers") {
			cs.add("req.grpc.te", "gRPC request without te: trailers")
		}
		if v := h.Get("Content-Encoding"); v != "" && v != "identity" {
			cs.add("req.contradicting-header", "Content-Encoding %q on a %s request", v, f)
		}
	case ConnectUnary:
		r.Compression = h.Get("Content-Encoding")
		r.Accept = splitList(h.Values("Accept-Encoding"))
		r.TimeoutRaw, r.HasTimeout = h.Get("Connect-Timeout-Ms"), len(h.Values("Connect-Timeout-Ms")) > 0
	case ConnectGet:
		q := u.Query()
		r.GetQuery = q
		r.Compression = q.Get("compression")
		r.Accept = splitList(h.Values("Accept-Encoding"))
		r.TimeoutRaw, r.HasTimeout = h.Get("Connect-Timeout-Ms"), len(h.Values("Connect-Timeout-Ms")) > 0
		for k, vs := range q {
			switch k {
			case "connect", "encoding", "message", "base64", "compression":
				if len(vs) != 1 {
					cs.add("req.get.query.duplicate", "query parameter %q given %d times", k, len(vs))
				}
			default:
				cs.add("req.get.query.unknown", "unexpected query parameter %q", k)
			}
		}
		if len(body) != 0 {
			cs.add("req.get.body", "Connect GET carries %d body bytes", len(body))
		}
		if v := h.Get("Content-Encoding"); v != "" && v != "identity" && v != q.Get("compression") {
			cs.add("req.contradicting-header", "Content-Encoding %q on a Connect GET request whose query says compression=%q", v, q.Get("compression"))
		}
	case REST:
		r.Compression = h.Get("Content-Encoding")
		r.Accept = splitList(h.Values("Accept-Encoding"))
		r.TimeoutRaw, r.HasTimeout = h.Get("X-Server-Timeout"), len(h.Values("X-Server-Timeout")) > 0
	}
	if r.Compression == "identity" {
		r.Compression = ""
	}
	var comp *Comp
	if r.Compression != "" {
		comp = CompByName(r.Compression)
		if comp == nil {
			cs.add("req.compression.unknown", "declared compression %q is not known to the harness", r.Compression)
		}
	}
	switch {
	case f.Enveloped():
		frames, complaint := SplitFrames(body)
		r.Frames = frames
		r.BodyComplete = complaint == ""
		if complaint != "" {
			cs.add("req.envelope.truncated", "%s", complaint)
		}
		for i, fr := range frames {
			if fr.Flags&^1 != 0 {
				cs.add("req.envelope.flags", "frame %d has flags %#x (only 0x01 is legal in a request)", i, fr.Flags)
			}
			payload := fr.Payload
			wasComp := fr.Flags&1 != 0
			bad := false
			if wasComp && len(payload) == 0 {
				r.FlaggedEmpty++
			}
			if wasComp && len(payload) > 0 { // (an empty payload needs no decompression; peers differ on flagging it)
				if comp == nil {
					cs.add("req.envelope.compressed-without-encoding", "frame %d has the compressed flag but no compression is declared", i)
					bad = true
				} else if dec, err := comp.Decompress(payload); err != nil {
					cs.add("req.envelope.bad-compressed-payload", "frame %d is flagged compressed but is not valid %s: %v", i, comp.Name, err)
					bad = true
				} else {
					payload = dec
				}
			}
			r.Msgs = append(r.Msgs, payload)
			r.MsgWasComp = append(r.MsgWasComp, wasComp)
			r.MsgBad = append(r.MsgBad, bad)
		}
	case f == ConnectGet:
		q := r.GetQuery
		msg := []byte(q.Get("message"))
		switch q.Get("base64") {
		case "1":
			dec, err := decodeB64Any(string(msg))
			if err != nil {
				cs.add("req.get.base64", "message is not valid base64: %v", err)
			}
			msg = dec
		case "", "0":
		default:
			cs.add("req.get.base64", "base64=%q", q.Get("base64"))
		}
		if comp != nil && len(msg) > 0 {
			dec, err := comp.Decompress(msg)
			if err != nil {
				cs.add("req.flat.bad-compressed-body", "message declared %s but does not decompress: %v", comp.Name, err)
			} else {
				msg = dec
			}
		}
		r.Msgs = [][]byte{msg}
		r.MsgWasComp = []bool{comp != nil}
		r.MsgBad = []bool{false}
		r.BodyComplete = true
	default: // flat body
		payload := body
		bad := false
		if comp != nil && len(body) > 0 {
			dec, err := comp.Decompress(body)
			if err != nil {
				cs.add("req.flat.bad-compressed-body", "body declared %s but does not decompress: %v", comp.Name, err)
				bad = true
			} else {
				payload = dec
			}
		}
		r.Msgs = [][]byte{payload}
		r.MsgWasComp = []bool{comp != nil}
		r.MsgBad = []bool{bad}
		r.BodyComplete = true
	}
	r.Complaints = cs
	return r
}

// ---------------------------------------------------------------------------------
// Client request encoders

// ClientReq describes an RPC-protocol client request to encode.
type ClientReq struct {
	Form        Form
	Path        string // /pkg.Svc/Method
	Codec       string
	Compression string   // declared request compression ("" none)
	Accept      []string // advertised acceptable response compressions
	Msgs        [][]byte // codec-encoded payloads
	// FrameComp[i]: whether message i is actually compressed on the wire (enveloped
	// forms; default = compressed iff Compression != ""). For flat forms the single
	// body is compressed iff Compression != "".
	FrameComp []bool
	Timeout   string // literal value for the protocol's timeout header ("" = absent)
	Header    http.Header
	ShortCT   bool // use application/grpc (no +proto) when codec is proto
}

// Encode returns method, request-target, headers and body.
func (c *ClientReq) Encode() (method, target string, h http.Header, body []byte) {
	h = http.Header{}
	for k, v := range c.Header {
		h[k] = append([]string(nil), v...)
	}
	comp := CompByName(c.Compression)
	pack := func(i int, p []byte) (byte, []byte) {
		on := comp != nil
		if i < len(c.FrameComp) {
			on = c.FrameComp[i]
		}
		if on && comp != nil {
			return 1, comp.Compress(p)
		}
		if on {
			return 1, p
		}
		return 0, p
	}
	method, target = http.MethodPost, c.Path
	switch c.Form {
	case ConnectUnary:
		h.Set("Content-Type", "application/"+c.Codec)
		h.Set("Connect-Protocol-Version", "1")
		if c.Compression != "" {
			h.Set("Content-Encoding", c.Compression)
		}
		if len(c.Accept) > 0 {
			h.Set("Accept-Encoding", strings.Join(c.Accept, ", "))
		}
		if c.Timeout != "" {
			h.Set("Connect-Timeout-Ms", c.Timeout)
		}
		if len(c.Msgs) > 0 {
			body = c.Msgs[0]
			if comp != nil { // (an empty message is compressed too, as real peers do: zero bytes are not a valid compressed stream)
				body = comp.Compress(body)
			}
		}
	case ConnectGet:
		method = http.MethodGet
		q := url.Values{}
		q.Set("connect", "v1")
		q.Set("encoding", c.Codec)
		var m []byte
		if len(c.Msgs) > 0 {
			m = c.Msgs[0]
		}
		if comp != nil {
			q.Set("compression", c.Compression)
			if len(m) > 0 {
				m = comp.Compress(m)
			}
		} else if c.Compression != "" {
			q.Set("compression", c.Compression)
		}
		if c.Codec != "json" || comp != nil {
			q.Set("base64", "1")
			q.Set("message", base64.RawURLEncoding.EncodeToString(m))
		} else {
			q.Set("message", string(m))
		}
		target = c.Path + "?" + q.Encode()
		if len(c.Accept) > 0 {
			h.Set("Accept-Encoding", strings.Join(c.Accept, ", "))
		}
		if c.Timeout != "" {
			h.Set("Connect-Timeout-Ms", c.Timeout)
		}
	case ConnectStream:
		h.Set("Content-Type", "application/connect+"+c.Codec)
		if c.Compression != "" {
			h.Set("Connect-Content-Encoding", c.Compression)
		}
		if len(c.Accept) > 0 {
			h.Set("Connect-Accept-Encoding", strings.Join(c.Accept, ", "))
		}
		if c.Timeout != "" {
			h.Set("Connect-Timeout-Ms", c.Timeout)
		}
		for i, m := range c.Msgs {
			fl, p := pack(i, m)
			body = AppendFrame(body, fl, p)
		}
	case GRPC, GRPCWeb:
		ct := "application/grpc"
		if c.Form == GRPCWeb {
			ct = "application/grpc-web"
		}
		if !(c.ShortCT && c.Codec == "proto") {
			ct += "+" + c.Codec
		}
		h.Set("Content-Type", ct)
		if c.Form == GRPC {
			h.Set("Te", "trailers")
		}
		if c.Compression != "" {
			h.Set("Grpc-Encoding", c.Compression)
		}
		if len(c.Accept) > 0 {
			h.Set("Grpc-Accept-Encoding", strings.Join(c.Accept, ", "))
		}
		if c.Timeout != "" {
			h.Set("Grpc-Timeout", c.Timeout)
		}
		for i, m := range c.Msgs {
			fl, p := pack(i, m)
			body = AppendFrame(body, fl, p)
		}
	}
	return method, target, h, body
}

// ---------------------------------------------------------------------------------
// Backend responses (reference server)

// ServerResp describes how a reference server of a given protocol answers.
type ServerResp struct {
	Form        Form // ConnectUnary, ConnectStream, GRPC, GRPCWeb, REST
	Codec       string
	Compression string
	Accept      []string
	Msgs        [][]byte
	FrameComp   []bool
	End         *End // nil = success
	Header      http.Header
	Trailer     http.Header
	// TrailersOnly: gRPC/gRPC-Web error with no messages is sent in the head.
	TrailersOnly bool
	// StatusInHeadKeepTrailers (gRPC, with TrailersOnly): the status keys go into the head, but
	// the application's trailers stay HTTP trailers.
	StatusInHeadKeepTrailers bool
	// CompressEnd: compress the Connect end-stream / gRPC-Web trailer frame.
	CompressEnd bool
	// TrailerSpelling: how the lines of a gRPC-Web trailer frame are written (HTTP/1 field
	// syntax allows optional whitespace around the value): 0 "k: v", 1 "k:v" (what Envoy's
	// grpc_web filter emits), 2 "k:  v  ", 3 "k:<TAB>v".
	TrailerSpelling int
}

// ServerOut is the encoded response.
type ServerOut struct {
	Status  int
	Header  http.Header
	Body    []byte
	Trailer http.Header // HTTP trailers (gRPC only)
	// FrameEnds are body offsets at which a frame (incl. the final one) ends.
	FrameEnds []int
}

// detailEncoding: binary values are base64 without padding by default; both protocols say
// that readers must accept padded values, too.
func detailEncoding(e *End) *base64.Encoding {
	if e.PadBase64 {
		return base64.StdEncoding
	}
	return base64.RawStdEncoding
}

// OmitCode as End.CodeStr makes a Connect error object carry no "code" member at all.
const OmitCode = "<no code>"

func connectErrorJSON(e *End) map[string]any {
	m := map[string]any{"code": CodeName(e.Code)}
	if e.CodeStr != "" {
		m["code"] = e.CodeStr
	}
	if e.CodeStr == OmitCode {
		delete(m, "code") // an error object without any code
	}
	if e.Message != "" {
		m["message"] = e.Message
	}
	if len(e.Details) > 0 {
		var ds []map[string]any
		for _, d := range e.Details {
			ds = append(ds, map[string]any{
				"type":  strings.TrimPrefix(d.TypeURL, "type.googleapis.com/"),
				"value": detailEncoding(e).EncodeToString(d.Value),
			})
		}
		m["details"] = ds
	}
	return m
}

func grpcStatusHeaders(e *End, into http.Header) {
	if e == nil {
		into.Set("Grpc-Status", "0")
		return
	}
	if e.CodeStr != "" {
		into.Set("Grpc-Status", e.CodeStr)
	} else {
		into.Set("Grpc-Status", strconv.Itoa(e.Code))
	}
	if e.Message != "" && !(e.OmitGrpcMessage && len(e.Details) > 0) {
		if e.RawGrpcMessage {
			into.Set("Grpc-Message", e.Message) // (a peer that does not percent-encode)
		} else {
			into.Set("Grpc-Message", GRPCPercentEncode(e.Message))
		}
	}
	if len(e.Details) > 0 {
		st := StatusProto(e)
		if e.DetailsCodeSet {
			st.Code = e.DetailsCode // a status in the details that disagrees with grpc-status
		}
		b, _ := proto.Marshal(st)
		into.Set("Grpc-Status-Details-Bin", detailEncoding(e).EncodeToString(b))
	}
}

// Encode renders the response.
func (s *ServerResp) Encode() *ServerOut {
	out := &ServerOut{Status: 200, Header: http.Header{}}
	for k, v := range s.Header {
		out.Header[k] = append([]string(nil), v...)
	}
	comp := CompByName(s.Compression)
	pack := func(i int, p []byte) (byte, []byte) {
		on := comp != nil
		if i < len(s.FrameComp) {
			on = s.FrameComp[i]
		}
		if on && comp != nil {
			return 1, comp.Compress(p)
		}
		if on {
			return 1, p
		}
		return 0, p
	}
	switch s.Form {
	case ConnectUnary:
		if len(s.Accept) > 0 {
			out.Header.Set("Accept-Encoding", strings.Join(s.Accept, ", "))
		}
		for k, v := range s.Trailer {
			out.Header["Trailer-"+k] = append([]string(nil), v...)
		}
		if s.End != nil {
			out.Status = HTTPStatusFromCode(s.End.Code)
			out.Header.Set("Content-Type", "application/json")
			out.Body, _ = json.Marshal(connectErrorJSON(s.End))
			if s.CompressEnd && comp != nil {
				// legal Connect (and plain HTTP): an error body under Content-Encoding
				out.Header.Set("Content-Encoding", s.Compression)
				out.Body = comp.Compress(out.Body)
			}
			break
		}
		out.Header.Set("Content-Type", "application/"+s.Codec)
		if len(s.Msgs) > 0 {
			out.Body = s.Msgs[0]
		}
		if s.Compression != "" {
			out.Header.Set("Content-Encoding", s.Compression)
			if comp != nil && len(s.Msgs) > 0 {
				out.Body = comp.Compress(out.Body)
			}
		}
	case ConnectStream:
		out.Header.Set("Content-Type", "application/connect+"+s.Codec)
		if s.Compression != "" {
			out.Header.Set("Connect-Content-Encoding", s.Compression)
		}
		if len(s.Accept) > 0 {
			out.Header.Set("Connect-Accept-Encoding", strings.Join(s.Accept, ", "))
		}
		for i, m := range s.Msgs {
			fl, p := pack(i, m)
			out.Body = AppendFrame(out.Body, fl, p)
			out.FrameEnds = append(out.FrameEnds, len(out.Body))
		}
		end := map[string]any{}
		if s.End != nil {
			end["error"] = connectErrorJSON(s.End)
		}
		if len(s.Trailer) > 0 {
			end["metadata"] = s.Trailer
		}
		eb, _ := json.Marshal(end)
		fl := byte(2)
		if s.CompressEnd && comp != nil {
			fl |= 1
			eb = comp.Compress(eb)
		}
		out.Body = AppendFrame(out.Body, fl, eb)
		out.FrameEnds = append(out.FrameEnds, len(out.Body))
	case GRPC, GRPCWeb:
		ct := "application/grpc"
		if s.Form == GRPCWeb {
			ct = "application/grpc-web"
		}
		out.Header.Set("Content-Type", ct+"+"+s.Codec)
		if s.Compression != "" {
			out.Header.Set("Grpc-Encoding", s.Compression)
		}
		if len(s.Accept) > 0 {
			out.Header.Set("Grpc-Accept-Encoding", strings.Join(s.Accept, ", "))
		}
		if s.TrailersOnly && len(s.Msgs) == 0 {
			grpcStatusHeaders(s.End, out.Header)
			if s.StatusInHeadKeepTrailers && s.Form == GRPC {
				// the status is in the head, the application's trailers are (HTTP) trailers
				out.Trailer = http.Header{}
				for k, v := range s.Trailer {
					out.Trailer[k] = append([]string(nil), v...)
				}
				break
			}
			for k, v := range s.Trailer {
				out.Header[k] = append(out.Header[k], v...)
			}
			break
		}
		for i, m := range s.Msgs {
			fl, p := pack(i, m)
			out.Body = AppendFrame(out.Body, fl, p)
			out.FrameEnds = append(out.FrameEnds, len(out.Body))
		}
		tr := http.Header{}
		for k, v := range s.Trailer {
			tr[k] = append([]string(nil), v...)
		}
		grpcStatusHeaders(s.End, tr)
		if s.Form == GRPC {
			out.Trailer = tr
			break
		}
		// gRPC-Web: trailers as an HTTP/1 header block in a 0x80 frame, lower-case keys
		var tb bytes.Buffer
		keys := make([]string, 0, len(tr))
		for k := range tr {
			keys = append(keys, k)
		}
		sort.Strings(keys)
		for _, k := range keys {
			for _, v := range tr[k] {
				switch s.TrailerSpelling {
				case 1:
					fmt.Fprintf(&tb, "%s:%s\r\n", strings.ToLower(k), v)
				case 2:
					fmt.Fprintf(&tb, "%s:  %s  \r\n", strings.ToLower(k), v)
				case 3:
					fmt.Fprintf(&tb, "%s:\t%s\r\n", strings.ToLower(k), v)
				default:
					fmt.Fprintf(&tb, "%s: %s\r\n", strings.ToLower(k), v)
				}
			}
		}
		fl, p := byte(0x80), tb.Bytes()
		if s.CompressEnd && comp != nil {
			fl |= 1
			p = comp.Compress(p)
		}
		out.Body = AppendFrame(out.Body, fl, p)
		out.FrameEnds = append(out.FrameEnds, len(out.Body))
	case REST:
		if len(s.Accept) > 0 {
			out.Header.Set("Accept-Encoding", strings.Join(s.Accept, ", "))
		}
		if s.End != nil {
			out.Status = HTTPStatusFromCode(s.End.Code)
			if out.Header.Get("Content-Type") == "" {
				out.Header.Set("Content-Type", "application/json")
			}
			out.Body, _ = protojson.Marshal(StatusProto(s.End))
			if s.CompressEnd && comp != nil {
				out.Header.Set("Content-Encoding", s.Compression)
				out.Body = comp.Compress(out.Body)
			}
			break
		}
		if out.Header.Get("Content-Type") == "" {
			out.Header.Set("Content-Type", "application/json")
		}
		if len(s.Msgs) > 0 {
			out.Body = s.Msgs[0]
		}
		if s.Compression != "" {
			out.Header.Set("Content-Encoding", s.Compression)
			if comp != nil && len(s.Msgs) > 0 {
				out.Body = comp.Compress(out.Body)
			}
		}
	}
	return out
}

// ---------------------------------------------------------------------------------
// Responses as received by a client

// ClientResp is a strictly parsed response as received by a client of a given form.
type ClientResp struct {
	Form         Form
	Status       int
	Codec        string
	Compression  string
	Accept       []string
	Msgs         [][]byte // uncompressed codec-encoded payloads
	MsgWasComp   []bool
	MsgBad       []bool      // declared/flagged compressed but not decompressible: unreadable
	End          End         // Code 0 = OK
	EndSeen      int         // number of terminal dispositions found
	FlaggedEmpty int         // see BackendReq.FlaggedEmpty
	BareHTTP     bool        // a plain HTTP error response not in the RPC protocol
	Meta         http.Header // trailers / end-of-stream metadata (application keys only)
	AppHeaders   http.Header
	Complaints   []Complaint
	ContentType  string
}

// OK reports whether the client observed success.
func (c *ClientResp) OK() bool {
	return !c.BareHTTP && c.EndSeen > 0 && c.End.Code == 0 && c.End.CodeStr == ""
}

func parseConnectError(raw []byte, cs *complaints, where string) (End, http.Header) {
	var e End
	var obj struct {
		Code    *string `json:"code"`
		Message string  `json:"message"`
		Details []struct {
			Type  string `json:"type"`
			Value string `json:"value"`
		} `json:"details"`
	}
	if err := json.Unmarshal(raw, &obj); err != nil {
		cs.add(where+".error-json", "connect error is not valid JSON: %v (%.80q)", err, raw)
		e.Code = 2
		return e, nil
	}
	if obj.Code == nil {
		cs.add(where+".error-code-missing", "connect error JSON has no code: %.120s", raw)
		e.Code = 2
	} else if c, ok := CodeFromName(*obj.Code); ok {
		e.Code = c
		if c < 1 || c > 16 {
			e.CodeStr = *obj.Code
		}
	} else {
		cs.add(where+".error-code-unknown", "connect error code %q is not a defined name", *obj.Code)
		e.Code, e.CodeStr = 2, *obj.Code
	}
	e.Message = obj.Message
	for i, d := range obj.Details {
		v, err := decodeB64Any(d.Value)
		if err != nil {
			cs.add(where+".error-detail-base64", "detail %d value is not base64: %v", i, err)
		}
		e.Details = append(e.Details, Detail{TypeURL: "type.googleapis.com/" + d.Type, Value: v})
	}
	return e, nil
}

func parseGRPCStatus(h http.Header, cs *complaints, where string) (End, bool) {
	vals := h.Values("Grpc-Status")
	if len(vals) == 0 {
		return End{}, false
	}
	var e End
	if len(vals) > 1 {
		cs.add(where+".grpc-status.multiple", "%q", vals)
	}
	n, err := strconv.ParseUint(vals[0], 10, 32)
	if err != nil {
		cs.add(where+".grpc-status.syntax", "grpc-status %q is not a non-negative integer", vals[0])
		e.Code, e.CodeStr = 2, vals[0]
	} else {
		e.Code = int(n)
		if n > 16 {
			e.CodeStr = vals[0]
		}
	}
	msg := h.Get("Grpc-Message")
	for i := 0; i < len(msg); i++ {
		if msg[i] < ' ' || msg[i] > '~' {
			cs.add(where+".grpc-message.unescaped", "grpc-message contains raw byte %#x", msg[i])
			break
		}
	}
	e.Message = GRPCPercentDecode(msg)
	// (a grpc-message that does not decode to UTF-8 is tolerated: the gRPC document obliges
	// decoders not to fail on it)
	_ = utf8.ValidString
	if bin := h.Get("Grpc-Status-Details-Bin"); bin != "" {
		raw, err := decodeB64Any(bin)
		var st statuspb.Status
		if err != nil {
			cs.add(where+".grpc-details.base64", "%v", err)
		} else if err := proto.Unmarshal(raw, &st); err != nil {
			cs.add(where+".grpc-details.proto", "%v", err)
		} else {
			full := endFromStatus(&st)
			e.Details = full.Details
			if int(uint32(st.GetCode())) != e.Code && e.CodeStr == "" {
				cs.add(where+".grpc-details.code-mismatch", "grpc-status %d but details-bin code %d", e.Code, st.GetCode())
			}
		}
	}
	return e, true
}

func metaOnly(h http.Header) http.Header {
	out := http.Header{}
	for k, v := range h {
		ck := textproto.CanonicalMIMEHeaderKey(k)
		switch ck {
		case "Grpc-Status", "Grpc-Message", "Grpc-Status-Details-Bin":
			continue
		}
		out[ck] = append(out[ck], v...)
	}
	return out
}

// ParseClientResponse strictly parses what a client of the given form received.
// bodyForbidden tells whether the HTTP status forbids a body.
func ParseClientResponse(form Form, status int, h http.Header, body []byte, trailers http.Header) *ClientResp {
	var cs complaints
	r := &ClientResp{Form: form, Status: status, Meta: http.Header{}, ContentType: h.Get("Content-Type")}
	if vals := h.Values("Content-Type"); len(vals) > 1 {
		cs.add("resp.content-type.multiple", "%q", vals)
	}
	if v := h.Get("Content-Length"); v != "" {
		if n, err := strconv.ParseInt(v, 10, 64); err != nil || n != int64(len(body)) {
			cs.add("resp.content-length.mismatch", "Content-Length %q but body has %d bytes", v, len(body))
		}
	}
	ct := strings.TrimSpace(strings.SplitN(r.ContentType, ";", 2)[0])
	finish := func() *ClientResp {
		r.AppHeaders = appHeaders(h)
		// unary connect trailers are carried as Trailer- prefixed headers
		if form == ConnectUnary || form == ConnectGet {
			for k, v := range r.AppHeaders {
				if rest, ok := strings.CutPrefix(k, "Trailer-"); ok {
					r.Meta[rest] = append(r.Meta[rest], v...)
					delete(r.AppHeaders, k)
				}
			}
		}
		r.Complaints = cs
		return r
	}
	envelopedBody := func(prefixShort, prefixLong string, endFlag byte, legalMask byte) {
		switch {
		case ct == prefixShort && prefixShort != "":
			r.Codec = "proto"
		case strings.HasPrefix(ct, prefixLong):
			r.Codec = strings.TrimPrefix(ct, prefixLong)
			if r.Codec == "" {
				cs.add("resp.codec.empty", "content-type %q names no codec", r.ContentType)
			}
		default:
			cs.add("resp.content-type.wrong", "content-type %q is not %s*", r.ContentType, prefixLong)
		}
		var comp *Comp
		if r.Compression != "" && r.Compression != "identity" {
			comp = CompByName(r.Compression)
			if comp == nil {
				cs.add("resp.compression.unknown", "declared compression %q", r.Compression)
			}
		}
		frames, complaint := SplitFrames(body)
		if complaint != "" {
			cs.add("resp.envelope.truncated", "%s", complaint)
		}
		for i, fr := range frames {
			if fr.Flags&^legalMask != 0 {
				cs.add("resp.envelope.flags", "frame %d has flags %#x (legal mask %#x)", i, fr.Flags, legalMask)
			}
			payload := fr.Payload
			isEnd := endFlag != 0 && fr.Flags&endFlag != 0
			if r.EndSeen > 0 {
				cs.add("resp.data-after-end", "frame %d (flags %#x, %d bytes) follows the end of the stream", i, fr.Flags, len(fr.Payload))
			}
			bad := false
			if fr.Flags&1 != 0 && len(payload) == 0 && !isEnd {
				r.FlaggedEmpty++
			}
			if fr.Flags&1 != 0 && len(payload) > 0 { // (an empty payload needs no decompression; peers differ on flagging it)
				if comp == nil {
					cs.add("resp.envelope.compressed-without-encoding", "frame %d has the compressed flag but no (known) compression is declared", i)
					bad = true
				} else if dec, err := comp.Decompress(payload); err != nil {
					cs.add("resp.envelope.bad-compressed-payload", "frame %d flagged compressed is not valid %s: %v", i, comp.Name, err)
					bad = true
				} else {
					payload = dec
				}
			}
			if !isEnd {
				r.Msgs = append(r.Msgs, payload)
				r.MsgWasComp = append(r.MsgWasComp, fr.Flags&1 != 0)
				r.MsgBad = append(r.MsgBad, bad)
				continue
			}
			r.EndSeen++
			switch form {
			case ConnectStream:
				var obj struct {
					Error    json.RawMessage     `json:"error"`
					Metadata map[string][]string `json:"metadata"`
				}
				if err := json.Unmarshal(payload, &obj); err != nil {
					cs.add("resp.end-stream.json", "end-of-stream payload is not JSON: %v (%.80q)", err, payload)
					r.End.Code = 2
				} else {
					if len(obj.Error) > 0 && string(obj.Error) != "null" {
						r.End, _ = parseConnectError(obj.Error, &cs, "resp.end-stream")
					}
					for k, v := range obj.Metadata {
						ck := textproto.CanonicalMIMEHeaderKey(k)
						r.Meta[ck] = append(r.Meta[ck], v...)
					}
				}
			case GRPCWeb:
				th := http.Header{}
				for _, line := range strings.Split(string(payload), "\r\n") {
					if line == "" {
						continue
					}
					k, v, ok := strings.Cut(line, ":")
					if !ok {
						cs.add("resp.trailer-frame.syntax", "trailer line %q has no colon", line)
						continue
					}
					if k != strings.ToLower(k) {
						// PROTOCOL-WEB: the trailer block uses lower-case field names (HTTP/2 style);
						// grpc-web's own JavaScript client looks keys up verbatim ("grpc-status")
						cs.add("resp.trailer-frame.key-not-lower-case", "trailer frame field name %q is not lower-case", k)
					}
					th.Add(textproto.CanonicalMIMEHeaderKey(strings.TrimSpace(k)), strings.TrimSpace(v))
				}
				e, ok := parseGRPCStatus(th, &cs, "resp.trailer-frame")
				if !ok {
					cs.add("resp.trailer-frame.no-status", "trailer frame has no grpc-status")
					e.Code = 2
				}
				r.End = e
				r.Meta = metaOnly(th)
			}
		}
	}
	switch form {
	case ConnectUnary, ConnectGet:
		r.Compression = h.Get("Content-Encoding")
		r.Accept = splitList(h.Values("Accept-Encoding"))
		r.EndSeen = 1
		if status != 200 {
			if ct != "application/json" {
				// a bare HTTP error (not a Connect error): the client maps the status
				r.BareHTTP = true
				r.End.Code = CodeFromHTTPStatus(status)
				return finish()
			}
			raw := body
			if r.Compression != "" && r.Compression != "identity" {
				if comp := CompByName(r.Compression); comp != nil {
					if dec, err := comp.Decompress(body); err == nil {
						raw = dec
					} else {
						cs.add("resp.flat.bad-compressed-body", "error body declared %s: %v", r.Compression, err)
					}
				}
			}
			r.End, _ = parseConnectError(raw, &cs, "resp.unary")
			if want := HTTPStatusFromCode(r.End.Code); r.End.Code >= 1 && r.End.Code <= 16 && want != status {
				cs.add("resp.unary.status-code-mismatch", "HTTP status %d but error code %s prescribes %d", status, CodeName(r.End.Code), want)
			}
			return finish()
		}
		if !strings.HasPrefix(ct, "application/") {
			cs.add("resp.content-type.wrong", "content-type %q on a Connect unary success", r.ContentType)
		} else {
			r.Codec = strings.TrimPrefix(ct, "application/")
			if r.Codec == "" {
				cs.add("resp.codec.empty", "content-type %q names no codec", r.ContentType)
			}
		}
		payload := body
		if r.Compression != "" && r.Compression != "identity" {
			comp := CompByName(r.Compression)
			switch {
			case comp == nil:
				cs.add("resp.compression.unknown", "declared compression %q", r.Compression)
			case len(body) > 0:
				dec, err := comp.Decompress(body)
				if err != nil {
					cs.add("resp.flat.bad-compressed-body", "body declared %s but does not decompress: %v", comp.Name, err)
					r.MsgBad = []bool{true}
				} else {
					payload = dec
				}
			}
		}
		r.Msgs = [][]byte{payload}
		r.MsgWasComp = []bool{r.Compression != ""}
		if r.MsgBad == nil {
			r.MsgBad = []bool{false}
		}
	case ConnectStream:
		r.Compression = h.Get("Connect-Content-Encoding")
		r.Accept = splitList(h.Values("Connect-Accept-Encoding"))
		if status != 200 {
			r.BareHTTP = true
			r.EndSeen = 1
			r.End.Code = CodeFromHTTPStatus(status)
			return finish()
		}
		envelopedBody("", "application/connect+", 2, 3)
		if r.EndSeen == 0 {
			cs.add("resp.no-end", "connect stream ended without an end-of-stream frame")
		}
		if r.EndSeen > 1 {
			cs.add("resp.multiple-ends", "%d end-of-stream frames", r.EndSeen)
		}
	case GRPC, GRPCWeb:
		r.Compression = h.Get("Grpc-Encoding")
		r.Accept = splitList(h.Values("Grpc-Accept-Encoding"))
		if status != 200 {
			r.BareHTTP = true
			r.EndSeen = 1
			r.End.Code = CodeFromHTTPStatus(status)
			return finish()
		}
		headEnd, headHas := parseGRPCStatus(h, &cs, "resp.head")
		if form == GRPC {
			envelopedBody("application/grpc", "application/grpc+", 0, 1)
			trEnd, trHas := parseGRPCStatus(trailers, &cs, "resp.trailers")
			switch {
			case headHas && trHas && headEnd.Code == trEnd.Code && headEnd.CodeStr == trEnd.CodeStr && headEnd.Message == trEnd.Message:
				// net/http repeats a declared trailer key that is also present as a header;
				// an identical repetition is one disposition, not two.
				r.EndSeen, r.End = 1, trEnd
				if len(trEnd.Details) == 0 {
					r.End = headEnd // (only announced keys are repeated; details travel in the headers)
				}
			case headHas && trHas:
				cs.add("resp.multiple-ends", "grpc-status in both headers (%d) and trailers (%d)", headEnd.Code, trEnd.Code)
				r.EndSeen = 2
				r.End = trEnd
			case headHas:
				r.EndSeen, r.End = 1, headEnd
				if len(body) > 0 {
					cs.add("resp.data-after-end", "trailers-only response carries %d body bytes", len(body))
				}
				r.Meta = http.Header{}
			case trHas:
				r.EndSeen, r.End = 1, trEnd
			default:
				cs.add("resp.no-end", "gRPC response without grpc-status in headers or trailers")
			}
			for k, v := range metaOnly(trailers) {
				r.Meta[k] = append(r.Meta[k], v...)
			}
		} else {
			envelopedBody("application/grpc-web", "application/grpc-web+", 0x80, 0x81)
			switch {
			case headHas && r.EndSeen > 0:
				cs.add("resp.multiple-ends", "grpc-status in headers and a trailer frame")
				r.EndSeen++
			case headHas:
				r.EndSeen, r.End = 1, headEnd
				if len(body) > 0 {
					cs.add("resp.data-after-end", "trailers-only response carries %d body bytes", len(body))
				}
			case r.EndSeen == 0:
				cs.add("resp.no-end", "gRPC-Web response without trailer frame or grpc-status header")
			case r.EndSeen > 1:
				cs.add("resp.multiple-ends", "%d trailer frames", r.EndSeen)
			}
			if len(trailers) > 0 {
				// HTTP trailers are not part of gRPC-Web; tolerated but not read.
				_ = trailers
			}
		}
	case REST:
		r.Compression = h.Get("Content-Encoding")
		r.Accept = splitList(h.Values("Accept-Encoding"))
		r.EndSeen = 1
		raw := body
		if r.Compression != "" && r.Compression != "identity" {
			comp := CompByName(r.Compression)
			switch {
			case comp == nil:
				cs.add("resp.compression.unknown", "declared compression %q", r.Compression)
			case len(body) > 0:
				dec, err := comp.Decompress(body)
				if err != nil {
					cs.add("resp.flat.bad-compressed-body", "body declared %s but does not decompress: %v", comp.Name, err)
					r.MsgBad = []bool{true}
				} else {
					raw = dec
				}
			}
		}
		if status/100 == 2 {
			r.Codec = "json"
			r.Msgs = [][]byte{raw}
			if r.MsgBad == nil {
				r.MsgBad = []bool{false}
			}
			return finish()
		}
		var st statuspb.Status
		if ct != "application/json" || protojson.Unmarshal(raw, &st) != nil {
			r.BareHTTP = true
			r.End.Code = CodeFromHTTPStatus(status)
			return finish()
		}
		r.End = endFromStatus(&st)
		if r.End.Code > 16 {
			r.End.CodeStr = strconv.Itoa(r.End.Code)
		}
		if r.End.Code == 0 {
			cs.add("resp.rest.error-with-ok-code", "HTTP status %d with google.rpc.Status code 0", status)
			r.End.Code = CodeFromHTTPStatus(status)
		}
		if want := HTTPStatusFromCode(r.End.Code); r.End.Code >= 1 && r.End.Code <= 16 && want != status {
			cs.add("resp.rest.status-code-mismatch", "HTTP status %d but code %d prescribes %d", status, r.End.Code, want)
		}
	}
	return finish()
}

// CountFlaggedEmpty counts the frames of an enveloped body that carry the compressed flag
// over a zero-length payload (trailer / end frames excluded).
func CountFlaggedEmpty(body []byte) int {
	frames, _ := SplitFrames(body)
	n := 0
	for _, fr := range frames {
		if fr.Flags&1 != 0 && fr.Flags&^1 == 0 && len(fr.Payload) == 0 {
			n++
		}
	}
	return n
}
