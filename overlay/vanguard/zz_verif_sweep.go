//go:build verif && verifsweep

package vanguard

import (
	"fmt"
	"net/http"
)

// Function-level access for C12's full-domain sweep (thorough tier). The two halves below are
// exactly what ServeHTTP calls to move a timeout from the client's protocol to the target's:
// clientProtocolHandler.extractProtocolRequestHeaders, then
// serverProtocolHandler.addProtocolRequestHeaders. This file is only compiled into a second
// binary (tag verifsweep); if a change to the library stops it compiling, only the sweep is
// skipped, the end-to-end check is unaffected.

// VerifRequestMeta is the protocol-agnostic request metadata.
type VerifRequestMeta = requestMeta

// VerifClientExtractor returns extractProtocolRequestHeaders of the named client protocol.
func VerifClientExtractor(client string) (func(http.Header) (VerifRequestMeta, error), error) {
	var h clientProtocolHandler
	switch client {
	case "grpc":
		h = grpcClientProtocol{}
	case "grpc-web":
		h = grpcWebClientProtocol{}
	case "connect-unary":
		h = connectUnaryPostClientProtocol{}
	case "connect-stream":
		h = connectStreamClientProtocol{}
	case "rest":
		h = restClientProtocol{} // without a Content-Type the operation is not consulted
	default:
		return nil, fmt.Errorf("unknown client %q", client)
	}
	return func(hd http.Header) (VerifRequestMeta, error) { return h.extractProtocolRequestHeaders(nil, hd) }, nil
}

// VerifServerAdder returns addProtocolRequestHeaders of the named target protocol.
func VerifServerAdder(target string) (func(VerifRequestMeta, http.Header), error) {
	var h serverProtocolHandler
	switch target {
	case "connect-unary":
		h = connectUnaryServerProtocol{}
	case "connect-stream":
		h = connectStreamServerProtocol{}
	case "grpc":
		h = grpcServerProtocol{}
	case "grpc-web":
		h = grpcWebServerProtocol{}
	case "rest":
		h = restServerProtocol{}
	default:
		return nil, fmt.Errorf("unknown target %q", target)
	}
	return h.addProtocolRequestHeaders, nil
}
