//go:build verif

package vanguard

import "connectrpc.com/vanguard/internal/verifsync"

// VerifBufferPool exposes the transcoder's message buffer pool (the verifsync shim that
// replaces sync.Pool in verification builds) so that checks can read its statistics.
func VerifBufferPool(t *Transcoder) *verifsync.Pool { return &t.bufferPool.Pool }
