//go:build verif

// Package verifsync is a drop-in replacement for the parts of package sync that
// vanguard uses. It is injected by `go build -overlay` (the "sync" import of every
// non-test file of package vanguard is rewritten to this package), so /repo itself is
// untouched. Outside a controlled-scheduler run it behaves like sync (Mutex) or like a
// deterministic LIFO free list (Pool); inside one, every Lock / Get / Put is a scheduling
// point and blocking is made visible to the scheduler.
package verifsync

import (
	"bytes"
	"sync"
	"sync/atomic"
)

// Pass-throughs so that a change to vanguard that starts using these still builds.
type (
	Once      = sync.Once
	RWMutex   = sync.RWMutex
	WaitGroup = sync.WaitGroup
	Map       = sync.Map
	Locker    = sync.Locker
	Cond      = sync.Cond
)

func NewCond(l Locker) *Cond { return sync.NewCond(l) }

func OnceFunc(f func()) func() { return sync.OnceFunc(f) }

// Hooks is implemented by the controlled scheduler.
type Hooks interface {
	// Point is a scheduling point; the calling thread may be descheduled.
	Point(kind string, obj any)
	// Block parks the calling thread until ready() is true.
	Block(kind string, obj any, ready func() bool)
	// Choose lets the explorer resolve nondeterminism of the pool (n>1 alternatives).
	Choose(kind string, n int) int
}

var hooks atomic.Pointer[hooksBox]

type hooksBox struct{ h Hooks }

// SetHooks installs (or with nil removes) the scheduler hooks.
func SetHooks(h Hooks) {
	if h == nil {
		hooks.Store(nil)
		return
	}
	hooks.Store(&hooksBox{h: h})
}

func cur() Hooks {
	if b := hooks.Load(); b != nil {
		return b.h
	}
	return nil
}

// ---------------------------------------------------------------------------------

// Mutex replaces sync.Mutex.
type Mutex struct {
	real sync.Mutex
	held bool // only used under the scheduler (one thread runs at a time)
}

func (m *Mutex) Lock() {
	if h := cur(); h != nil {
		h.Point("mutex.lock", m)
		for m.held {
			h.Block("mutex.wait", m, func() bool { return !m.held })
		}
		m.held = true
		return
	}
	m.real.Lock()
}

func (m *Mutex) Unlock() {
	if h := cur(); h != nil {
		if !m.held {
			panic("verifsync: unlock of unlocked mutex")
		}
		m.held = false
		return
	}
	m.real.Unlock()
}

func (m *Mutex) TryLock() bool {
	if h := cur(); h != nil {
		h.Point("mutex.trylock", m)
		if m.held {
			return false
		}
		m.held = true
		return true
	}
	return m.real.TryLock()
}

// ---------------------------------------------------------------------------------

// PoolMode selects what a Pool may do on Get.
type PoolMode int32

const (
	// PoolLIFO always returns the most recently Put element (maximal reuse).
	PoolLIFO PoolMode = iota
	// PoolChoose asks Hooks.Choose which of {New, any pooled element} to hand out,
	// which is everything the real sync.Pool may legally do.
	PoolChoose
	// PoolFresh never reuses (always New); Put still performs its checks.
	PoolFresh
)

var poolMode atomic.Int32

func SetPoolMode(m PoolMode) { poolMode.Store(int32(m)) }

// Poison is written over the full capacity of every *bytes.Buffer that is Put, so
// that a use-after-Put shows up as poison bytes in an output.
const Poison = 0xA5

var poisonOn atomic.Bool

func SetPoison(on bool) { poisonOn.Store(on) }

// Pool replaces sync.Pool with a deterministic, inspectable free list.
type Pool struct {
	New func() any

	mu    sync.Mutex
	items []any
	reg   bool
	id    int
	stats PoolStats
	// poisoned: buffers currently in the pool whose capacity was overwritten with Poison
	poisoned map[*bytes.Buffer]bool
}

// PoolStats are cumulative per-pool counters.
type PoolStats struct {
	Gets, Puts, News int
	DoublePuts       int // Put of an element that is already in the pool
	NilPuts          int
	MaxCapPut        int // largest bytes.Buffer capacity ever Put
	MaxCapSeen       int // largest bytes.Buffer capacity ever seen (Get or Put)
	// WritesAfterPut: buffers whose poison (written over their whole capacity when they were
	// Put) was no longer intact when they were handed out again: somebody wrote into a
	// buffer it had already given back.
	WritesAfterPut int
}

var (
	regMu    sync.Mutex
	registry []*Pool
	// Events counts every Get/Put on any pool (cheap progress/vacuity indicator).
	Events atomic.Int64
)

// registryOn enables the global pool registry (C14/C15 harnesses). It is off by default
// so that pools of discarded Transcoders can be garbage collected.
var registryOn atomic.Bool

func SetRegistry(on bool) { registryOn.Store(on) }

func (p *Pool) register() {
	if p.reg || !registryOn.Load() {
		return
	}
	regMu.Lock()
	p.reg = true
	p.id = len(registry)
	registry = append(registry, p)
	regMu.Unlock()
}

// Pools returns every pool that was ever used, in first-use order.
func Pools() []*Pool {
	regMu.Lock()
	defer regMu.Unlock()
	return append([]*Pool(nil), registry...)
}

// ResetRegistry forgets all pools (between executions that build new Transcoders).
func ResetRegistry() {
	regMu.Lock()
	for _, p := range registry {
		p.reg = false
	}
	registry = nil
	regMu.Unlock()
}

func (p *Pool) ID() int { return p.id }

// AuditPoison counts the buffers still in the pool whose poison is no longer intact
// (written to after they were Put). Call at the end of an execution.
func (p *Pool) AuditPoison() int {
	p.mu.Lock()
	defer p.mu.Unlock()
	n := 0
	for _, it := range p.items {
		b, ok := it.(*bytes.Buffer)
		if !ok || !p.poisoned[b] {
			continue
		}
		bs := b.Bytes()
		bs = bs[:cap(bs)]
		for _, c := range bs {
			if c != Poison {
				n++
				break
			}
		}
	}
	return n
}

func (p *Pool) Stats() PoolStats {
	p.mu.Lock()
	defer p.mu.Unlock()
	return p.stats
}

// Items returns a snapshot of the elements currently pooled (bottom to top).
func (p *Pool) Items() []any {
	p.mu.Lock()
	defer p.mu.Unlock()
	return append([]any(nil), p.items...)
}

func (p *Pool) Get() any {
	h := cur()
	if h != nil {
		h.Point("pool.get", p)
	}
	Events.Add(1)
	p.mu.Lock()
	p.register()
	p.stats.Gets++
	var x any
	n := len(p.items)
	switch mode := PoolMode(poolMode.Load()); {
	case mode == PoolFresh || n == 0:
	case mode == PoolChoose && h != nil:
		// alternative 0 = top of stack (default), 1..n-1 = deeper elements, n = New
		p.mu.Unlock()
		c := h.Choose("pool.pick", n+1)
		p.mu.Lock()
		n = len(p.items)
		if c < n {
			i := n - 1 - c
			x = p.items[i]
			p.items = append(p.items[:i], p.items[i+1:]...)
		}
	default:
		x = p.items[n-1]
		p.items = p.items[:n-1]
	}
	if x == nil && p.New != nil {
		p.stats.News++
		p.mu.Unlock()
		x = p.New()
		p.mu.Lock()
	}
	if b, ok := x.(*bytes.Buffer); ok {
		if b.Cap() > p.stats.MaxCapSeen {
			p.stats.MaxCapSeen = b.Cap()
		}
		if p.poisoned[b] {
			delete(p.poisoned, b)
			bs := b.Bytes()
			bs = bs[:cap(bs)]
			for _, c := range bs {
				if c != Poison {
					p.stats.WritesAfterPut++
					break
				}
			}
		}
	}
	p.mu.Unlock()
	return x
}

func (p *Pool) Put(x any) {
	if h := cur(); h != nil {
		h.Point("pool.put", p)
	}
	Events.Add(1)
	p.mu.Lock()
	defer p.mu.Unlock()
	p.register()
	p.stats.Puts++
	if x == nil {
		p.stats.NilPuts++
		return
	}
	for _, it := range p.items {
		if it == x {
			p.stats.DoublePuts++
			return
		}
	}
	if b, ok := x.(*bytes.Buffer); ok {
		if b.Cap() > p.stats.MaxCapPut {
			p.stats.MaxCapPut = b.Cap()
		}
		if b.Cap() > p.stats.MaxCapSeen {
			p.stats.MaxCapSeen = b.Cap()
		}
		if poisonOn.Load() {
			bs := b.Bytes()
			bs = bs[:cap(bs)]
			for i := range bs {
				bs[i] = Poison
			}
			if p.poisoned == nil {
				p.poisoned = map[*bytes.Buffer]bool{}
			}
			p.poisoned[b] = true
		}
	}
	p.items = append(p.items, x)
}
